import Frp.Driver.Proto
import Frp.Model.Frame
import Frp.Props.C17
import Frp.Model.MsgObj
import Frp.Model.Dispatcher
import Frp.Props.C17Dispatch
import Frp.Model.Lane
import Frp.Props.C17Lane
import Frp.Props.C17Batch
import Frp.Props.C17Udp
import Frp.Model.IPText
/-
  Driver engine "codec": replays the harness trace (real msg.WriteMsg / ReadMsg / ReadMsgInto and
  the first-message handling of a live frps) on the Frame model and evaluates the C17 predicate
  `C17.holdsOn` on the implementation's own results.
-/
namespace Frp
namespace Engines
open Proto Frame

def dropS (s : String) (n : Nat) : String := String.ofList (s.toList.drop n)
def startsS (s p : String) : Bool := p.toList.isPrefixOf s.toList

def codecParseOutcome (s : String) : Option C17.Outcome :=
  if s = "nil" then some .nilMsg
  else if startsS s "msg:" then some (.msg (dropS s 4))
  else if startsS s "err:" then some (.err (dropS s 4))
  else none

def renderOutcome : C17.Outcome → String
  | .msg s => "msg:" ++ s
  | .nilMsg => "nil"
  | .err c => "err:" ++ c
  | .panic => "panic"

def renderObs (o : C17.Obs) : String := s!"{renderOutcome o.out} {o.consumed} {o.bodyReq}"

/-- `<outcome> <consumed> <bodyReq>` -/
def parseObs (ws : List String) : Option C17.Obs :=
  match ws with
  | [o, c, r] => do
    let o ← codecParseOutcome o
    let c ← c.toNat?
    let r ← r.toNat?
    pure ⟨o, c, r⟩
  | _ => none

def isPanic (impl : String) : Bool := startsS impl "PANIC"

def panicObs : C17.Obs := ⟨.panic, 0, 0⟩

/-- encoding/json's verdict is read off the implementation's own outcome (relational oracle) -/
def jsonOkOf (o : C17.Obs) : Bool := o.out != .err "json"

/-! canonical tree texts of the harness (`codecCanonAny`):
    `n | t | f | i<dec> | s<hex> | [v,…] | {<hexkey>:v,…}` -/

def isHexC (c : Char) : Bool := (hexVal c).isSome

def spanHex (cs : List Char) : List Char × List Char := cs.span isHexC

def parseIntChars (cs : List Char) : Option (Int × List Char) :=
  let (neg, cs) := match cs with | '-' :: r => (true, r) | _ => (false, cs)
  let (ds, rest) := cs.span Char.isDigit
  if ds.isEmpty then none else
  let n : Nat := ds.foldl (fun (a : Nat) c => a * 10 + (c.toNat - 48)) 0
  some (if neg then - (n : Int) else (n : Int), rest)

mutual
partial def parseTree (cs : List Char) : Option (MsgObj.J × List Char) :=
  match cs with
  | 'n' :: r => some (.null, r)
  | 't' :: r => some (.bool true, r)
  | 'f' :: r => some (.bool false, r)
  | 'i' :: r => (parseIntChars r).map (fun (i, r) => (.num i, r))
  | 'r' :: r =>
    let (h, r) := spanHex r
    (unhexAux h).map (fun s => (.real s, r))
  | 's' :: r =>
    let (h, r) := spanHex r
    (unhexAux h).map (fun s => (.str s, r))
  | '[' :: ']' :: r => some (.arr [], r)
  | '[' :: r => (parseElems r []).map (fun (l, r) => (.arr l, r))
  | '{' :: '}' :: r => some (.obj [], r)
  | '{' :: r => (parseMembers r []).map (fun (l, r) => (.obj l, r))
  | _ => none
partial def parseElems (cs : List Char) (acc : List MsgObj.J) : Option (List MsgObj.J × List Char) :=
  match parseTree cs with
  | some (j, ',' :: r) => parseElems r (j :: acc)
  | some (j, ']' :: r) => some ((j :: acc).reverse, r)
  | _ => none
partial def parseMembers (cs : List Char) (acc : List (Str × MsgObj.J)) : Option (List (Str × MsgObj.J) × List Char) :=
  let (h, r) := spanHex cs
  match unhexAux h, r with
  | some k, ':' :: r =>
    match parseTree r with
    | some (j, ',' :: r) => parseMembers r ((k, j) :: acc)
    | some (j, '}' :: r) => some (((k, j) :: acc).reverse, r)
    | _ => none
  | _, _ => none
end

def parseTreeAll (s : String) : Option MsgObj.J :=
  match parseTree s.toList with
  | some (j, []) => some j
  | _ => none

def intText (i : Int) : String := if i < 0 then "-" ++ toString i.natAbs else toString i.natAbs

partial def renderTree : MsgObj.J → String
  | .null => "n"
  | .bool true => "t"
  | .bool false => "f"
  | .num i => "i" ++ intText i
  | .real t => "r" ++ dropS (hx t) 1
  | .str s => "s" ++ dropS (hx s) 1
  | .arr l => "[" ++ ",".intercalate (l.map renderTree) ++ "]"
  | .obj ms => "{" ++ ",".intercalate (ms.map (fun kv => dropS (hx kv.1) 1 ++ ":" ++ renderTree kv.2)) ++ "}"

/-- object-level check of one round trip: `o`/`v`/`w` = the harness's O V W texts.
    * the Go value (read through the Go-field-keyed table) must be well-typed for the regenerated
      schema (else the table and the structs disagree);
    * `toObj2` of it must be exactly the object encoding/json wrote;
    * the Go value that came back must be `norm2` of the one that went in. -/
def objCheck (sname : String) (o v w : String) : Option Bool :=
  if o = "-" && v = "-" then none else
  match parseTreeAll v with
  | none => some false
  | some vj =>
    let m := MsgObj.fromObj2 C17.schemaGo sname vj
    let typed := MsgObj.typed2 C17.schema sname m
    let oOk := renderTree (MsgObj.toObj2 C17.schema sname m) == o
      -- completeness of the type check of Model/Dispatcher: what the real encoder writes for a real value is
      -- accepted by `fits2` (IP texts written by net.IP.MarshalText are valid)
      && (match MsgObj.toObj2 C17.schema sname m with
          | .obj ms => Dispatcher.fits2 (fun _ => true) C17.schema sname ms
          | _ => false)
    let wOk := match parseTreeAll w with
      | none => false
      | some wj => MsgObj.fromObj2 C17.schemaGo sname wj == MsgObj.norm2 C17.schema sname m
    some (typed && oOk && wOk)

def words (s : String) : List String := (s.splitOn " ").filter (· ≠ "")


/-! ### session level: `disp` (the real msg.Dispatcher over a pipe) and `sess` (a live control connection) -/

/-- `net.IP.UnmarshalText` (net.ParseIP → netip.ParseAddr), IPv4 and IPv6: Model/IPText.lean.  Since round 3 the
    whole JSON-tree domain is judged by the model: member names fold as encoding/json folds them (incl. the two
    non-ASCII runes that fold to ASCII letters), `-0` is an integer literal for signed fields only, IPv6 address
    texts are parsed and printed canonically. -/
def canonV {α : Type} (sub : α → α) : MsgObj.ValF α → MsgObj.ValF α
  | .udp (some a) => .udp (some { a with ip := IPText.canon a.ip })
  | .sub a => .sub (sub a)
  | .subs (some l) => .subs (some (l.map sub))
  | v => v

/-- the address a handler holds prints canonically (`MarshalText` of what `UnmarshalText` read) -/
def canon0 (m : MsgObj.Struct0) : MsgObj.Struct0 := m.map (canonV id)
def canon1 (m : MsgObj.Struct1) : MsgObj.Struct1 := m.map (canonV canon0)
def canon2 (m : MsgObj.Struct2) : MsgObj.Struct2 := m.map (canonV canon1)

def sortedKeys : List Str → Bool
  | a :: b :: r => decide (a < b) && sortedKeys (b :: r)
  | _ => true

/-- member names exact and distinct at every level (strictly increasing, ASCII without upper case except the three of
    net.UDPAddr): there the model's VALUE of the message (`fromObj2`, exact lookup) is claimed as well -/
partial def plainTree : MsgObj.J → Bool
  | .arr l => l.all plainTree
  | .obj ms => sortedKeys (ms.map (·.1)) && ms.all (fun kv =>
      (kv.1 == MsgObj.kIP || kv.1 == MsgObj.kPort || kv.1 == MsgObj.kZone || kv.1.all (fun b => decide (b < 128) && !(decide (65 ≤ b) && decide (b ≤ 90))))
      && plainTree kv.2)
  | _ => true

def splitS (s : String) (c : Char) : List String := (s.splitOn (String.singleton c)).filter (· ≠ "")

/-- `T[<hexbody>=<tree>;…]` -/
def parseTreeTable (w : String) : Option (List (Str × Option MsgObj.J)) :=
  if !(startsS w "T[") then none else
  let inner := String.ofList ((w.toList.drop 2).dropLast)
  (splitS inner ';').mapM (fun e =>
    match e.splitOn "=" with
    | [h, t] =>
      match unhexAux h.toList with
      | none => none
      | some b => if t = "?" then some (b, none) else (parseTreeAll t).map (fun j => (b, some j))
    | _ => none)

/-- every body the model may ask the oracle about is in the table (the harness' splitter and the model's
    framing agree on where bodies are) -/
partial def bodiesCovered (tbl : List (Str × Option MsgObj.J)) (inp : Str) : Bool :=
  match (decodeFull maxLen (fun _ => true) inp).res with
  | .ok _ body rest => (tbl.lookup body).isSome && bodiesCovered tbl rest
  | .err _ => true

structure ImplCall where
  id : Nat
  sname : String
  off : Nat
  val : String

/-- `<id>:<Struct>@<off>:<V>` -/
def parseCall (e : String) : Option ImplCall :=
  let cs := e.toList
  let (a, r) := cs.span (· ≠ ':')
  let (b, r) := (r.drop 1).span (· ≠ '@')
  let (c, r) := (r.drop 1).span (· ≠ ':')
  match (String.ofList a).toNat?, (String.ofList c).toNat? with
  | some id, some off => some ⟨id, String.ofList b, off, String.ofList (r.drop 1)⟩
  | _, _ => none

def parseCalls (w : String) : Option (List ImplCall) :=
  if !(startsS w "C[") then none else
  let inner := String.ofList ((w.toList.drop 2).dropLast)
  (splitS inner ';').mapM parseCall

/-- `H<typeByte>:<id>,…` ↦ RegisterHandler ops -/
def parseHandlers (w : String) : Option (List Dispatcher.Op) :=
  if w = "H-" || w = "A-" then some [] else
  (splitS (dropS w 1) ',').mapM (fun e =>
    match e.splitOn ":" with
    | [t, i] =>
      match t.toNat?, i.toNat? with
      | some t, some i => (C17.structOf t).map (fun s => Dispatcher.Op.register s i)
      | _, _ => none
    | _ => none)

def mkOracle (tbl : List (Str × Option MsgObj.J)) : Dispatcher.Oracle :=
  ⟨fun b => (tbl.lookup b).join, IPText.ok⟩

/-- bytes consumed at the moment of each handler call (engine-level recomputation, same `readStep`) -/
partial def callOffsets (o : Dispatcher.Oracle) (hs : List (String × Nat)) (df : Option Nat) (inp : Str) (base : Nat)
    (acc : List Nat) : List Nat :=
  match Dispatcher.readStep C17.env o inp with
  | .msg s _ rest c =>
    callOffsets o hs df rest (base + c) (if (C17.targetOf hs df s).isSome then acc ++ [base + c] else acc)
  | _ => acc

def pingFrame (i : Nat) : Str := encode 104 (Str.ofString ("{\"timestamp\":" ++ toString i ++ "}"))

def hexOf (s : Str) : String := dropS (hx s) 1

/-- the value a handler got = the model's decoding of the body tree (only claimed on plain trees) -/
def valueOk (o : Dispatcher.Oracle) (sname : String) (body : Str) (v : String) : Bool :=
  match o.parse body with
  | some j =>
    if !plainTree j then true else
    match parseTreeAll v with
    | some vj => MsgObj.fromObj2 C17.schemaGo sname vj == canon2 (MsgObj.fromObj2 C17.schema sname j)
    | none => false
  | none => false

def dispStep (tok : List String) (impl : String) : Verdict :=
  match tok with
  | [hspec, dspec, _chunk, endw, nsend, streamx] =>
    match parseHandlers hspec, unhx streamx, nsend.toNat? with
    | some regs, some stream, some nsend =>
      if isPanic impl then .diff "no-panic" (some false) else
      match words impl with
      | [tw, cw, stw, afterw, sw] =>
        match parseTreeTable tw, parseCalls cw with
        | some tbl, some calls =>
          if !(bodiesCovered tbl stream) then .skip "a body the harness' splitter did not see" else
          let o := mkOracle tbl
          let dflt : List Dispatcher.Op := match dspec.toNat? with | some i => [.registerDefault i] | none => []
          let sends : List Dispatcher.Op := (List.range nsend).map (fun i => .send (pingFrame (i + 1)) true)
          let d0 := Dispatcher.run C17.env o {} (regs ++ dflt ++ sends)
          let d1 := Dispatcher.step C17.env o d0 (.recv stream)
          let offs := callOffsets o d0.handlers d0.dflt stream 0 []
          let mstate := if d1.done then "done" else "alive"
          let mafter := if !d1.done && endw = "close" then
              (if (Dispatcher.step C17.env o d1 .peerClose).done then "eofdone" else "eofopen") else "-"
          -- the send side: everything accepted is written, in order, while the session lives; when the read
          -- loop ended first the send loop may have stopped anywhere on a frame boundary
          let full := d1.accepted.flatten
          let implS := dropS sw 1
          let sOk := if d1.done then ((List.range (d1.accepted.length + 1)).any (fun k => hexOf (d1.accepted.take k).flatten == implS)) else hexOf full == implS
          let mS := if sOk then implS else hexOf full
          -- handlers wrapped in msg.AsyncHandler: the calls are a multiset; every delivery of the model must find
          -- a call of its own (same func, same struct, the model's value), the strict ones (plain bodies) first
          let async := startsS hspec "A"
          let strict (x : Dispatcher.Delivery) : Bool := match o.parse x.body with | some j => plainTree j | none => true
          let matchAll : Option (List ImplCall) :=
            ((d1.log.filter strict) ++ (d1.log.filter (fun x => !strict x))).foldl (fun acc x =>
              match acc with
              | none => none
              | some rest =>
                match rest.findIdx? (fun c => c.id == x.handler && c.sname == x.sname && valueOk o x.sname x.body c.val) with
                | some i => some (rest.eraseIdx i)
                | none => none) (some calls)
          let asyncOk := match matchAll with | some [] => true | _ => false
          -- per call: handler, struct, offset from the model; the value echoed when it is the model's
          let mcalls := if async then
              (if asyncOk then calls.map (fun c => s!"{c.id}:{c.sname}@{c.off}:{c.val}")
               else "ASYNC-CALLS-ARE-NOT-THE-DELIVERIES" :: d1.log.map (fun x => s!"{x.handler}:{x.sname}@0:?"))
            else (d1.log.zip offs).zipIdx.map (fun ((x, off), k) =>
            let iv := match calls[k]? with | some c => c.val | none => ""
            let vOk := valueOk o x.sname x.body iv
            s!"{x.handler}:{x.sname}@{off}:" ++ (if vOk then iv else "VALUE-MISMATCH"))
          let model := s!"{tw} C[{";".intercalate mcalls}] {mstate}@{Dispatcher.taken C17.env o d1} {mafter} S{mS}"
          -- the property, on the implementation's own result
          let implState := (stw.splitOn "@").headD ""
          let implOff := ((stw.splitOn "@").getD 1 "").toNat?
          let prop :=
            match implOff with
            | none => false      -- stuck: neither Done nor a further Read
            | some ioff =>
              (implState == "done" || implState == "alive")
              && (if async then
                    C17.dispHoldsOnAsync C17.env o d0.handlers d0.dflt stream
                      ⟨calls.map (fun c => (c.id, c.sname)), implState == "done", ioff⟩ && asyncOk
                  else
                    C17.dispHoldsOn C17.env o d0.handlers d0.dflt stream
                      ⟨calls.map (fun c => (c.id, c.sname)), implState == "done", ioff⟩
                    && calls.map (·.off) == offs
                    && (d1.log.zip calls).all (fun (x, c) => valueOk o x.sname x.body c.val))
              && afterw == mafter && sOk
          verdictOf model impl (some prop)
        | _, _ => .bad "disp result"
      | _ => .bad "disp result"
    | _, _, _ => .bad "disp"
  | _ => .bad "disp"

/-- handlers a frps control connection registers (server/control.go `registerMsgHandlers`); no default handler -/
def serverHandlers : List (String × Nat) :=
  [("NewProxy", 1), ("Ping", 2), ("NatHoleVisitor", 3), ("NatHoleClient", 4), ("NatHoleReport", 5), ("CloseProxy", 6)]

def sessStep (tok : List String) (impl : String) : Verdict :=
  match tok with
  | [prex, postx] =>
    match unhx prex, unhx postx with
    | some pre, some post =>
      match words impl with
      | tw :: restw =>
        match parseTreeTable tw with
        | some tbl =>
          if !(bodiesCovered tbl (pre ++ post)) then .skip "a body the harness' splitter did not see" else
          let o := mkOracle tbl
          let d0 : Dispatcher.Disp := { handlers := serverHandlers }
          let d1 := Dispatcher.step C17.env o d0 (.recv pre)
          if d1.done || !d1.buf.isEmpty then .skip "pre part not made of whole accepted frames" else
          let d2 := Dispatcher.step C17.env o d1 (.recv post)
          -- server/control.go: Ping and NewProxy are handled synchronously on the read loop and answer with exactly
          -- one Pong / NewProxyResp each (whatever the proxy layer makes of the request); CloseProxy and
          -- NatHoleReport answer nothing; the nat-hole exchange (visitor / client) answers after timeouts of its own
          if d2.log.any (fun x => x.handler == 3 || x.handler == 4) then .skip "nat-hole exchange (C20)" else
          let replies (l : List Dispatcher.Delivery) : List String := l.filterMap (fun x =>
            if x.handler == 2 then some "Pong" else if x.handler == 1 then some "NewProxyResp" else none)
          let postLog := d2.log.drop d1.log.length
          if d2.done && !(replies postLog).isEmpty then .skip "replies race with the close" else
          let model := s!"{tw} pre={",".intercalate (replies d1.log)} post={",".intercalate (replies postLog)} {if d2.done then "closed" else "open"} alive"
          let prop := (" ".intercalate restw) == (" ".intercalate ((words model).drop 1))
          verdictOf model impl (some prop)
        | none => .bad "sess result"
      | _ => .bad "sess result"
    | _, _ => .bad "sess"
  | _ => .bad "sess"

/-! ### `nh`: the nat-hole message codec; `lane`: the message transporter -/

def errName : Frame.Err → String
  | .eof => "eof" | .unexpectedEOF => "ueof" | .msgType => "type" | .maxLen => "max" | .negLen => "neg"

def nhStep (tok : List String) (impl : String) : Verdict :=
  match tok with
  | [t, _seed, _key, mode, _arg] =>
    match t.toNat? with
    | none => .bad "nh"
    | some t =>
      if isPanic impl then .diff "no-panic" (some false) else
      match C17.structOf t, words impl with
      | some sname, [pw, tw, oc, eq, ww] =>
        if pw = "P-" then
          -- fewer bytes than an iv: crypto.Decode refuses
          let model := "P- T[] err:short - W-"
          verdictOf model impl (some (impl == model))
        else
        match unhx (dropS pw 1), parseTreeTable tw with
        | some plain, some tbl =>
          if !(bodiesCovered tbl plain) then .skip "a body the harness' splitter did not see" else
          let o := mkOracle tbl
          match Dispatcher.intoStep C17.env o sname plain with
          | .ok body _ _ =>
            let vOk := match o.parse body with
              | some .null => true      -- the receiver's struct is left as it was
              | _ => valueOk o sname body (dropS ww 1)
            let meq := if mode = "same" then "eq" else eq
            let model := s!"{pw} {tw} ok {meq} " ++ (if vOk then ww else "WVALUE-MISMATCH")
            verdictOf model impl (some (oc == "ok" && vOk && (mode != "same" || eq == "eq")))
          | .err er _ =>
            let cls := match er with | some e => errName e | none => "json"
            let model := s!"{pw} {tw} err:{cls} - W-"
            -- round trip: with the right key and untouched data only a body above the bound may fail
            verdictOf model impl (some (oc == "err:" ++ cls && (mode != "same" || cls == "max")))
        | _, _ => .bad "nh result"
      | none, _ => verdictOf "unregistered" impl
      | _, _ => .bad "nh result"
  | _ => .bad "nh"

inductive LaneTok
  | reg (id : Nat) (t : String) (l : Str)
  | disp (t : String) (l : Str) (tag : Nat)
  | cancel (id : Nat)

def parseLaneTok (w : String) : Option LaneTok :=
  match w.toList with
  | 'r' :: r =>
    match (String.ofList r).splitOn ":" with
    | [i, t, l] => do let i ← i.toNat?; let l ← unhx l; pure (.reg i t l)
    | _ => none
  | 'd' :: r =>
    match (String.ofList r).splitOn ":" with
    | [t, l, g] => do let g ← g.toNat?; let l ← unhx l; pure (.disp t l g)
    | _ => none
  | 'c' :: r => (String.ofList r).toNat?.map .cancel
  | _ => none

/-- replay on the model; per step the expected word -/
def laneReplay : Lane.St → List LaneTok → List String → List String
  | _, [], acc => acc.reverse
  | s, .reg i t l :: r, acc => laneReplay (Lane.step s (.doReq i t l)).1 r ("r" :: acc)
  | s, .disp t l g :: r, acc =>
    let (s', out) := Lane.step s (.dispatch t l g)
    let w := match out with
      | .dispatched true (some id) => s!"t>{id}:{g}"
      | _ => "f"
    laneReplay s' r (w :: acc)
  | s, .cancel i :: r, acc =>
    let w := if s.waiting.any (fun x => x.id == i) then "c:ctxerr" else "c:gone"
    laneReplay (Lane.step s (.cancel i)).1 r (w :: acc)

/-- the property on the implementation's own words: whoever received a message had made a Do call for
    exactly the type and lane the message was dispatched with, and nobody received two -/
def laneProp (toks : List LaneTok) (ws : List String) : Bool :=
  let regs := toks.filterMap (fun t => match t with | .reg i t l => some (i, t, l) | _ => none)
  let got := (toks.zip ws).filterMap (fun (t, w) => match t with
    | .disp t l g =>
      if startsS w "t>" then
        match (dropS w 2).splitOn ":" with
        | [i, g'] => some (i.toNat?.getD 0, t, l, g, g')
        | _ => some (0, t, l, g, "?")
      else none
    | _ => none)
  got.all (fun (i, t, l, g, g') => regs.any (fun (i', t', l') => i == i' && t == t' && l == l') && g' == toString g)
    && (got.map (·.1)).eraseDups.length == got.length

def laneStepV (tok : List String) (impl : String) : Verdict :=
  match tok.mapM parseLaneTok with
  | none => .bad "lane"
  | some toks =>
    if isPanic impl then .diff "no-panic" (some false) else
    let model := " ".intercalate (laneReplay {} toks [])
    let ws := words impl
    verdictOf model impl (some (ws.length == toks.length && laneProp toks ws && impl == model))


/-! ### `batch`: every decode entry point, results retained over a whole batch (Props/C17Batch.lean) -/

def chunk7 : List String → Option (List (List String))
  | [] => some []
  | a :: b :: c :: d :: e :: f :: g :: r => (chunk7 r).map (fun l => [a, b, c, d, e, f, g] :: l)
  | _ => none

/-- `p<hex>` -/
def parsePayload (w : String) : Option Str :=
  match w.toList with
  | 'p' :: h => unhexAux h
  | _ => none

/-- a udp packet as the harness dumps it: payload / content and the two addresses, every field raw -/
structure PktW where
  payload : Str
  l : Option UdpPacket.Addr
  r : Option UdpPacket.Addr
  deriving DecidableEq

/-- `n` | `<ip hex>.<port>.<zone hex>` -/
def parseAddrW (w : String) : Option (Option UdpPacket.Addr) :=
  if w = "n" then some none else
  match w.splitOn "." with
  | [ih, pw, zh] =>
    match unhexAux ih.toList, pw.toInt?, unhexAux zh.toList with
    | some ip, some port, some zone => some (some ⟨ip, port, zone⟩)
    | _, _, _ => none
  | _ => none

def renderAddrW : Option UdpPacket.Addr → String
  | none => "n"
  | some a => hexOf a.ip ++ "." ++ intText a.port ++ "." ++ hexOf a.zone

/-- `p<hex>/<local>/<remote>` -/
def parsePktW (w : String) : Option PktW :=
  match w.splitOn "/" with
  | [p, l, r] =>
    match parsePayload p, parseAddrW l, parseAddrW r with
    | some p, some l, some r => some ⟨p, l, r⟩
    | _, _, _ => none
  | _ => none

def renderPktW (k : PktW) : String := "p" ++ hexOf k.payload ++ "/" ++ renderAddrW k.l ++ "/" ++ renderAddrW k.r

/-- what the peer holds according to the model: the packet `udp.NewUDPPacket` builds, over the wire, through
    `udp.GetContent` (Model/UdpPacket.lean, Props/C17Udp.lean `wire`).  `none`: an address outside the IP text law -/
def modelPkt (v : PktW) : Option PktW :=
  (C17.wire (UdpPacket.newUDPPacket v.payload v.l v.r)).bind (fun q =>
    (UdpPacket.getContent q).map (fun c => ⟨c, q.laddr, q.raddr⟩))

/-- the JSON text `json.Marshal(&UDPPacket{Content: c, …})` starts with: `{"c":"<c>"` followed by `,` or `}`;
    an empty content is omitted (omitempty).  base64 text needs no JSON escaping. -/
def udpBodyHasContent (body c : Str) : Bool :=
  let pre : Str := [123, 34, 99, 34, 58, 34]       -- {"c":"
  if c.isEmpty then !(pre.isPrefixOf body) else
  (pre ++ c ++ [34]).isPrefixOf body &&
    (match body.drop (pre.length + c.length + 1) with
     | b :: _ => b == 44 || b == 125
     | [] => false)

/-- one item of a batch: the words echoed when the clause holds, the model's view otherwise -/
def batchItem (entry : String) (ws : List String) : Option (List String × Bool) :=
  match ws with
  | [tw, bw, ow, vw, iw, lw, rw] =>
    match (dropS tw 1).toNat?, unhx (dropS bw 1) with
    | some t, some body =>
      let lw' := if lw = "L=" then "L" ++ dropS iw 1 else lw
      let mframe := encode t body
      let rOk := unhx (dropS rw 1) == some mframe
      let rEcho := if rOk then rw else "R" ++ hx mframe
      if entry = "udp" then
        match parsePktW (dropS vw 1) with
        | none => none
        | some v =>
          let payload := v.payload
          let bOk := t == 117 && udpBodyHasContent body (C17.udpPack payload)
          let imm := parsePktW (dropS iw 1)
          let late := parsePktW (dropS lw' 1)
          -- the model's packet: content AND both addresses, field by field
          let mdl := modelPkt v
          let iOk := mdl.isSome && mdl == imm
          let ok := match imm, late with
            | some i, some l =>
              C17.udpItemHolds payload i.payload l.payload
                && UdpPacket.addrOk v.l && UdpPacket.addrOk v.r
                && C17.udpObsHolds ⟨payload, v.l, v.r, i.payload, i.l, i.r⟩
                && decide (l = i)
            | _, _ => false
          let lOk := ok || !iOk
          some ([tw, if bOk then bw else "BODY-WITHOUT-THE-PACKED-CONTENT", ow, vw,
                 if iOk then iw else (match mdl with | some m => "I" ++ renderPktW m | none => "IADDRESS-OUTSIDE-THE-IP-TEXT-LAW"),
                 if lOk then lw else "LCHANGED-AFTER-LATER-DECODES", rEcho],
                bOk && ok && rOk)
      else
        match C17.structOf t, parseTreeAll (dropS vw 1) with
        | some sname, some vj =>
          let m := MsgObj.fromObj2 C17.schemaGo sname vj
          -- the value dump and the body written for it denote the same object (ties V to B; text level trusted)
          let oOk := renderTree (MsgObj.toObj2 C17.schema sname m) == dropS ow 1
          let imm := (parseTreeAll (dropS iw 1)).map (MsgObj.fromObj2 C17.schemaGo sname)
          let late := (parseTreeAll (dropS lw' 1)).map (MsgObj.fromObj2 C17.schemaGo sname)
          let iOk := imm == some (MsgObj.norm2 C17.schema sname m)
          let ok := match imm, late with
            | some i, some l => C17.itemHolds ⟨t, sname, body, m, i, l, (unhx (dropS rw 1)).getD []⟩
            | _, _ => false
          let lOk := ok || !iOk || !rOk
          some ([tw, bw, if oOk then ow else "OBJECT-LEVEL-MISMATCH", vw,
                 if iOk then iw else "IVALUE-MISMATCH", if lOk then lw else "LCHANGED-AFTER-LATER-DECODES", rEcho],
                oOk && ok && rOk)
        | _, _ => none
    | _, _ => none
  | _ => none

def batchStep (tok : List String) (impl : String) : Verdict :=
  match tok with
  | [entry, _mode, _seed, k] =>
    if isPanic impl then .diff "no-panic" (some false) else
    if impl = "werr" || impl = "stuck" || impl = "badop" then .diff "batch-decoded" (some false) else
    match chunk7 (words impl), k.toNat? with
    | some items, some k =>
      if items.any (fun ws => match ws with
          | [_, bw, _, _, _, _, _] => (bw.length - 2) / 2 > maxLen
          | _ => false) then .skip "a body above the bound (rt's business)" else
      match items.mapM (batchItem entry) with
      | none => .bad "batch item"
      | some rs =>
        let model := " ".intercalate (rs.flatMap (·.1))
        verdictOf model impl (some (items.length == k && rs.all (·.2)))
    | _, _ => .bad "batch result"
  | _ => .bad "batch"

/-! ### `fwd`: the two forwarders on real sockets (Props/C17Udp.lean §3) -/

def chunk2 : List String → Option (List (List String))
  | [] => some []
  | a :: b :: r => (chunk2 r).map (fun l => [a, b] :: l)
  | _ => none

/-- one packet of a forwarder run: (words of the model, claimed?, clause holds?) -/
def fwdItem (side : String) (ws : List String) : Option (List String × Bool × Bool) :=
  match ws with
  | [vw, iw] =>
    if iw = "Ilost" || iw = "Inobind" || iw = "Inosend" then some ([vw, iw], false, true) else
    match parsePktW (dropS vw 1) with
    | none => none
    | some v =>
      match v.r with
      | none =>
        -- a nil remote address: cli only (`Forwarder` keys it "<nil>" and packs the answer with nil)
        let mdl : Option PktW := modelPkt ⟨v.payload, none, none⟩
        let imm := parsePktW (dropS iw 1)
        let ok := match imm with
          | some i => C17.udpObsHolds ⟨v.payload, none, none, i.payload, i.l, i.r⟩
          | none => false
        some ([vw, if mdl.isSome && mdl == imm then iw else "I" ++ (mdl.map renderPktW).getD "?"], true, side == "cli" && ok)
      | some a =>
        -- srv: ForwardUserConn packs the datagram of user `a`; cli: that packet is decoded by frpc, the service echoes
        -- the payload, the Forwarder packs the answer under the remote address the packet carried
        let q1 := C17.wire (UdpPacket.userPacket a v.payload)
        let q := if side == "cli" then q1.bind (fun q => C17.wire (UdpPacket.fwdReply q v.payload)) else q1
        let mdl : Option PktW := q.bind (fun q => (UdpPacket.getContent q).map (fun c => ⟨c, q.laddr, q.raddr⟩))
        let imm := parsePktW (dropS iw 1)
        let ok := match imm with
          | some i => UdpPacket.ipLaw a.ip && C17.udpObsHolds ⟨v.payload, none, some a, i.payload, i.l, i.r⟩
          | none => false
        some ([vw, if mdl.isSome && mdl == imm then iw
                   else (match mdl with | some m => "I" ++ renderPktW m | none => "IADDRESS-OUTSIDE-THE-IP-TEXT-LAW")], true, ok)
  | _ => none

def fwdStep (tok : List String) (impl : String) : Verdict :=
  match tok with
  | [side, _seed, k] =>
    if isPanic impl then .diff "no-panic" (some false) else
    if impl = "nosock" then .skip "no udp socket to be had" else
    if impl = "stuck" || impl = "badop" then .diff "forwarder-ends-with-its-socket" (some false) else
    match chunk2 (words impl), k.toNat? with
    | some items, some k =>
      match items.mapM (fwdItem side) with
      | none => .bad "fwd item"
      | some rs =>
        if rs.all (fun r => !r.2.1) then .skip "no datagram came through (udp may drop)" else
        let model := " ".intercalate (rs.flatMap (·.1))
        verdictOf model impl (some (items.length == k && rs.all (·.2.2)))
    | _, _ => .bad "fwd result"
  | _ => .bad "fwd"

def codecStep0 (st : Unit) (tok : List String) (impl : String) : Unit × Verdict :=
  match tok with
  | ["reset"] => (st, verdictOf "-" impl)
  | ["rd", b, _chunk] =>
    match unhx b with
    | none => (st, .bad "rd")
    | some inp =>
      if isPanic impl then (st, .diff "no-panic" (some (C17.holdsOn maxLen inp panicObs))) else
      match parseObs (words impl) with
      | none => (st, .bad "rd result")
      | some o =>
        let m := C17.modelObs maxLen (jsonOkOf o) inp
        (st, verdictOf (renderObs m) impl (some (C17.holdsOn maxLen inp o)))
  | ["into", b, _chunk] =>
    match unhx b with
    | none => (st, .bad "into")
    | some inp =>
      if isPanic impl then (st, .diff "no-panic" (some false)) else
      match words impl with
      | [oc, c, r] =>
        match c.toNat?, r.toNat? with
        | some c, some r =>
          -- ReadMsgInto: same readMsg, then json.Unmarshal into the caller's struct (`null` leaves
          -- it untouched and is not an error); the type byte only has to be registered
          let d := decodeFull maxLen C17.known inp
          let implJsonErr := oc == "err:json"
          let mo : String := match d.res with
            | .err _ => renderOutcome (C17.modelObs maxLen true inp).out
            | .ok _ _ _ => if implJsonErr then "err:json" else "ok"
          let m := s!"{mo} {d.consumed} {d.bodyAlloc}"
          let s := (C17.structOf (inp.headD 0)).getD "?"
          let o : Option C17.Obs :=
            if oc = "ok" then some ⟨.msg s, c, r⟩ else (codecParseOutcome oc).map (fun x => ⟨x, c, r⟩)
          (st, verdictOf m impl (o.map (C17.holdsOn maxLen inp)))
        | _, _ => (st, .bad "into result")
      | _ => (st, .bad "into result")
  | ["rt", t, _seed, tr] =>
    match t.toNat?, unhx tr with
    | some t, some trailer =>
      if isPanic impl then (st, .diff "no-panic" (some false)) else
      if impl = "werr" then (st, .diff "encodable" (some false)) else
      if !C17.known t then (st, verdictOf "unregistered" impl) else
      match words impl with
      | [b, f, oc, c, r, eq, oo, vv, ww] =>
        match b.toList, f.toList with
        | 'B' :: bh, 'F' :: fh =>
          match unhx (String.ofList bh), unhx (String.ofList fh), parseObs [oc, c, r] with
          | some body, some frame, some o =>
            let mframe := encode t body
            let m := C17.modelObs maxLen (jsonOkOf o) (mframe ++ trailer)
            let meq := match m.out with | .msg _ => "eq" | _ => "-"
            -- object level (bodies within the bound): model toObj vs the real object, model norm vs
            -- the value that came back
            let obj := match C17.structOf t with
              | some sname => objCheck sname (dropS oo 1) (dropS vv 1) (dropS ww 1)
              | none => some false
            let objOk := obj.getD true
            let objs := if objOk then s!"{oo} {vv} {ww}" else "OBJECT-LEVEL-MISMATCH"
            let ms := s!"B{hx body} F{hx mframe} {renderObs m} {meq} {objs}"
            let prop :=
              objOk &&
              frame == mframe                                         -- wire format
              && C17.holdsOn maxLen (frame ++ trailer) o              -- bounded / exact frame / registered
              && (decide (body.length ≤ maxLen) → (o.out == (match C17.structOf t with
                      | some s => C17.Outcome.msg s | none => .panic) && eq == "eq"))  -- lossless
            (st, verdictOf ms impl (some prop))
          | _, _, _ => (st, .bad "rt result")
        | _, _ => (st, .bad "rt result")
      | _ => (st, .bad "rt result")
    | _, _ => (st, .bad "rt")
  | ["gold", b] =>
    -- pinned frame of the released protocol: must be read and written back with the same members
    match unhx b with
    | none => (st, .bad "gold")
    | some inp =>
      match (decodeFull maxLen C17.known inp).res with
      | .ok _ _ [] => (st, verdictOf "same" impl (some (impl == "same")))
      | _ => (st, .diff "golden-frame-not-accepted-by-model" (some false))
  | ["later", b] =>
    -- pkg/msg/handler.go readLoop: any decode error ends the session (server/control.go worker then
    -- closes the connection).  The model speaks only where the stream as sent is decided: walk
    -- over leading well-formed frames; a type / max / negative-length error ⇒ closed; an incomplete
    -- frame (server waits for more) or only whole frames ⇒ not decided here.
    match unhx b with
    | none => (st, .bad "later")
    | some inp =>
      let rec walk (fuel : Nat) (s : Str) : Option Bool :=
        match fuel with
        | 0 => none
        | fuel + 1 =>
          match (decodeFull maxLen C17.known s).res with
          | .ok _ _ rest => walk fuel rest
          | .err .msgType => some true
          | .err .maxLen => some true
          | .err .negLen => some true
          | .err _ => none
      match walk 8 inp with
      | some _ => (st, verdictOf "closed alive" impl (some (impl == "closed alive")))
      | none => (st, .skip "stream not decided by framing alone")
  | "disp" :: rest => (st, dispStep rest impl)
  | "sess" :: rest => (st, sessStep rest impl)
  | "nh" :: rest => (st, nhStep rest impl)
  | "lane" :: rest => (st, laneStepV rest impl)
  | "batch" :: rest => (st, batchStep rest impl)
  | "fwd" :: rest => (st, fwdStep rest impl)
  | ["first", b] =>
    match unhx b with
    | none => (st, .bad "first")
    | some inp =>
      -- bytes the listener's protocol sniffers take for TLS / websocket never reach the codec
      if inp.headD 0 == 22 || inp.headD 0 == 23 || inp.headD 0 == 71 then (st, .skip "sniffed-as-tls-or-http") else
      match (decodeFull maxLen C17.known inp).res with
      | .ok t _ _ =>
        if t == 111 || t == 119 || t == 118 then (st, .skip "login/workconn/visitor: needs the session model")
        else (st, verdictOf "closed alive" impl (some (impl == "closed alive")))
      | .err _ => (st, verdictOf "closed alive" impl (some (impl == "closed alive")))
  | _ => (st, .bad "op")

/-- a child process that could not be brought up / died while decoding: the decoder is total in EVERY process -/
def procFailed (impl : String) : Bool :=
  impl = "procdead" || impl = "noproc" || impl = "noctor" || impl = "nologin"

/-- the bound is a property of the process in every configuration (`C17.proc_limit_constant`): the same ops against a
    frps / a process / a frpc built with the configuration profile; the model does not look at the profile -/
def codecStep (st : Unit) (tok : List String) (impl : String) : Unit × Verdict :=
  match tok with
  | ["pfirst", _profile, b] => codecStep0 st ["first", b] impl
  | "psess" :: _profile :: rest => codecStep0 st ("sess" :: rest) impl
  | ["prd", _profile, _who, b, chunk] =>
    if procFailed impl then (st, .diff "a-decoder-in-that-process" (some false)) else codecStep0 st ["rd", b, chunk] impl
  | ["pinto", _profile, _who, b, chunk] =>
    if procFailed impl then (st, .diff "a-decoder-in-that-process" (some false)) else codecStep0 st ["into", b, chunk] impl
  | ["pcli", _profile, _phase, b] =>
    -- client/service.go login (ReadMsgInto of the LoginResp) / client/control.go (msg.Dispatcher on the control
    -- stream): a frame the decoder refuses ends the login / the session.  Decided by framing alone.
    match unhx b with
    | none => (st, .bad "pcli")
    | some inp =>
      match (decodeFull maxLen C17.known inp).res with
      | .err .msgType | .err .maxLen | .err .negLen => (st, verdictOf "closed" impl (some (impl == "closed")))
      | _ => if procFailed impl then (st, .diff "a-live-frpc" none) else (st, .skip "frame not refused by framing alone")
  | _ => codecStep0 st tok impl

def codec : Engine := { State := Unit, init := (), step := codecStep }

end Engines
end Frp
