import Frp.Driver.Proto
import Frp.Model.Frame
import Frp.Props.C17
/-
  Driver engine "codec": replays the harness trace (real msg.WriteMsg / ReadMsg / ReadMsgInto and
  the first-message handling of a live frps) on the Frame model and evaluates the C17 predicate
  `C17.holdsOn` on the implementation's own results.
-/
namespace Frp
namespace Engines
open Proto Frame

def dropS (s : String) (n : Nat) : String := String.ofList (s.toList.drop n)
def startsS (s p : String) : Bool := p.toList.isPrefixOf s.toList

def codecParseOutcome (s : String) : Option C17.Outcome :=
  if s = "nil" then some .nilMsg
  else if startsS s "msg:" then some (.msg (dropS s 4))
  else if startsS s "err:" then some (.err (dropS s 4))
  else none

def renderOutcome : C17.Outcome → String
  | .msg s => "msg:" ++ s
  | .nilMsg => "nil"
  | .err c => "err:" ++ c
  | .panic => "panic"

def renderObs (o : C17.Obs) : String := s!"{renderOutcome o.out} {o.consumed} {o.bodyReq}"

/-- `<outcome> <consumed> <bodyReq>` -/
def parseObs (ws : List String) : Option C17.Obs :=
  match ws with
  | [o, c, r] => do
    let o ← codecParseOutcome o
    let c ← c.toNat?
    let r ← r.toNat?
    pure ⟨o, c, r⟩
  | _ => none

def isPanic (impl : String) : Bool := startsS impl "PANIC"

def panicObs : C17.Obs := ⟨.panic, 0, 0⟩

/-- encoding/json's verdict is read off the implementation's own outcome (relational oracle) -/
def jsonOkOf (o : C17.Obs) : Bool := o.out != .err "json"

def words (s : String) : List String := (s.splitOn " ").filter (· ≠ "")

def codecStep (st : Unit) (tok : List String) (impl : String) : Unit × Verdict :=
  match tok with
  | ["reset"] => (st, verdictOf "-" impl)
  | ["rd", b, _chunk] =>
    match unhx b with
    | none => (st, .bad "rd")
    | some inp =>
      if isPanic impl then (st, .diff "no-panic" (some (C17.holdsOn maxLen inp panicObs))) else
      match parseObs (words impl) with
      | none => (st, .bad "rd result")
      | some o =>
        let m := C17.modelObs maxLen (jsonOkOf o) inp
        (st, verdictOf (renderObs m) impl (some (C17.holdsOn maxLen inp o)))
  | ["into", b, _chunk] =>
    match unhx b with
    | none => (st, .bad "into")
    | some inp =>
      if isPanic impl then (st, .diff "no-panic" (some false)) else
      match words impl with
      | [oc, c, r] =>
        match c.toNat?, r.toNat? with
        | some c, some r =>
          -- ReadMsgInto: same readMsg, then json.Unmarshal into the caller's struct (`null` leaves
          -- it untouched and is not an error); the type byte only has to be registered
          let d := decodeFull maxLen C17.known inp
          let implJsonErr := oc == "err:json"
          let mo : String := match d.res with
            | .err _ => renderOutcome (C17.modelObs maxLen true inp).out
            | .ok _ _ _ => if implJsonErr then "err:json" else "ok"
          let m := s!"{mo} {d.consumed} {d.bodyAlloc}"
          let s := (C17.structOf (inp.headD 0)).getD "?"
          let o : Option C17.Obs :=
            if oc = "ok" then some ⟨.msg s, c, r⟩ else (codecParseOutcome oc).map (fun x => ⟨x, c, r⟩)
          (st, verdictOf m impl (o.map (C17.holdsOn maxLen inp)))
        | _, _ => (st, .bad "into result")
      | _ => (st, .bad "into result")
  | ["rt", t, _seed, tr] =>
    match t.toNat?, unhx tr with
    | some t, some trailer =>
      if isPanic impl then (st, .diff "no-panic" (some false)) else
      if impl = "werr" then (st, .diff "encodable" (some false)) else
      if !C17.known t then (st, verdictOf "unregistered" impl) else
      match words impl with
      | [b, f, oc, c, r, eq] =>
        match b.toList, f.toList with
        | 'B' :: bh, 'F' :: fh =>
          match unhx (String.ofList bh), unhx (String.ofList fh), parseObs [oc, c, r] with
          | some body, some frame, some o =>
            let mframe := encode t body
            let m := C17.modelObs maxLen (jsonOkOf o) (mframe ++ trailer)
            let meq := match m.out with | .msg _ => "eq" | _ => "-"
            let ms := s!"B{hx body} F{hx mframe} {renderObs m} {meq}"
            let prop :=
              frame == mframe                                         -- wire format
              && C17.holdsOn maxLen (frame ++ trailer) o              -- bounded / exact frame / registered
              && (decide (body.length ≤ maxLen) → (o.out == (match C17.structOf t with
                      | some s => C17.Outcome.msg s | none => .panic) && eq == "eq"))  -- lossless
            (st, verdictOf ms impl (some prop))
          | _, _, _ => (st, .bad "rt result")
        | _, _ => (st, .bad "rt result")
      | _ => (st, .bad "rt result")
    | _, _ => (st, .bad "rt")
  | ["gold", b] =>
    -- pinned frame of the released protocol: must be read and written back with the same members
    match unhx b with
    | none => (st, .bad "gold")
    | some inp =>
      match (decodeFull maxLen C17.known inp).res with
      | .ok _ _ [] => (st, verdictOf "same" impl (some (impl == "same")))
      | _ => (st, .diff "golden-frame-not-accepted-by-model" (some false))
  | ["later", b] =>
    -- pkg/msg/handler.go readLoop: any decode error ends the session (server/control.go worker then
    -- closes the connection).  The model speaks only where the stream as sent is decided: walk
    -- over leading well-formed frames; a type / max / negative-length error ⇒ closed; an incomplete
    -- frame (server waits for more) or only whole frames ⇒ not decided here.
    match unhx b with
    | none => (st, .bad "later")
    | some inp =>
      let rec walk (fuel : Nat) (s : Str) : Option Bool :=
        match fuel with
        | 0 => none
        | fuel + 1 =>
          match (decodeFull maxLen C17.known s).res with
          | .ok _ _ rest => walk fuel rest
          | .err .msgType => some true
          | .err .maxLen => some true
          | .err .negLen => some true
          | .err _ => none
      match walk 8 inp with
      | some _ => (st, verdictOf "closed alive" impl (some (impl == "closed alive")))
      | none => (st, .skip "stream not decided by framing alone")
  | ["first", b] =>
    match unhx b with
    | none => (st, .bad "first")
    | some inp =>
      -- bytes the listener's protocol sniffers take for TLS / websocket never reach the codec
      if inp.headD 0 == 22 || inp.headD 0 == 23 || inp.headD 0 == 71 then (st, .skip "sniffed-as-tls-or-http") else
      match (decodeFull maxLen C17.known inp).res with
      | .ok t _ _ =>
        if t == 111 || t == 119 || t == 118 then (st, .skip "login/workconn/visitor: needs the session model")
        else (st, verdictOf "closed alive" impl (some (impl == "closed alive")))
      | .err _ => (st, verdictOf "closed alive" impl (some (impl == "closed alive")))
  | _ => (st, .bad "op")

def codec : Engine := { State := Unit, init := (), step := codecStep }

end Engines
end Frp
