import Frp.Driver.Proto
import Frp.Model.Frame
import Frp.Props.C17
import Frp.Model.MsgObj
/-
  Driver engine "codec": replays the harness trace (real msg.WriteMsg / ReadMsg / ReadMsgInto and
  the first-message handling of a live frps) on the Frame model and evaluates the C17 predicate
  `C17.holdsOn` on the implementation's own results.
-/
namespace Frp
namespace Engines
open Proto Frame

def dropS (s : String) (n : Nat) : String := String.ofList (s.toList.drop n)
def startsS (s p : String) : Bool := p.toList.isPrefixOf s.toList

def codecParseOutcome (s : String) : Option C17.Outcome :=
  if s = "nil" then some .nilMsg
  else if startsS s "msg:" then some (.msg (dropS s 4))
  else if startsS s "err:" then some (.err (dropS s 4))
  else none

def renderOutcome : C17.Outcome → String
  | .msg s => "msg:" ++ s
  | .nilMsg => "nil"
  | .err c => "err:" ++ c
  | .panic => "panic"

def renderObs (o : C17.Obs) : String := s!"{renderOutcome o.out} {o.consumed} {o.bodyReq}"

/-- `<outcome> <consumed> <bodyReq>` -/
def parseObs (ws : List String) : Option C17.Obs :=
  match ws with
  | [o, c, r] => do
    let o ← codecParseOutcome o
    let c ← c.toNat?
    let r ← r.toNat?
    pure ⟨o, c, r⟩
  | _ => none

def isPanic (impl : String) : Bool := startsS impl "PANIC"

def panicObs : C17.Obs := ⟨.panic, 0, 0⟩

/-- encoding/json's verdict is read off the implementation's own outcome (relational oracle) -/
def jsonOkOf (o : C17.Obs) : Bool := o.out != .err "json"

/-! canonical tree texts of the harness (`codecCanonAny`):
    `n | t | f | i<dec> | s<hex> | [v,…] | {<hexkey>:v,…}` -/

def isHexC (c : Char) : Bool := (hexVal c).isSome

def spanHex (cs : List Char) : List Char × List Char := cs.span isHexC

def parseIntChars (cs : List Char) : Option (Int × List Char) :=
  let (neg, cs) := match cs with | '-' :: r => (true, r) | _ => (false, cs)
  let (ds, rest) := cs.span Char.isDigit
  if ds.isEmpty then none else
  let n : Nat := ds.foldl (fun (a : Nat) c => a * 10 + (c.toNat - 48)) 0
  some (if neg then - (n : Int) else (n : Int), rest)

mutual
partial def parseTree (cs : List Char) : Option (MsgObj.J × List Char) :=
  match cs with
  | 'n' :: r => some (.null, r)
  | 't' :: r => some (.bool true, r)
  | 'f' :: r => some (.bool false, r)
  | 'i' :: r => (parseIntChars r).map (fun (i, r) => (.num i, r))
  | 's' :: r =>
    let (h, r) := spanHex r
    (unhexAux h).map (fun s => (.str s, r))
  | '[' :: ']' :: r => some (.arr [], r)
  | '[' :: r => (parseElems r []).map (fun (l, r) => (.arr l, r))
  | '{' :: '}' :: r => some (.obj [], r)
  | '{' :: r => (parseMembers r []).map (fun (l, r) => (.obj l, r))
  | _ => none
partial def parseElems (cs : List Char) (acc : List MsgObj.J) : Option (List MsgObj.J × List Char) :=
  match parseTree cs with
  | some (j, ',' :: r) => parseElems r (j :: acc)
  | some (j, ']' :: r) => some ((j :: acc).reverse, r)
  | _ => none
partial def parseMembers (cs : List Char) (acc : List (Str × MsgObj.J)) : Option (List (Str × MsgObj.J) × List Char) :=
  let (h, r) := spanHex cs
  match unhexAux h, r with
  | some k, ':' :: r =>
    match parseTree r with
    | some (j, ',' :: r) => parseMembers r ((k, j) :: acc)
    | some (j, '}' :: r) => some (((k, j) :: acc).reverse, r)
    | _ => none
  | _, _ => none
end

def parseTreeAll (s : String) : Option MsgObj.J :=
  match parseTree s.toList with
  | some (j, []) => some j
  | _ => none

def intText (i : Int) : String := if i < 0 then "-" ++ toString i.natAbs else toString i.natAbs

partial def renderTree : MsgObj.J → String
  | .null => "n"
  | .bool true => "t"
  | .bool false => "f"
  | .num i => "i" ++ intText i
  | .str s => "s" ++ dropS (hx s) 1
  | .arr l => "[" ++ ",".intercalate (l.map renderTree) ++ "]"
  | .obj ms => "{" ++ ",".intercalate (ms.map (fun kv => dropS (hx kv.1) 1 ++ ":" ++ renderTree kv.2)) ++ "}"

/-- object-level check of one round trip: `o`/`v`/`w` = the harness's O V W texts.
    * the Go value (read through the Go-field-keyed table) must be well-typed for the regenerated
      schema (else the table and the structs disagree);
    * `toObj2` of it must be exactly the object encoding/json wrote;
    * the Go value that came back must be `norm2` of the one that went in. -/
def objCheck (sname : String) (o v w : String) : Option Bool :=
  if o = "-" && v = "-" then none else
  match parseTreeAll v with
  | none => some false
  | some vj =>
    let m := MsgObj.fromObj2 C17.schemaGo sname vj
    let typed := MsgObj.typed2 C17.schema sname m
    let oOk := renderTree (MsgObj.toObj2 C17.schema sname m) == o
    let wOk := match parseTreeAll w with
      | none => false
      | some wj => MsgObj.fromObj2 C17.schemaGo sname wj == MsgObj.norm2 C17.schema sname m
    some (typed && oOk && wOk)

def words (s : String) : List String := (s.splitOn " ").filter (· ≠ "")

def codecStep (st : Unit) (tok : List String) (impl : String) : Unit × Verdict :=
  match tok with
  | ["reset"] => (st, verdictOf "-" impl)
  | ["rd", b, _chunk] =>
    match unhx b with
    | none => (st, .bad "rd")
    | some inp =>
      if isPanic impl then (st, .diff "no-panic" (some (C17.holdsOn maxLen inp panicObs))) else
      match parseObs (words impl) with
      | none => (st, .bad "rd result")
      | some o =>
        let m := C17.modelObs maxLen (jsonOkOf o) inp
        (st, verdictOf (renderObs m) impl (some (C17.holdsOn maxLen inp o)))
  | ["into", b, _chunk] =>
    match unhx b with
    | none => (st, .bad "into")
    | some inp =>
      if isPanic impl then (st, .diff "no-panic" (some false)) else
      match words impl with
      | [oc, c, r] =>
        match c.toNat?, r.toNat? with
        | some c, some r =>
          -- ReadMsgInto: same readMsg, then json.Unmarshal into the caller's struct (`null` leaves
          -- it untouched and is not an error); the type byte only has to be registered
          let d := decodeFull maxLen C17.known inp
          let implJsonErr := oc == "err:json"
          let mo : String := match d.res with
            | .err _ => renderOutcome (C17.modelObs maxLen true inp).out
            | .ok _ _ _ => if implJsonErr then "err:json" else "ok"
          let m := s!"{mo} {d.consumed} {d.bodyAlloc}"
          let s := (C17.structOf (inp.headD 0)).getD "?"
          let o : Option C17.Obs :=
            if oc = "ok" then some ⟨.msg s, c, r⟩ else (codecParseOutcome oc).map (fun x => ⟨x, c, r⟩)
          (st, verdictOf m impl (o.map (C17.holdsOn maxLen inp)))
        | _, _ => (st, .bad "into result")
      | _ => (st, .bad "into result")
  | ["rt", t, _seed, tr] =>
    match t.toNat?, unhx tr with
    | some t, some trailer =>
      if isPanic impl then (st, .diff "no-panic" (some false)) else
      if impl = "werr" then (st, .diff "encodable" (some false)) else
      if !C17.known t then (st, verdictOf "unregistered" impl) else
      match words impl with
      | [b, f, oc, c, r, eq, oo, vv, ww] =>
        match b.toList, f.toList with
        | 'B' :: bh, 'F' :: fh =>
          match unhx (String.ofList bh), unhx (String.ofList fh), parseObs [oc, c, r] with
          | some body, some frame, some o =>
            let mframe := encode t body
            let m := C17.modelObs maxLen (jsonOkOf o) (mframe ++ trailer)
            let meq := match m.out with | .msg _ => "eq" | _ => "-"
            -- object level (bodies within the bound): model toObj vs the real object, model norm vs
            -- the value that came back
            let obj := match C17.structOf t with
              | some sname => objCheck sname (dropS oo 1) (dropS vv 1) (dropS ww 1)
              | none => some false
            let objOk := obj.getD true
            let objs := if objOk then s!"{oo} {vv} {ww}" else "OBJECT-LEVEL-MISMATCH"
            let ms := s!"B{hx body} F{hx mframe} {renderObs m} {meq} {objs}"
            let prop :=
              objOk &&
              frame == mframe                                         -- wire format
              && C17.holdsOn maxLen (frame ++ trailer) o              -- bounded / exact frame / registered
              && (decide (body.length ≤ maxLen) → (o.out == (match C17.structOf t with
                      | some s => C17.Outcome.msg s | none => .panic) && eq == "eq"))  -- lossless
            (st, verdictOf ms impl (some prop))
          | _, _, _ => (st, .bad "rt result")
        | _, _ => (st, .bad "rt result")
      | _ => (st, .bad "rt result")
    | _, _ => (st, .bad "rt")
  | ["gold", b] =>
    -- pinned frame of the released protocol: must be read and written back with the same members
    match unhx b with
    | none => (st, .bad "gold")
    | some inp =>
      match (decodeFull maxLen C17.known inp).res with
      | .ok _ _ [] => (st, verdictOf "same" impl (some (impl == "same")))
      | _ => (st, .diff "golden-frame-not-accepted-by-model" (some false))
  | ["later", b] =>
    -- pkg/msg/handler.go readLoop: any decode error ends the session (server/control.go worker then
    -- closes the connection).  The model speaks only where the stream as sent is decided: walk
    -- over leading well-formed frames; a type / max / negative-length error ⇒ closed; an incomplete
    -- frame (server waits for more) or only whole frames ⇒ not decided here.
    match unhx b with
    | none => (st, .bad "later")
    | some inp =>
      let rec walk (fuel : Nat) (s : Str) : Option Bool :=
        match fuel with
        | 0 => none
        | fuel + 1 =>
          match (decodeFull maxLen C17.known s).res with
          | .ok _ _ rest => walk fuel rest
          | .err .msgType => some true
          | .err .maxLen => some true
          | .err .negLen => some true
          | .err _ => none
      match walk 8 inp with
      | some _ => (st, verdictOf "closed alive" impl (some (impl == "closed alive")))
      | none => (st, .skip "stream not decided by framing alone")
  | ["first", b] =>
    match unhx b with
    | none => (st, .bad "first")
    | some inp =>
      -- bytes the listener's protocol sniffers take for TLS / websocket never reach the codec
      if inp.headD 0 == 22 || inp.headD 0 == 23 || inp.headD 0 == 71 then (st, .skip "sniffed-as-tls-or-http") else
      match (decodeFull maxLen C17.known inp).res with
      | .ok t _ _ =>
        if t == 111 || t == 119 || t == 118 then (st, .skip "login/workconn/visitor: needs the session model")
        else (st, verdictOf "closed alive" impl (some (impl == "closed alive")))
      | .err _ => (st, verdictOf "closed alive" impl (some (impl == "closed alive")))
  | _ => (st, .bad "op")

def codec : Engine := { State := Unit, init := (), step := codecStep }

end Engines
end Frp
