import Frp.Driver.Proto
import Frp.Model.ClientLogin
/-
  Driver engine "relog" (C12, client half): replays the script of harness/eng_relog.go on the model of frpc's login
  state (`Frp.ClientLogin`, parameter `srcEarly` from the regenerated facts) and evaluates `presentsOK` on the
  run id the REAL client.Service presented in every Login, and on the run id of the work connection it opened for
  every accepted session.
-/
namespace Frp
namespace Engines
namespace RelogEng
open Proto ClientLogin

structure RelogState where
  scripts : List (String × List Resp) := []

def parseItem (it : String) : Option Resp :=
  match it.toList with
  | 'a' :: rest => (unhx (String.ofList rest)).map Resp.accepted
  | ['r'] => some (.refused [])
  | 'R' :: rest => (unhx (String.ofList rest)).map Resp.refused
  | ['x'] => some .ioErr
  | ['g'] => some .ioErr
  | _ => none

def parseScript (s : String) : Option (List Resp) := (s.splitOn ",").mapM parseItem

def parseToks (s : String) : List String := if s = "" then [] else s.splitOn ","

/-- "ids:a,b;work:c,-" (+ ";noconnect") → (ids, work, complete) -/
def parseRes (r : String) : Option (List String × List String × Bool) :=
  match r.splitOn ";" with
  | [i, w] =>
    if i.startsWith "ids:" && w.startsWith "work:" then some (parseToks (i.drop 4).toString, parseToks (w.drop 5).toString, true) else none
  | [i, w, "noconnect"] =>
    if i.startsWith "ids:" && w.startsWith "work:" then some (parseToks (i.drop 4).toString, parseToks (w.drop 5).toString, false) else none
  | _ => none

/-- the run ids the model's client presents, login by login, and the run id of each accepted session -/
def expect (rs : List Resp) : List Str × List Str :=
  let ids := (sent srcEarly {} rs).take rs.length
  let rec go (c : Cl) : List Resp → List Str
    | [] => []
    | r :: rest =>
      let c' := onResp srcEarly c r
      match r with
      | .accepted _ => workRunID srcEarly c r :: go c' rest
      | _ => go c' rest
  (ids, go {} rs)

/-- the property on the implementation's own logins: login i carries the id assigned last before it -/
def idsOK (rs : List Resp) (ids : List String) : Bool :=
  (List.range ids.length).all (fun i =>
    match ids[i]? >>= unhx with
    | some p => presentsOK (lastAssigned [] (rs.take i)) p
    | none => false)

def acceptedIDs : List Resp → List Str
  | [] => []
  | .accepted rid :: rest => rid :: acceptedIDs rest
  | _ :: rest => acceptedIDs rest

def workOK (rs : List Resp) (work : List String) : Bool :=
  (List.range work.length).all (fun i =>
    match work[i]?, (acceptedIDs rs)[i]? with
    | some w, some rid => w == "-" || unhx w == some rid
    | _, _ => false)

def relogStep (st : RelogState) (tok : List String) (impl : String) : RelogState × Verdict :=
  match tok with
  | ["reset"] => ({}, verdictOf "-" impl)
  | ["rlstart", id, script] =>
    match parseScript script with
    | none => (st, .bad "rlstart id items")
    | some rs => ({ st with scripts := (id, rs) :: st.scripts.filter (fun e => e.1 != id) }, verdictOf "ok" impl)
  | ["rlwait", id] =>
    match st.scripts.find? (fun e => e.1 == id) with
    | none => (st, verdictOf "unknown" impl)
    | some (_, rs) =>
      let (eids, ework) := expect rs
      match parseRes impl with
      | none => (st, .diff ("ids:" ++ ",".intercalate (eids.map hx)) none)
      | some (ids, work, complete) =>
        -- a work connection that did not arrive within the harness's bound ("-") is no observation
        let eworkS := (List.range ework.length).map (fun i =>
          if work[i]? == some "-" then "-" else hx (ework.getD i []))
        let model := "ids:" ++ ",".intercalate (eids.map hx) ++ ";work:" ++ ",".intercalate eworkS
        let ok := idsOK rs ids && workOK rs work
        if complete then (st, verdictOf model impl (some ok))
        else (st, .diff model (if ok then none else some false))
  | _ => (st, .bad "unknown op")

def engine : Engine := { State := RelogState, init := {}, step := relogStep }

end RelogEng

def relog : Proto.Engine := RelogEng.engine

end Engines
end Frp
