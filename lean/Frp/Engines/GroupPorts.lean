import Frp.Driver.Proto
import Frp.Props.C13Ports
import Frp.Engines.Ports
/-
  Driver engine "grpports" (C13): replays the harness trace (harness/eng_grpports.go: the real TCPGroupCtl over
  the real ports.Manager, real sockets) on Frp/Model/GroupPorts.lean and evaluates the C13Ports predicates on
  the implementation's own results.  Ports in the model are block-relative + 100 (0 keeps its meaning
  "server-chosen").  Port token: `0`, `<k>`, or `@<name>` = the real port last granted to that name.
-/
namespace Frp
namespace Engines
namespace GroupPortsEng
open Proto Ports GroupPorts

structure GPState where
  s : St := {}
  allowed : List Nat := []
  last : List (String × Nat) := []     -- name ↦ the real port (model numbering) of its last accepted join / take

def parsePort (st : GPState) (t : String) : Option Nat :=
  if t.startsWith "@" then st.last.lookup (t.drop 1).toString
  else (t.toNat?).map (fun k => if k = 0 then 0 else k + 100)

def implPort (t : String) : Option Nat := (t.toNat?).map (· + 100)

def sortNat (l : List Nat) : List Nat := l.mergeSort (fun a b => a ≤ b)

def render (st : GPState) : String :=
  let pm := st.s.pm
  let free := (sortNat pm.free).map (fun p => toString (p - 100))
  let used := (sortNat pm.usedKeys).map (fun p => s!"{p - 100}={Str.toString ((pm.usedBy p).getD [])}")
  let bound := (sortNat (((List.range 10).map (· + 100)).filter st.s.bound)).map (fun p => toString (p - 100))
  s!"free={",".intercalate free};used={",".intercalate used};bound={",".intercalate bound}"

def nums (f : String) : List Nat := (f.splitOn ",").filterMap (fun t => (t.toNat?).map (· + 100))

def usedEntries (f : String) : List (Nat × String) :=
  (f.splitOn ",").filterMap (fun t => match t.splitOn "=" with
    | [k, n] => (k.toNat?).map (fun k => (k + 100, n))
    | _ => none)

def field (s : String) (pre : String) : Option String :=
  if s.startsWith pre then some (s.drop pre.length).toString else none

def implView (st : GPState) (impl : String) : Option Bool :=
  match impl.splitOn ";" with
  | [f, u, b] =>
    match field f "free=", field u "used=", field b "bound=" with
    | some f, some u, some b => some (C13Ports.viewHolds st.allowed st.s (nums f) (usedEntries u) (nums b))
    | _, _, _ => none
  | _ => none

/-- result of a join / take: rendering, bookkeeping of the last granted port, property -/
def finish (st : GPState) (name : String) (s' : St) (res : Except RegErr Nat) (implChoice : Option Nat)
    (impl : String) (prop : Bool) : GPState × Verdict :=
  let ms := match res with
    | .ok p => s!"ok:{p - 100}"
    | .error .listen => (match implChoice with | some p => s!"err:listen:{p - 100}" | none => "err:listen")
    | .error e => s!"err:{portsErrClass e}"
  let last := match res with
    | .ok p => (name, p) :: st.last.filter (fun x => x.1 != name)
    | _ => st.last
  ({ st with s := s', last := last }, verdictOf ms impl (some prop))

def implOkPort (impl : String) : Option Nat :=
  if impl.startsWith "ok:" then implPort (impl.drop 3).toString else none

def implChoiceOf (impl : String) : Option Nat :=
  if impl.startsWith "err:listen:" then implPort (impl.drop 11).toString else implOkPort impl

def errClass (impl : String) : String := ((impl.splitOn ":").getD 1 "")

def step (st : GPState) (tok : List String) (impl : String) : GPState × Verdict :=
  -- an op before any `reset` (the harness has no world): a malformed sequence, not a finding
  if impl = "noworld" then (st, .bad "no reset") else
  match tok with
  | ["reset", ents] =>
    let a := nums ents
    ({ s := St.new a, allowed := a.eraseDups, last := [] }, verdictOf "-" impl)
  | ["join", m, g, key, ptok, grab] =>
    match parsePort st ptok with
    | none => (st, verdictOf "noref" impl)
    | some req =>
      let gi : GInfo := { g := Str.ofString g, key := Str.ofString key, req := req }
      let name := Str.ofString m
      let (s', res) := st.s.join name gi (implChoiceOf impl) (grab = "1")
      let creates := !st.s.isLive name && (st.s.groupOf gi.g).isNone
      let prop : Bool :=
        match implOkPort impl with
        | some p => st.s.isLive name == false &&
            C13Ports.grantHolds st.allowed st.s ((st.s.groupOf gi.g).map (·.port)) req p
        | none => !creates || !impl.startsWith "err:" ||
            C13Ports.refusalHolds st.s name req (grab = "1") (errClass impl)
      finish st m s' res (implChoiceOf impl) impl prop
  | ["take", n, ptok, grab] =>
    match parsePort st ptok with
    | none => (st, verdictOf "noref" impl)
    | some req =>
      let name := Str.ofString n
      let (s', res) := st.s.take name req (implChoiceOf impl) (grab = "1")
      let prop : Bool :=
        match implOkPort impl with
        | some p => st.s.isLive name == false && C13Ports.grantHolds st.allowed st.s none req p
        | none => st.s.isLive name || !impl.startsWith "err:" ||
            C13Ports.refusalHolds st.s name req (grab = "1") (errClass impl)
      finish st n s' res (implChoiceOf impl) impl prop
  | ["close", m] =>
    let name := Str.ofString m
    if st.s.isLive name then ({ st with s := st.s.close name }, verdictOf "-" impl)
    else (st, verdictOf "nomember" impl)
  | ["squat", ptok] =>
    match parsePort st ptok with
    | none => (st, verdictOf "noref" impl)
    | some p =>
      if p = 0 then (st, .bad "squat 0") else
      if st.s.bound p then (st, verdictOf "busy" impl)
      else ({ st with s := st.s.squat p }, verdictOf "ok" impl)
  | ["unsquat", ptok] =>
    match parsePort st ptok with
    | none => (st, verdictOf "noref" impl)
    | some p => ({ st with s := st.s.unsquat p }, verdictOf "-" impl)
  | ["conn", ptok] =>
    match parsePort st ptok with
    | none => (st, verdictOf "noref" impl)
    | some p =>
      let got : Option Str := if impl.startsWith "to:" then some (Str.ofString (impl.drop 3).toString) else none
      let prop := C13Ports.connHolds st.s p got (impl = "squat") (impl = "refused")
      let ms := match st.s.lns.find? (fun l => l.port == p) with
        | some l =>
          let m := match got with
            | some m => if l.members.contains m then m else l.members.headD []
            | none => l.members.headD []
          "to:" ++ Str.toString m
        | none => if st.s.ext.contains p then "squat" else "refused"
      (st, verdictOf ms impl (some prop))
  | ["view"] => (st, verdictOf (render st) impl (implView st impl))
  | _ => (st, .bad "op")

def engine : Engine := { State := GPState, init := {}, step := step }

end GroupPortsEng

def grpports : Proto.Engine := GroupPortsEng.engine

end Engines
end Frp
