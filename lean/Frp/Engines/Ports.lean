import Frp.Driver.Proto
import Frp.Model.Ports
import Frp.Model.AllowPorts
/-
  Driver engine "ports" (C09/C10): replays the harness trace on Frp/Model/Ports.lean.
  Port numbers in the model are relative+100 (relative k of the harness ↦ 100+k), so that 0 keeps its
  meaning "server-chosen".  The allowed set is what the model of the configuration path
  (Frp/Model/AllowPorts.lean: entries → Complete → NewManager seed) makes of the `reset` op's
  allowPorts entries; a port outside the harness' block of 10 is reported as `abs<p>` and mapped to
  1000000+p — outside every allow set.  The `seed` op compares the seed set alone, on absolute ports.  `raw<v>` values (negative, > 65535, 1) are mapped to
  100000+|v| — a port value outside every allow set (the Go code treats them all the same way:
  not in freePorts, not in usedPorts ⇒ ErrPortNotAllowed).
-/
namespace Frp
namespace Engines
open Proto Ports
open ConfNum (PortsRange)

structure PortsState where
  s : Srv := Srv.new [] [] 0
  /-- the operator's allowed set (model ports), as computed by `AllowPorts.seedNat` at `reset` -/
  allowed : List Nat := []
  /-- `true`: the udp forwarder's deferred Close releases the port only under the `!isClosed` guard
      (repaired code); `false`: pinned tree -/
  guarded : Bool := true

/-- allowPorts entries of an op token: `s<n>` (single) / `r<a>-<b>` (range), comma separated; `-` = none.
    `off` is added to every number (100 for block-relative entries, 0 for absolute ones). -/
def portsParseEntries (off : Nat) (t : String) : Option (List PortsRange) :=
  if t = "-" then some []
  else (t.splitOn ",").mapM fun e =>
    if e.startsWith "s" then
      ((e.drop 1).toString.toNat?).map (fun n => ({ start := 0, stop := 0, single := ((n + off : Nat) : Int) } : PortsRange))
    else if e.startsWith "r" then
      match (e.drop 1).toString.splitOn "-" with
      | [a, b] =>
        match a.toNat?, b.toNat? with
        | some a, some b => some { start := ((a + off : Nat) : Int), stop := ((b + off : Nat) : Int), single := 0 }
        | _, _ => none
      | _ => none
    else none

/-- what the configuration path makes of the entries written in textual form (`str`: the
    `--allow_ports` flag, `ini`: legacy `allow_ports = …`): `PortsRangeSlice.String`-style text through
    `NewPortsRangeSliceFromString` (Frp/Model/ConfNum.lean); `none` = the loader reports an error.
    `lit` / `toml` carry the entries as they are. -/
def portsViaForm (form : String) (es : List PortsRange) : Option (List PortsRange) :=
  if form = "str" ∨ form = "ini" then
    if es = [] then some [] else ConfNum.parseRanges (ConfNum.printRanges es)
  else some es

def portsIv (iv : List (Int × Int)) : String :=
  ",".intercalate (iv.map fun (lo, hi) => if lo = hi then toString lo else s!"{lo}-{hi}")

def portsParseIv (f : String) : Option (List (Int × Int)) :=
  if f = "" then some []
  else (f.splitOn ",").mapM fun t =>
    match t.splitOn "-" with
    | [a] => (a.toNat?).map (fun n => ((n : Int), (n : Int)))
    | [a, b] =>
      match a.toNat?, b.toNat? with
      | some a, some b => some ((a : Int), (b : Int))
      | _, _ => none
    | _ => none

def allowedB (a : List PortsRange) (p : Int) : Bool := decide (AllowPorts.allowedBy a p)

/-- the property on the implementation's own seed set, given as maximal intervals: it is exactly the
    union of the operator's entries — nothing outside (every point of every interval is covered by an
    entry) and nothing missing (every port an entry means lies in an interval) -/
def seedHolds (a : List PortsRange) (iv : List (Int × Int)) : Bool :=
  let size := iv.foldl (fun n (lo, hi) => n + (hi + 1 - lo).toNat) 0
  decide (size ≤ 70000) &&
  iv.all (fun (lo, hi) => (AllowPorts.intRange lo hi).all (allowedB a)) &&
  (AllowPorts.seed a).all (fun p => p < 0 || iv.any (fun (lo, hi) => decide (lo ≤ p ∧ p ≤ hi)))

def portsParseProto (t : String) : Option Proto :=
  if t = "tcp" then some .tcp else if t = "udp" then some .udp else none

def portsParseReq (t : String) : Option Nat :=
  if t = "any" then some 0
  else if t.startsWith "raw" then
    let r := (t.drop 3).toString
    match r.toInt? with
    | some v => some (100000 + v.natAbs)
    | none => none
  else if t.startsWith "r" then ((t.drop 1).toString.toNat?).map (· + 100)
  else none

/-- a port in the implementation's answer: `<k>` (block-relative) ↦ 100+k, `abs<p>` ↦ 1000000+p -/
def portsImplPort (t : String) (present : Bool) : Option Nat :=
  if !present then none
  else if t.startsWith "abs" then ((t.drop 3).toString.toNat?).map (· + 1000000)
  else (t.toNat?).map (· + 100)

def portsErrClass : RegErr → String
  | .quota => "quota"
  | .exists_ => "exists"
  | .acquire .alreadyUsed => "used"
  | .acquire .notAllowed => "notallowed"
  | .acquire .unavailable => "unavailable"
  | .acquire .noAvailable => "noavailable"
  | .listen => "listen"
  | .grpPort => "grpport"
  | .grpAuth => "grpauth"

def portsInsertSorted (x : Nat) : List Nat → List Nat
  | [] => [x]
  | y :: ys => if x ≤ y then x :: y :: ys else y :: portsInsertSorted x ys

def portsSortNat (l : List Nat) : List Nat := l.foldr portsInsertSorted []

def renderPM (s : Srv) (pr : Proto) : String :=
  let pm := s.pm pr
  let free := (portsSortNat pm.free).map (fun p => toString (p - 100))
  let used := (portsSortNat pm.usedKeys).map (fun p =>
    s!"{p - 100}={Str.toString ((pm.usedBy p).getD [])}")
  let bound := (portsSortNat ((List.range 10).map (· + 100) |>.filter (fun p => s.bound pr p))).map
    (fun p => toString (p - 100))
  let nm := match pr with | .tcp => "tcp" | .udp => "udp"
  s!"{nm}[free={",".intercalate free};used={",".intercalate used};bound={",".intercalate bound}]"

def renderView (s : Srv) : String := renderPM s .tcp ++ renderPM s .udp

/-- accounting = what is really bound: every used port is held by a live proxy of frp and every
    socket frp holds is accounted as used; free/used partition the allowed set -/
def viewHolds (allowed : List Nat) (s : Srv) : Bool :=
  [Proto.tcp, Proto.udp].all fun pr =>
    let pm := s.pm pr
    allowed.all (fun p =>
      (decide (p ∈ pm.usedKeys) == s.live.any (fun x => x.proto = pr ∧ x.port = p)) &&
      (decide (p ∈ pm.free) != decide (p ∈ pm.usedKeys))) &&
    pm.free.all (· ∈ allowed) && pm.usedKeys.all (· ∈ allowed)

/-- what must hold of a successful registration, judged on the state before it -/
def regHolds (allowed : List Nat) (s : Srv) (sid : Nat) (pr : Proto) (req p : Nat) : Bool :=
  decide (p ∈ allowed) && !s.bound pr p && (s.maxPorts == 0 || decide (s.quotaOf sid + 1 ≤ s.maxPorts)) &&
  (req == 0 || req == p)

/-- the same for a member of tcp group `g`: the reported port is allowed, is the requested one unless
    the server was to choose, and is THE PORT THE GROUP LISTENS ON — a port nobody held if this member
    founds the group, the port of the group's live members otherwise -/
def regGHolds (allowed : List Nat) (s : Srv) (sid : Nat) (g : Str) (req p : Nat) : Bool :=
  decide (p ∈ allowed) && (s.maxPorts == 0 || decide (s.quotaOf sid + 1 ≤ s.maxPorts)) &&
  (req == 0 || req == p) &&
  (match s.groupOf g with
   | none => !s.bound .tcp p
   | some m => m.port == p)

/-- numbers of a comma separated field like "1,2,5" or used entries "2=t1,7=u3" (the part before '=') -/
def portsNums (f : String) : List Nat :=
  (f.splitOn ",").filterMap (fun t =>
    let k := (t.splitOn "=").headD ""
    -- ports outside the block (`out<count>` in a free list, `abs<p>` as a used key) ↦ 999
    if k.startsWith "out" ∨ k.startsWith "abs" then some 999 else k.toNat?)

/-- the three fields of one "proto[free=…;used=…;bound=…]" section -/
def portsSection (v : String) (nm : String) : Option (List Nat × List Nat × List Nat) :=
  match v.splitOn (nm ++ "[") with
  | [_, rest] =>
    match (rest.splitOn "]").headD "" |>.splitOn ";" with
    | [f, u, b] =>
      some (portsNums ((f.splitOn "=").getD 1 ""),
            portsNums (u.drop 5).toString,
            portsNums ((b.splitOn "=").getD 1 ""))
    | _ => none
  | _ => none

/-- property on the implementation's own view: free/used partition the allowed set and the used
    ports are exactly the sockets frp holds (bound minus the foreign sockets) -/
def implViewHolds (allowed : List Nat) (s : Srv) (impl : String) : Option Bool :=
  let one (pr : Proto) (nm : String) : Option Bool :=
    match portsSection impl nm with
    | some (free, used, bound) =>
      let ext := s.ext.filterMap (fun e => if e.1 = pr then some (e.2 - 100) else none)
      let own := bound.filter (fun p => !ext.contains p)
      some (free.all (· < 10) && used.all (· < 10) && (List.range 10).all (fun k =>
        let inAllowed := decide (k + 100 ∈ allowed)
        (decide (k ∈ used) == decide (k ∈ own)) &&
        (if inAllowed then decide (k ∈ free) != decide (k ∈ used) else !(decide (k ∈ free)) && !(decide (k ∈ used)))))
    | none => none
  match one .tcp "tcp", one .udp "udp" with
  | some a, some b => some (a && b)
  | _, _ => none

def portsStep (st : PortsState) (tok : List String) (impl : String) : PortsState × Verdict :=
  match tok with
  | ["reset", m, form, ents] =>
    -- the real server is built by server.NewService from a configuration carrying these entries
    match m.toNat?, (portsParseEntries 100 ents).bind (portsViaForm form) with
    | some m, some es =>
      let s0 := AllowPorts.newService es m
      ({ st with s := s0, allowed := AllowPorts.seedNat (AllowPorts.complete es) }, verdictOf "-" impl)
    | _, _ => (st, .bad "reset")
  | ["seed", form, ents] =>
    match portsParseEntries 0 ents with
    | none => (st, .bad "seed")
    | some es0 =>
      match portsViaForm form es0 with
      | none => (st, verdictOf "err" impl)
      | some es =>
        let ms := portsIv (AllowPorts.intervals ((AllowPorts.seed (AllowPorts.complete es)).filter (0 ≤ ·)))
        let prop : Option Bool :=
          match impl.splitOn ";" with
          | [t, u] =>
            if t.startsWith "tcp=" ∧ u.startsWith "udp=" then
              match portsParseIv (t.drop 4).toString, portsParseIv (u.drop 4).toString with
              | some it, some iu => some (seedHolds es it && seedHolds es iu)
              | _, _ => some false
            else some false
          | _ => if impl = "err" then none else some false
        (st, verdictOf s!"tcp={ms};udp={ms}" impl prop)
  | ["reg", sid, name, proto, req, grab] =>
    match sid.toNat?, portsParseProto proto, portsParseReq req with
    | some sid, some pr, some port =>
      let implOk : Option Nat := portsImplPort (impl.drop 3).toString (impl.startsWith "ok:")
      -- the port the implementation had acquired (reported on success and on a failed listen)
      let implChoice : Option Nat :=
        if impl.startsWith "err:listen:" then portsImplPort (impl.drop 11).toString true else implOk
      let (s', res) := st.s.register sid (Str.ofString name) pr port implChoice (grab = "1")
      let allowed := st.allowed
      let ms := match res with
        | .ok p => s!"ok:{p - 100}"
        | .error .listen =>
          (match implChoice with | some p => s!"err:listen:{p - 100}" | none => "err:listen")
        | .error e => s!"err:{portsErrClass e}"
      -- property on the implementation's own answer
      let prop : Bool :=
        match implOk with
        | some p => regHolds allowed st.s sid pr port p
        | none =>
          -- a "no available port" refusal is legitimate only if the ≤5 random tries could all fail
          if impl = "err:noavailable" then
            (st.s.pm pr).randomMayFail (st.s.avail pr) ||
              -- (reserved port unavailable and then the random tries)
              false
          else true
      ({ st with s := s' }, verdictOf ms impl (some prop))
    | _, _, _ => (st, .bad "reg")
  | ["regg", sid, name, g, key, req, grab] =>
    match sid.toNat?, portsParseReq req with
    | some sid, some port =>
      let implOk : Option Nat := portsImplPort (impl.drop 3).toString (impl.startsWith "ok:")
      let implChoice : Option Nat :=
        if impl.startsWith "err:listen:" then portsImplPort (impl.drop 11).toString true else implOk
      let gi : GInfo := { g := Str.ofString g, key := Str.ofString key, req := port }
      let (s', res) := st.s.registerG sid (Str.ofString name) gi implChoice (grab = "1")
      let ms := match res with
        | .ok p => s!"ok:{p - 100}"
        | .error .listen =>
          (match implChoice with | some p => s!"err:listen:{p - 100}" | none => "err:listen")
        | .error e => s!"err:{portsErrClass e}"
      let prop : Bool :=
        match implOk with
        | some p => regGHolds st.allowed st.s sid gi.g port p
        | none =>
          if impl = "err:noavailable" then
            (st.s.groupOf gi.g).isNone && st.s.tcp.randomMayFail (st.s.avail .tcp)
          else true
      ({ st with s := s' }, verdictOf ms impl (some prop))
    | _, _ => (st, .bad "regg")
  | ["close", sid, name] =>
    match sid.toNat? with
    | some sid => ({ st with s := st.s.close sid (Str.ofString name) }, verdictOf "-" impl)
    | none => (st, .bad "close")
  | ["fwdexit", name] =>
    ({ st with s := Srv.forwarderExit st.guarded st.s (Str.ofString name) }, verdictOf "-" impl)
  | ["squat", proto, k] =>
    match portsParseProto proto, k.toNat? with
    | some pr, some k =>
      let p := k + 100
      if st.s.bound pr p then (st, verdictOf "busy" impl)
      else ({ st with s := st.s.squat pr p }, verdictOf "ok" impl)
    | _, _ => (st, .bad "squat")
  | ["unsquat", proto, k] =>
    match portsParseProto proto, k.toNat? with
    | some pr, some k => ({ st with s := st.s.unsquat pr (k + 100) }, verdictOf "-" impl)
    | _, _ => (st, .bad "unsquat")
  | ["view"] =>
    -- the rendering is compared exactly; the property (accounting = what is really bound) is judged
    -- on the IMPLEMENTATION's rendering, with the harness-controlled foreign sockets taken from `ext`
    let ms := renderView st.s
    (st, verdictOf ms impl (implViewHolds st.allowed st.s impl))
  | _ => (st, .bad "op")

def ports : Engine := { State := PortsState, init := {}, step := portsStep }

end Engines
end Frp
