import Frp.Driver.Proto
import Frp.Model.Ports
/-
  Driver engine "ports" (C09/C10): replays the harness trace on Frp/Model/Ports.lean.
  Port numbers in the model are relative+100 (relative k of the harness ↦ 100+k; allowed = 101..108),
  so that 0 keeps its meaning "server-chosen".  `raw<v>` values (negative, > 65535, 1) are mapped to
  100000+|v| — a port value outside every allow set (the Go code treats them all the same way:
  not in freePorts, not in usedPorts ⇒ ErrPortNotAllowed).
-/
namespace Frp
namespace Engines
open Proto Ports

structure PortsState where
  s : Srv := Srv.new [] [] 0
  /-- `true`: the udp forwarder's deferred Close releases the port only under the `!isClosed` guard
      (repaired code); `false`: pinned tree -/
  guarded : Bool := true

def allowedRel : List Nat := [101, 102, 103, 104, 105, 106, 107, 108]

def portsParseProto (t : String) : Option Proto :=
  if t = "tcp" then some .tcp else if t = "udp" then some .udp else none

def portsParseReq (t : String) : Option Nat :=
  if t = "any" then some 0
  else if t.startsWith "raw" then
    let r := (t.drop 3).toString
    match r.toInt? with
    | some v => some (100000 + v.natAbs)
    | none => none
  else if t.startsWith "r" then ((t.drop 1).toString.toNat?).map (· + 100)
  else none

def portsErrClass : RegErr → String
  | .quota => "quota"
  | .exists_ => "exists"
  | .acquire .alreadyUsed => "used"
  | .acquire .notAllowed => "notallowed"
  | .acquire .unavailable => "unavailable"
  | .acquire .noAvailable => "noavailable"
  | .listen => "listen"

def portsInsertSorted (x : Nat) : List Nat → List Nat
  | [] => [x]
  | y :: ys => if x ≤ y then x :: y :: ys else y :: portsInsertSorted x ys

def portsSortNat (l : List Nat) : List Nat := l.foldr portsInsertSorted []

def renderPM (s : Srv) (pr : Proto) : String :=
  let pm := s.pm pr
  let free := (portsSortNat pm.free).map (fun p => toString (p - 100))
  let used := (portsSortNat pm.usedKeys).map (fun p =>
    s!"{p - 100}={Str.toString ((pm.usedBy p).getD [])}")
  let bound := (portsSortNat ((List.range 10).map (· + 100) |>.filter (fun p => s.bound pr p))).map
    (fun p => toString (p - 100))
  let nm := match pr with | .tcp => "tcp" | .udp => "udp"
  s!"{nm}[free={",".intercalate free};used={",".intercalate used};bound={",".intercalate bound}]"

def renderView (s : Srv) : String := renderPM s .tcp ++ renderPM s .udp

/-- accounting = what is really bound: every used port is held by a live proxy of frp and every
    socket frp holds is accounted as used; free/used partition the allowed set -/
def viewHolds (s : Srv) : Bool :=
  [Proto.tcp, Proto.udp].all fun pr =>
    let pm := s.pm pr
    allowedRel.all (fun p =>
      (decide (p ∈ pm.usedKeys) == s.live.any (fun x => x.proto = pr ∧ x.port = p)) &&
      (decide (p ∈ pm.free) != decide (p ∈ pm.usedKeys))) &&
    pm.free.all (· ∈ allowedRel) && pm.usedKeys.all (· ∈ allowedRel)

/-- what must hold of a successful registration, judged on the state before it -/
def regHolds (s : Srv) (sid : Nat) (pr : Proto) (p : Nat) : Bool :=
  decide (p ∈ allowedRel) && !s.bound pr p && (s.maxPorts == 0 || decide (s.quotaOf sid + 1 ≤ s.maxPorts))

/-- numbers of a comma separated field like "1,2,5" or used entries "2=t1,7=u3" (the part before '=') -/
def portsNums (f : String) : List Nat :=
  (f.splitOn ",").filterMap (fun t => ((t.splitOn "=").headD "").toNat?)

/-- the three fields of one "proto[free=…;used=…;bound=…]" section -/
def portsSection (v : String) (nm : String) : Option (List Nat × List Nat × List Nat) :=
  match v.splitOn (nm ++ "[") with
  | [_, rest] =>
    match (rest.splitOn "]").headD "" |>.splitOn ";" with
    | [f, u, b] =>
      some (portsNums ((f.splitOn "=").getD 1 ""),
            portsNums (u.drop 5).toString,
            portsNums ((b.splitOn "=").getD 1 ""))
    | _ => none
  | _ => none

/-- property on the implementation's own view: free/used partition the allowed set and the used
    ports are exactly the sockets frp holds (bound minus the foreign sockets) -/
def implViewHolds (s : Srv) (impl : String) : Option Bool :=
  let one (pr : Proto) (nm : String) : Option Bool :=
    match portsSection impl nm with
    | some (free, used, bound) =>
      let ext := s.ext.filterMap (fun e => if e.1 = pr then some (e.2 - 100) else none)
      let own := bound.filter (fun p => !ext.contains p)
      some ((List.range 10).all (fun k =>
        let inAllowed := decide (1 ≤ k ∧ k ≤ 8)
        (decide (k ∈ used) == decide (k ∈ own)) &&
        (if inAllowed then decide (k ∈ free) != decide (k ∈ used) else !(decide (k ∈ free)) && !(decide (k ∈ used)))))
    | none => none
  match one .tcp "tcp", one .udp "udp" with
  | some a, some b => some (a && b)
  | _, _ => none

def portsStep (st : PortsState) (tok : List String) (impl : String) : PortsState × Verdict :=
  match tok with
  | ["reset", m] =>
    match m.toNat? with
    | some m => ({ st with s := Srv.new allowedRel allowedRel m }, verdictOf "-" impl)
    | none => (st, .bad "reset")
  | ["reg", sid, name, proto, req, grab] =>
    match sid.toNat?, portsParseProto proto, portsParseReq req with
    | some sid, some pr, some port =>
      let implOk : Option Nat :=
        if impl.startsWith "ok:" then ((impl.drop 3).toString.toNat?).map (· + 100) else none
      -- the port the implementation had acquired (reported on success and on a failed listen)
      let implChoice : Option Nat :=
        if impl.startsWith "err:listen:" then ((impl.drop 11).toString.toNat?).map (· + 100) else implOk
      let (s', res) := st.s.register sid (Str.ofString name) pr port implChoice (grab = "1")
      let ms := match res with
        | .ok p => s!"ok:{p - 100}"
        | .error .listen =>
          (match implChoice with | some p => s!"err:listen:{p - 100}" | none => "err:listen")
        | .error e => s!"err:{portsErrClass e}"
      -- property on the implementation's own answer
      let prop : Bool :=
        match implOk with
        | some p => regHolds st.s sid pr p
        | none =>
          -- a "no available port" refusal is legitimate only if the ≤5 random tries could all fail
          if impl = "err:noavailable" then
            (st.s.pm pr).randomMayFail (st.s.avail pr) ||
              -- (reserved port unavailable and then the random tries)
              false
          else true
      ({ st with s := s' }, verdictOf ms impl (some prop))
    | _, _, _ => (st, .bad "reg")
  | ["close", sid, name] =>
    match sid.toNat? with
    | some sid => ({ st with s := st.s.close sid (Str.ofString name) }, verdictOf "-" impl)
    | none => (st, .bad "close")
  | ["fwdexit", name] =>
    ({ st with s := Srv.forwarderExit st.guarded st.s (Str.ofString name) }, verdictOf "-" impl)
  | ["squat", proto, k] =>
    match portsParseProto proto, k.toNat? with
    | some pr, some k =>
      let p := k + 100
      if st.s.bound pr p then (st, verdictOf "busy" impl)
      else ({ st with s := st.s.squat pr p }, verdictOf "ok" impl)
    | _, _ => (st, .bad "squat")
  | ["unsquat", proto, k] =>
    match portsParseProto proto, k.toNat? with
    | some pr, some k => ({ st with s := st.s.unsquat pr (k + 100) }, verdictOf "-" impl)
    | _, _ => (st, .bad "unsquat")
  | ["view"] =>
    -- the rendering is compared exactly; the property (accounting = what is really bound) is judged
    -- on the IMPLEMENTATION's rendering, with the harness-controlled foreign sockets taken from `ext`
    let ms := renderView st.s
    (st, verdictOf ms impl (implViewHolds st.s impl))
  | _ => (st, .bad "op")

def ports : Engine := { State := PortsState, init := {}, step := portsStep }

end Engines
end Frp
