import Frp.Engines.Router
import Frp.Engines.VReg
import Frp.Engines.HttpAuth
import Frp.Engines.Ports
import Frp.Engines.Release
import Frp.Engines.GrpRel
import Frp.Engines.Udp
import Frp.Engines.Conf
import Frp.Engines.ConfCmd
import Frp.Engines.Nat
import Frp.Engines.NatPunch
import Frp.Engines.NatPx
import Frp.Engines.Wait
import Frp.Engines.Plugin
import Frp.Engines.Client
import Frp.Engines.Codec
import Frp.Engines.Visitor
import Frp.Engines.Wire
import Frp.Engines.Group
import Frp.Engines.GroupPorts
import Frp.Engines.Http
import Frp.Engines.Peer
import Frp.Engines.RegRace
import Frp.Engines.Sess
import Frp.Engines.Relog
import Frp.Engines.Crash
import Frp.Engines.Stack
import Frp.Engines.E2e
import Frp.Engines.Pool
import Frp.Engines.HttpE2e
import Frp.Engines.HttpGrp
import Frp.Engines.Xtcp
import Frp.Engines.Vhs
import Frp.Engines.Vmgr
import Frp.Engines.Svc
import Frp.Engines.Teardown
import Frp.Engines.Xport
import Frp.Engines.CtlReg
import Frp.Engines.Replace
/-! Registry of driver engines (one line per engine). -/
namespace Frp.Engines
open Frp.Proto
def all : List (String × Engine) :=
  [ ("router", router)
  , ("vreg", vreg)
  , ("httpauth", httpauth)
  , ("ports", ports)
  , ("release", release)
  , ("grprel", grprel)
  , ("udp", udp)
  , ("conf", conf)
  , ("confcmd", confcmd)
  , ("nat", nat)
  , ("punch", punch)
  , ("natpx", natpx)
  , ("wait", wait)
  , ("plugin", plugin)
  , ("client", client)
  , ("health", health)
  , ("codec", codec)
  , ("visitor", visitor)
  , ("wire", wire)
  , ("group", group)
  , ("grpports", grpports)
  , ("http", http)
  , ("peer", peer)
  , ("regrace", regrace)
  , ("sess", sess)
  , ("relog", relog)
  , ("crash", crash)
  , ("stack", stack)
  , ("e2e", e2e)
  , ("pool", pool)
  , ("httpe2e", httpe2e)
  , ("httpgrp", httpgrp)
  , ("xtcp", xtcp)
  , ("vhs", vhs)
  , ("vmgr", vmgr)
  , ("svc", svc)
  , ("ctlreg", ctlreg)
  , ("td", td)
  , ("xport", xport)
  , ("xprace", xport)
  , ("replace", replace)
  ]
end Frp.Engines
