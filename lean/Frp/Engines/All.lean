import Frp.Engines.Router
import Frp.Engines.HttpAuth
/-! Registry of driver engines (one line per engine). -/
namespace Frp.Engines
open Frp.Proto
def all : List (String × Engine) :=
  [ ("router", router)
  , ("httpauth", httpauth)
  ]
end Frp.Engines
