import Frp.Engines.Router
/-! Registry of driver engines (one line per engine). -/
namespace Frp.Engines
open Frp.Proto
def all : List (String × Engine) :=
  [ ("router", router)
  ]
end Frp.Engines
