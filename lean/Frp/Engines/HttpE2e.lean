import Frp.Driver.Proto
import Frp.Props.C02
import Frp.Engines.Stack
/-
  Driver engine "httpe2e" (C02, end-to-end leg): oracle for harness/eng_http_e2e.go — a real frps
  (vhost HTTP port) + a real frpc in one process, http proxies over every combination of
  useEncryption × useCompression × bandwidthLimit {none, small / large × server / client mode} and the
  http2http client plugin, each with its own recording backend.

  The model's prediction is `C02.e2e_exchange_transparent`: whatever the options, the backend of the
  proxy named by Host receives method, target and the body bytes as sent (framing kept), and the user
  receives the backend's status and its body bytes, the read ending at the end of the body.
  `C02.e2eHolds` is evaluated on the implementation's own result (bodies as `len.fnv32a`, bodies of at
  most 24 bytes byte for byte).

  Op `hc` (concurrent rounds, harness/eng_http_e2e_conc.go): 2-8 users at once, each on its own connection,
  through the plain path and every client plugin.  The model runs the round's schedule of pooled codec objects
  (`CodecPool.run Gen.CodecFacts.disc` — the recycle sites read from client/proxy/proxy.go —, state carried from round to round): `C02.codec_own_stream` says every Read / Write
  works on its own stream, so every user is predicted to get exactly its own answers; `C02.roundHolds` is
  evaluated on what the users and the backends really saw.
-/
namespace Frp
namespace Engines
open Proto Layers

namespace HttpE2eEng

/-- `<kind>:<pat>.<seed>.<len>.<hash>` ↦ (kind, `len.hash`); "-" ↦ ("-", "-") -/
def parseBody (t : String) : Option (String × String × Nat) :=
  if t = "-" then some ("-", "-", 0)
  else match t.splitOn ":" with
    | [k, tok] => match tok.splitOn "." with
      | [_, _, len, hash] => len.toNat?.map (fun n => (k, len ++ "." ++ hash, n))
      | _ => none
    | _ => none

def optsOf (rest : List String) : Option Opts :=
  match stkBool rest "enc", stkBool rest "comp", stkKV rest "lim" with
  | some e, some c, some l => some { enc := e, comp := c, limSrv := l.startsWith "srv", limCli := l.startsWith "cli" }
  | _, _, _ => none

/-! ### concurrent rounds (op `hc`) -/

structure State where
  pool : CodecPool.St      -- the process-wide snappy pool as the model sees it, carried from round to round
  nextConn : Nat

def State.init : State := { pool := CodecPool.St.init, nextConn := 1 }

structure UserSpec where
  key : String
  kind : String
  o : Opts


/-- `<kind>/<enc>/<comp>/<lim>` -/
def parseUser (t : String) : Option UserSpec :=
  match t.splitOn "/" with
  | [kind, e, c, lim] =>
    if (e = "0" ∨ e = "1") ∧ (c = "0" ∨ c = "1") then
      some { key := t, kind := kind, o := { enc := e = "1", comp := c = "1", limSrv := lim.startsWith "srv", limCli := lim.startsWith "cli" } }
    else none
  | _ => none

def isPlugin (kind : String) : Bool := kind != "plain"
/-- https2http / https2https: an `https` proxy — the user's connection IS the work connection -/
def userIsWork (kind : String) : Bool := kind == "s2h" || kind == "s2s"

/-- the schedule of one round as far as the pooled codec objects are concerned: every user with
    useCompression is one work connection; all are wrapped before any is released (they are alive together),
    `sync.Pool.Get` hands out the most recently recycled object, the plugin path returns right after the wrap
    (client/proxy/proxy.go), every exchange is a Read / Write through the wrapper -/
def roundEvents (first : Nat) (free : List Nat) (x : Nat) (us : List UserSpec) : List CodecPool.Ev :=
  let cs := (List.range us.length).zip us |>.filter (fun p => p.2.o.comp)
  let starts := cs.flatMap fun (i, u) =>
    [CodecPool.Ev.start (first + i) (isPlugin u.kind) (free[i]?)] ++ (if isPlugin u.kind then [CodecPool.Ev.ret (first + i)] else [])
  let ios := (List.range x).flatMap fun _ => cs.map fun (i, _) => CodecPool.Ev.io (first + i)
  let ends := cs.map fun (i, u) => if isPlugin u.kind then CodecPool.Ev.done (first + i) else CodecPool.Ev.ret (first + i)
  starts ++ ios ++ ends

/-- one exchange `<m>,<p>,<up>,<dn>,<st>` of user `u`: the expected result and the observation -/
def exchange (u : UserSpec) (spec : String) (got : String) : Option (String × C02.ConcObs) :=
  match spec.splitOn "," with
  | [m, p, up, dn, stS] =>
    match parseBody up, parseBody dn, stS.toNat? with
    | some (uk, uv, _), some (dk, dv, _), some stW =>
      let ufr := if uk = "-" then "no" else uk
      let want := s!"{u.key},{m},{p},{uv},{ufr},{stW},{u.key},1,{dv},{dk},ok"
      let f := got.splitOn ","
      let g (i : Nat) : String := f.getD i "?"
      let obs : C02.ConcObs :=
        { ex := { beOk := g 0 == u.key, tagOk := g 6 == u.key, lineOk := g 1 == m && g 2 == p,
                  upWant := Str.ofString uv, upGot := Str.ofString (g 3), stWant := stW, st := (g 5).toNat?.getD 0,
                  downWant := Str.ofString dv, downGot := Str.ofString (g 8), ended := g 10 == "ok" },
          echoOk := g 7 == "1" }
      some (want, obs)
    | _, _, _ => none
  | _ => none

def cutEx : String := "-,-,-,-,no,0,-,-,0.0,no,"

def hcStep (st : State) (rest : List String) (impl : String) : State × Verdict :=
  match stkNat rest "n", stkNat rest "x" with
  | some n, some x =>
    match (List.range n).mapM (fun i => (stkKV rest s!"u{i}").bind parseUser) with
    | none => (st, .bad "hc user")
    | some us =>
      -- the pooled codec objects: every Read / Write of the round must work on its own stream
      let evs := roundEvents st.nextConn st.pool.free x us
      let (pool', outs) := CodecPool.run Gen.CodecFacts.disc st.pool evs
      let st' : State := { pool := pool', nextConn := st.nextConn + n }
      let own := CodecPool.ownStream outs && CodecPool.exclusive pool'
      let perUser := (List.range n).zip us |>.mapM fun (i, u) =>
        -- a work connection served by a client plugin's http.Server answers `pluginConnServes` requests
        -- (ConnReader: ONE when a wrapper keeps errors); on an https proxy that connection is the user's own
        let served := if userIsWork u.kind then ConnReader.pluginConnServes u.o x else x
        let got := ((stkRes impl s!"u{i}").getD "").splitOn "+"
        (List.range x).mapM (fun j =>
          if j < served then (stkKV rest s!"e{i}.{j}").bind fun sp => exchange u sp (got.getD j "")
          else
            let w := cutEx ++ (if j = served then "cut" else "skip")
            -- a request that is never answered: the property fails on it whatever came back
            some (w, { ex := { beOk := false, tagOk := false, lineOk := false, upWant := [], upGot := [], stWant := 0, st := 0,
                                downWant := [], downGot := [], ended := false }, echoOk := false }))
      match perUser with
      | none => (st, .bad "hc exchange")
      | some rs =>
        let model := if !own then "codec-shared" else
          ";".intercalate ((List.range n).zip rs |>.map fun (i, r) => s!"u{i}=" ++ "+".intercalate (r.map (·.1)))
        (st', verdictOf model impl (some (C02.roundHolds (rs.map (·.map (·.2))))))
  | _, _ => (st, .bad "hc")

def step (st : State) (tok : List String) (impl : String) : State × Verdict :=
  match tok with
  | ["reset"] => (State.init, verdictOf "-" impl)
  | "hc" :: rest => hcStep st rest impl
  | "hx" :: rest =>
    match optsOf rest, stkKV rest "kind", stkKV rest "lim", stkKV rest "m", stkKV rest "p",
          (stkKV rest "up").bind parseBody, (stkKV rest "dn").bind parseBody, stkNat rest "st" with
    | some o, some kind, some lim, some m, some p, some (uk, uv, _), some (dk, dv, dn), some stW =>
      -- both ends build the same transforming layers (C01.mirror_proxy) — the hypothesis under which
      -- the tunnel theorems apply; it holds for every option combination
      let mirror := transforming (httpRealConnStack o) == transforming (clientStack o)
      let key := s!"{kind}/{stkBit o.enc}/{stkBit o.comp}/{lim}"
      -- framing: the request's is kept; the answer's is kept, a close-delimited one becomes chunked (HTTP/1.1 user),
      -- "no body" is Content-Length: 0
      let ufr := if uk = "-" then "no" else uk
      -- (an answer without body bytes: whether the server says `Content-Length: 0` or sends an empty chunked
      --  body depends on a flush timer inside ReverseProxy / http.Server — echoed, DESIGN §2.4)
      let dfr := if dn = 0 ∧ dk ≠ "-" then (stkRes impl "dfr").getD "?"
                 else if dk = "eof" then "ch" else if dk = "-" then "cl" else dk
      let dvM := if dk = "-" then "0.2166136261" else dv     -- fnv32a of the empty string
      -- short bodies travel in full: the model says "received = sent"
      let small := (match stkRes impl "sent" with | some s => s!";sent={s};got={s}" | none => "") ++
                   (match stkRes impl "rsent" with | some s => s!";rsent={s};rgot={s}" | none => "")
      let model := if !mirror then "stacks-differ" else
        s!"be={key};m={m};t={p};up={uv};ufr={ufr};st={stW};tag={key};down={dvM};dfr={dfr};end=ok{small}"
      let bytesOk : Bool :=
        (match (stkRes impl "sent").bind unhx, (stkRes impl "got").bind unhx with
          | some s, some g => s == g
          | none, none => true
          | _, _ => false) &&
        (match (stkRes impl "rsent").bind unhx, (stkRes impl "rgot").bind unhx with
          | some s, some g => s == g
          | none, none => true
          | _, _ => false)
      let obs : C02.E2eObs :=
        { beOk := stkRes impl "be" == some key, tagOk := stkRes impl "tag" == some key,
          lineOk := stkRes impl "m" == some m && stkRes impl "t" == some p,
          upWant := Str.ofString uv, upGot := Str.ofString ((stkRes impl "up").getD "?"),
          stWant := stW, st := (stkResNat impl "st").getD 0,
          downWant := Str.ofString dvM, downGot := Str.ofString ((stkRes impl "down").getD "?"),
          ended := stkRes impl "end" == some "ok" }
      (st, verdictOf model impl (some (C02.e2eHolds obs && bytesOk)))
    | _, _, _, _, _, _, _, _ => (st, .bad "hx")
  | _ => (st, .bad "unknown op")

end HttpE2eEng

def httpe2e : Engine := { State := HttpE2eEng.State, init := HttpE2eEng.State.init, step := HttpE2eEng.step }

end Engines
end Frp
