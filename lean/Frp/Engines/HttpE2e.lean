import Frp.Driver.Proto
import Frp.Props.C02
import Frp.Engines.Stack
/-
  Driver engine "httpe2e" (C02, end-to-end leg): oracle for harness/eng_http_e2e.go — a real frps
  (vhost HTTP port) + a real frpc in one process, http proxies over every combination of
  useEncryption × useCompression × bandwidthLimit {none, small / large × server / client mode} and the
  http2http client plugin, each with its own recording backend.

  The model's prediction is `C02.e2e_exchange_transparent`: whatever the options, the backend of the
  proxy named by Host receives method, target and the body bytes as sent (framing kept), and the user
  receives the backend's status and its body bytes, the read ending at the end of the body.
  `C02.e2eHolds` is evaluated on the implementation's own result (bodies as `len.fnv32a`, bodies of at
  most 24 bytes byte for byte).

  Op `hc` (concurrent rounds, harness/eng_http_e2e_conc.go): 2-8 users at once, each on its own connection,
  through the plain path and every client plugin.  The model runs the round's schedule of pooled codec objects
  (`CodecPool.run Gen.CodecFacts.disc` — the recycle sites read from client/proxy/proxy.go —, state carried from round to round): `C02.codec_own_stream` says every Read / Write
  works on its own stream, so every user is predicted to get exactly its own answers; `C02.roundHolds` is
  evaluated on what the users and the backends really saw.

  Ops `hf` / `hl` (harness/eng_http_e2e_fault.go): a sender dies in the middle of a body (backend, user, or the work
  connection) — the message is replayed on `HttpAbort.chain` over the relaying hops of the proxy kind and
  `C02.abortHolds` is evaluated on what the final reader got; rounds of up to 24 exchanges held open plus one more
  request — predicted from `ConnLimit.pathForwards` over the regenerated Transport literals, `C02.longHolds`.
-/
namespace Frp
namespace Engines
open Proto Layers

namespace HttpE2eEng

/-- `<kind>:<pat>.<seed>.<len>.<hash>` ↦ (kind, `len.hash`); "-" ↦ ("-", "-") -/
def parseBody (t : String) : Option (String × String × Nat) :=
  if t = "-" then some ("-", "-", 0)
  else match t.splitOn ":" with
    | [k, tok] => match tok.splitOn "." with
      | [_, _, len, hash] => len.toNat?.map (fun n => (k, len ++ "." ++ hash, n))
      | _ => none
    | _ => none

def optsOf (rest : List String) : Option Opts :=
  match stkBool rest "enc", stkBool rest "comp", stkKV rest "lim" with
  | some e, some c, some l => some { enc := e, comp := c, limSrv := l.startsWith "srv", limCli := l.startsWith "cli" }
  | _, _, _ => none

/-! ### concurrent rounds (op `hc`) -/

structure State where
  pool : CodecPool.St      -- the process-wide snappy pool as the model sees it, carried from round to round
  nextConn : Nat

def State.init : State := { pool := CodecPool.St.init, nextConn := 1 }

structure UserSpec where
  key : String
  kind : String
  o : Opts


/-- `<kind>/<enc>/<comp>/<lim>` -/
def parseUser (t : String) : Option UserSpec :=
  match t.splitOn "/" with
  | [kind, e, c, lim] =>
    if (e = "0" ∨ e = "1") ∧ (c = "0" ∨ c = "1") then
      some { key := t, kind := kind, o := { enc := e = "1", comp := c = "1", limSrv := lim.startsWith "srv", limCli := lim.startsWith "cli" } }
    else none
  | _ => none

def isPlugin (kind : String) : Bool := kind != "plain"
/-- https2http / https2https: an `https` proxy — the user's connection IS the work connection -/
def userIsWork (kind : String) : Bool := kind == "s2h" || kind == "s2s"

/-- the schedule of one round as far as the pooled codec objects are concerned: every user with
    useCompression is one work connection; all are wrapped before any is released (they are alive together),
    `sync.Pool.Get` hands out the most recently recycled object, the plugin path returns right after the wrap
    (client/proxy/proxy.go), every exchange is a Read / Write through the wrapper -/
def roundEvents (first : Nat) (free : List Nat) (x : Nat) (us : List UserSpec) : List CodecPool.Ev :=
  let cs := (List.range us.length).zip us |>.filter (fun p => p.2.o.comp)
  let starts := cs.flatMap fun (i, u) =>
    [CodecPool.Ev.start (first + i) (isPlugin u.kind) (free[i]?)] ++ (if isPlugin u.kind then [CodecPool.Ev.ret (first + i)] else [])
  let ios := (List.range x).flatMap fun _ => cs.map fun (i, _) => CodecPool.Ev.io (first + i)
  let ends := cs.map fun (i, u) => if isPlugin u.kind then CodecPool.Ev.done (first + i) else CodecPool.Ev.ret (first + i)
  starts ++ ios ++ ends

/-- one exchange `<m>,<p>,<up>,<dn>,<st>` of user `u`: the expected result and the observation -/
def exchange (u : UserSpec) (spec : String) (got : String) : Option (String × C02.ConcObs) :=
  match spec.splitOn "," with
  | [m, p, up, dn, stS] =>
    match parseBody up, parseBody dn, stS.toNat? with
    | some (uk, uv, _), some (dk, dv, _), some stW =>
      let ufr := if uk = "-" then "no" else uk
      let want := s!"{u.key},{m},{p},{uv},{ufr},{stW},{u.key},1,{dv},{dk},ok"
      let f := got.splitOn ","
      let g (i : Nat) : String := f.getD i "?"
      let obs : C02.ConcObs :=
        { ex := { beOk := g 0 == u.key, tagOk := g 6 == u.key, lineOk := g 1 == m && g 2 == p,
                  upWant := Str.ofString uv, upGot := Str.ofString (g 3), stWant := stW, st := (g 5).toNat?.getD 0,
                  downWant := Str.ofString dv, downGot := Str.ofString (g 8), ended := g 10 == "ok" },
          echoOk := g 7 == "1" }
      some (want, obs)
    | _, _, _ => none
  | _ => none

def cutEx : String := "-,-,-,-,no,0,-,-,0.0,no,"

def hcStep (st : State) (rest : List String) (impl : String) : State × Verdict :=
  match stkNat rest "n", stkNat rest "x" with
  | some n, some x =>
    match (List.range n).mapM (fun i => (stkKV rest s!"u{i}").bind parseUser) with
    | none => (st, .bad "hc user")
    | some us =>
      -- the pooled codec objects: every Read / Write of the round must work on its own stream
      let evs := roundEvents st.nextConn st.pool.free x us
      let (pool', outs) := CodecPool.run Gen.CodecFacts.disc st.pool evs
      let st' : State := { pool := pool', nextConn := st.nextConn + n }
      let own := CodecPool.ownStream outs && CodecPool.exclusive pool'
      let perUser := (List.range n).zip us |>.mapM fun (i, u) =>
        -- a work connection served by a client plugin's http.Server answers `pluginConnServes` requests
        -- (ConnReader: ONE when a wrapper keeps errors); on an https proxy that connection is the user's own
        let served := if userIsWork u.kind then ConnReader.pluginConnServes u.o x else x
        let got := ((stkRes impl s!"u{i}").getD "").splitOn "+"
        (List.range x).mapM (fun j =>
          if j < served then (stkKV rest s!"e{i}.{j}").bind fun sp => exchange u sp (got.getD j "")
          else
            let w := cutEx ++ (if j = served then "cut" else "skip")
            -- a request that is never answered: the property fails on it whatever came back
            some (w, { ex := { beOk := false, tagOk := false, lineOk := false, upWant := [], upGot := [], stWant := 0, st := 0,
                                downWant := [], downGot := [], ended := false }, echoOk := false }))
      match perUser with
      | none => (st, .bad "hc exchange")
      | some rs =>
        let model := if !own then "codec-shared" else
          ";".intercalate ((List.range n).zip rs |>.map fun (i, r) => s!"u{i}=" ++ "+".intercalate (r.map (·.1)))
        (st', verdictOf model impl (some (C02.roundHolds (rs.map (·.map (·.2))))))
  | _, _ => (st, .bad "hc")

/-! ### faults in the middle of an exchange (op `hf`) and rounds of long-lived exchanges (op `hl`)
    harness/eng_http_e2e_fault.go -/

def framingOf (k : String) : Option HttpAbort.Framing :=
  if k = "cl" then some .cl else if k = "ch" then some .ch else if k = "eof" then some .eof else none

def parseFault (t : String) : Option (Char × Nat) :=
  match t.toList with
  | c :: rest => (String.ofList rest).toNat?.map (fun n => (c, n))
  | [] => none

/-- frp's own answer to a backend failure (no backend tag): frps' not-found page / 504, the plugins' 502 -/
def isErrStatus (st : Nat) : Bool := st == 404 || st == 502 || st == 504

def hfStep (st : State) (rest : List String) (impl : String) : State × Verdict :=
  match (stkKV rest "key").bind parseUser, (stkKV rest "up").bind parseBody, (stkKV rest "dn").bind parseBody,
        stkNat rest "st", (stkKV rest "fault").bind parseFault with
  | some u, some (uk, _, ulen), some (dk, _, dlen), some stW, some (fc, fk) =>
    let plugin := isPlugin u.kind
    let vhost := ConnLimit.viaVhostProxy u.kind          -- does frps' ReverseProxy relay the exchange (http proxies)?
    let res (k : String) : String := (stkRes impl k).getD "?"
    let nat (k : String) : Nat := (stkResNat impl k).getD 0
    let reached := res "be" == u.key
    let stI := nat "st"
    let endI := res "end"
    let upWhole := res "uw" == "1"
    if fc = 'd' ∨ fc = 'w' then
      match framingOf dk with
      | none => (st, .bad "hf: answer framing")
      | some fr =>
        let k := min fk dlen
        let nI := nat "n"
        let snd : HttpAbort.Sent := { fr := fr, total := dlen, k := k, died := true }
        -- the hops between the sender that died and the user; what a hop had not yet passed on when it aborted is
        -- taken from the implementation's result (all of it booked on the last hop)
        let lost := k - nI
        -- `w`: the work connection dies — behind a plugin it is the plugin's (re-framed) message that is cut
        let s0 : HttpAbort.Sent := if fc = 'w' ∧ plugin then { (HttpAbort.hop C02.frpEnv snd 0) with died := true } else snd
        let hops : List (HttpAbort.Env × Nat) :=
          (if fc = 'd' ∧ plugin then [(C02.frpEnv, if vhost then 0 else lost)] else []) ++ (if vhost then [(C02.frpEnv, lost)] else [])
        let s1 := HttpAbort.chain hops s0
        let uM := HttpAbort.readOf (if hops.isEmpty then { s1 with k := s1.k - lost } else s1)
        -- close-delimited all the way to the point of death: the death cannot be told from the end (no demand on `end`)
        let eofFree := fc = 'w' ∧ s0.fr = .eof
        let errAnswer := res "tag" == "-" && isErrStatus stI && endI == "ok"
        let ended := endI == "ok"
        let faithful := if eofFree then decide (nI ≤ k) && res "pre" == "1"
          -- (relative to the sender whose death the readers can see: behind a plugin a killed work connection cuts the
          --  plugin's re-framed message — a close-delimited backend answer travels chunked there)
          else C02.abortHolds { fr := s0.fr, total := s0.total, k := s0.k, died := true, n := nI, ended := ended, prefixOk := res "pre" == "1" }
        let own := res "tag" == u.key && (stI == stW || (stI == 0 && !ended)) && faithful
        let prop := reached && upWhole && res "upre" == "1" && endI != "timeout" && (errAnswer || own || (stI == 0 && !ended && nI == 0))
        let agrees := reached && (errAnswer || eofFree || (ended == uM.ended && nI == uM.n))
        let model := if agrees then impl else s!"be={u.key};…;n={uM.n};end={if uM.ended then "ok" else "cut"}"
        (st, verdictOf model impl (some prop))
    else if fc = 'q' then
      -- the backend died before answering: an error answer of frp's own or a cut connection, never a hang, never
      -- an answer in the backend's name
      let prop := reached && res "tag" == "-" && endI != "timeout" && (stI == 0 || isErrStatus stI) && decide (nat "up" ≤ fk)
      (st, verdictOf (if prop then impl else s!"be={u.key};…;tag=-;st=404|502|cut") impl (some prop))
    else
      match framingOf uk with
      | none => (st, .bad "hf: request framing")
      | some fr =>
        if res "be" == "-" then (st, verdictOf impl impl (some true))     -- the user left before anything was forwarded
        else
          let k := min fk ulen
          let upI := nat "up"
          let snd : HttpAbort.Sent := { fr := fr, total := ulen, k := k, died := true }
          let uM := HttpAbort.readOf (HttpAbort.chainUp ((if plugin then [0] else []) ++ (if vhost then [k - upI] else [])) snd)
          let prop := reached && C02.abortHolds { fr := fr, total := ulen, k := k, died := true, n := upI, ended := upWhole,
                                                   prefixOk := res "upre" == "1" }
          let model := if upWhole == uM.ended then impl else s!"be={u.key};…;uw={stkBit uM.ended}"
          (st, verdictOf model impl (some prop))
  | _, _, _, _, _ => (st, .bad "hf")

def hlStep (st : State) (rest : List String) (impl : String) : State × Verdict :=
  match (stkKV rest "key").bind parseUser, stkNat rest "n" with
  | some u, some n =>
    -- the Transports on the path of this proxy kind (regenerated literals): with k exchanges open, is the next forwarded?
    let path := ConnLimit.pathOf Gen.HttpFacts.transports u.kind
    let allOpen := (List.range n).all (fun k => ConnLimit.pathForwards path k)
    let probeFwd := ConnLimit.pathForwards path n
    let model := if allOpen ∧ probeFwd then s!"open={n};probe=ok;fin={n};bad=0"
                 else s!"capped: open<{n} or probe=timeout"
    let prop := C02.longHolds n ((stkResNat impl "open").getD 0) (stkRes impl "probe" == some "ok") ((stkResNat impl "fin").getD 0) &&
                stkRes impl "bad" == some "0"
    (st, verdictOf model impl (some prop))
  | _, _ => (st, .bad "hl")

def step (st : State) (tok : List String) (impl : String) : State × Verdict :=
  match tok with
  | "hf" :: rest => hfStep st rest impl
  | "hl" :: rest => hlStep st rest impl
  | ["reset"] => (State.init, verdictOf "-" impl)
  | "hc" :: rest => hcStep st rest impl
  | "hx" :: rest =>
    match optsOf rest, stkKV rest "kind", stkKV rest "lim", stkKV rest "m", stkKV rest "p",
          (stkKV rest "up").bind parseBody, (stkKV rest "dn").bind parseBody, stkNat rest "st" with
    | some o, some kind, some lim, some m, some p, some (uk, uv, _), some (dk, dv, dn), some stW =>
      -- both ends build the same transforming layers (C01.mirror_proxy) — the hypothesis under which
      -- the tunnel theorems apply; it holds for every option combination
      let mirror := transforming (httpRealConnStack o) == transforming (clientStack o)
      let key := s!"{kind}/{stkBit o.enc}/{stkBit o.comp}/{lim}"
      -- framing: the request's is kept; the answer's is kept, a close-delimited one becomes chunked (HTTP/1.1 user),
      -- "no body" is Content-Length: 0
      let ufr := if uk = "-" then "no" else uk
      -- (an answer without body bytes: whether the server says `Content-Length: 0` or sends an empty chunked
      --  body depends on a flush timer inside ReverseProxy / http.Server — echoed, DESIGN §2.4)
      let dfr := if dn = 0 ∧ dk ≠ "-" then (stkRes impl "dfr").getD "?"
                 else if dk = "eof" then "ch" else if dk = "-" then "cl" else dk
      let dvM := if dk = "-" then "0.2166136261" else dv     -- fnv32a of the empty string
      -- short bodies travel in full: the model says "received = sent"
      let small := (match stkRes impl "sent" with | some s => s!";sent={s};got={s}" | none => "") ++
                   (match stkRes impl "rsent" with | some s => s!";rsent={s};rgot={s}" | none => "")
      let model := if !mirror then "stacks-differ" else
        s!"be={key};m={m};t={p};up={uv};ufr={ufr};st={stW};tag={key};down={dvM};dfr={dfr};end=ok{small}"
      let bytesOk : Bool :=
        (match (stkRes impl "sent").bind unhx, (stkRes impl "got").bind unhx with
          | some s, some g => s == g
          | none, none => true
          | _, _ => false) &&
        (match (stkRes impl "rsent").bind unhx, (stkRes impl "rgot").bind unhx with
          | some s, some g => s == g
          | none, none => true
          | _, _ => false)
      let obs : C02.E2eObs :=
        { beOk := stkRes impl "be" == some key, tagOk := stkRes impl "tag" == some key,
          lineOk := stkRes impl "m" == some m && stkRes impl "t" == some p,
          upWant := Str.ofString uv, upGot := Str.ofString ((stkRes impl "up").getD "?"),
          stWant := stW, st := (stkResNat impl "st").getD 0,
          downWant := Str.ofString dvM, downGot := Str.ofString ((stkRes impl "down").getD "?"),
          ended := stkRes impl "end" == some "ok" }
      (st, verdictOf model impl (some (C02.e2eHolds obs && bytesOk)))
    | _, _, _, _, _, _, _, _ => (st, .bad "hx")
  | _ => (st, .bad "unknown op")

end HttpE2eEng

def httpe2e : Engine := { State := HttpE2eEng.State, init := HttpE2eEng.State.init, step := HttpE2eEng.step }

end Engines
end Frp
