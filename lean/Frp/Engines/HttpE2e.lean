import Frp.Driver.Proto
import Frp.Props.C02
import Frp.Engines.Stack
/-
  Driver engine "httpe2e" (C02, end-to-end leg): oracle for harness/eng_http_e2e.go — a real frps
  (vhost HTTP port) + a real frpc in one process, http proxies over every combination of
  useEncryption × useCompression × bandwidthLimit {none, small / large × server / client mode} and the
  http2http client plugin, each with its own recording backend.

  The model's prediction is `C02.e2e_exchange_transparent`: whatever the options, the backend of the
  proxy named by Host receives method, target and the body bytes as sent (framing kept), and the user
  receives the backend's status and its body bytes, the read ending at the end of the body.
  `C02.e2eHolds` is evaluated on the implementation's own result (bodies as `len.fnv32a`, bodies of at
  most 24 bytes byte for byte).
-/
namespace Frp
namespace Engines
open Proto Layers

namespace HttpE2eEng

/-- `<kind>:<pat>.<seed>.<len>.<hash>` ↦ (kind, `len.hash`); "-" ↦ ("-", "-") -/
def parseBody (t : String) : Option (String × String × Nat) :=
  if t = "-" then some ("-", "-", 0)
  else match t.splitOn ":" with
    | [k, tok] => match tok.splitOn "." with
      | [_, _, len, hash] => len.toNat?.map (fun n => (k, len ++ "." ++ hash, n))
      | _ => none
    | _ => none

def optsOf (rest : List String) : Option Opts :=
  match stkBool rest "enc", stkBool rest "comp", stkKV rest "lim" with
  | some e, some c, some l => some { enc := e, comp := c, limSrv := l.startsWith "srv", limCli := l.startsWith "cli" }
  | _, _, _ => none

def step (st : Unit) (tok : List String) (impl : String) : Unit × Verdict :=
  match tok with
  | ["reset"] => (st, verdictOf "-" impl)
  | "hx" :: rest =>
    match optsOf rest, stkKV rest "kind", stkKV rest "lim", stkKV rest "m", stkKV rest "p",
          (stkKV rest "up").bind parseBody, (stkKV rest "dn").bind parseBody, stkNat rest "st" with
    | some o, some kind, some lim, some m, some p, some (uk, uv, _), some (dk, dv, dn), some stW =>
      -- both ends build the same transforming layers (C01.mirror_proxy) — the hypothesis under which
      -- the tunnel theorems apply; it holds for every option combination
      let mirror := transforming (httpRealConnStack o) == transforming (clientStack o)
      let key := s!"{kind}/{stkBit o.enc}/{stkBit o.comp}/{lim}"
      -- framing: the request's is kept; the answer's is kept, a close-delimited one becomes chunked (HTTP/1.1 user),
      -- "no body" is Content-Length: 0
      let ufr := if uk = "-" then "no" else uk
      -- (an answer without body bytes: whether the server says `Content-Length: 0` or sends an empty chunked
      --  body depends on a flush timer inside ReverseProxy / http.Server — echoed, DESIGN §2.4)
      let dfr := if dn = 0 ∧ dk ≠ "-" then (stkRes impl "dfr").getD "?"
                 else if dk = "eof" then "ch" else if dk = "-" then "cl" else dk
      let dvM := if dk = "-" then "0.2166136261" else dv     -- fnv32a of the empty string
      -- short bodies travel in full: the model says "received = sent"
      let small := (match stkRes impl "sent" with | some s => s!";sent={s};got={s}" | none => "") ++
                   (match stkRes impl "rsent" with | some s => s!";rsent={s};rgot={s}" | none => "")
      let model := if !mirror then "stacks-differ" else
        s!"be={key};m={m};t={p};up={uv};ufr={ufr};st={stW};tag={key};down={dvM};dfr={dfr};end=ok{small}"
      let bytesOk : Bool :=
        (match (stkRes impl "sent").bind unhx, (stkRes impl "got").bind unhx with
          | some s, some g => s == g
          | none, none => true
          | _, _ => false) &&
        (match (stkRes impl "rsent").bind unhx, (stkRes impl "rgot").bind unhx with
          | some s, some g => s == g
          | none, none => true
          | _, _ => false)
      let obs : C02.E2eObs :=
        { beOk := stkRes impl "be" == some key, tagOk := stkRes impl "tag" == some key,
          lineOk := stkRes impl "m" == some m && stkRes impl "t" == some p,
          upWant := Str.ofString uv, upGot := Str.ofString ((stkRes impl "up").getD "?"),
          stWant := stW, st := (stkResNat impl "st").getD 0,
          downWant := Str.ofString dvM, downGot := Str.ofString ((stkRes impl "down").getD "?"),
          ended := stkRes impl "end" == some "ok" }
      (st, verdictOf model impl (some (C02.e2eHolds obs && bytesOk)))
    | _, _, _, _, _, _, _, _ => (st, .bad "hx")
  | _ => (st, .bad "unknown op")

end HttpE2eEng

def httpe2e : Engine := { State := Unit, init := (), step := HttpE2eEng.step }

end Engines
end Frp
