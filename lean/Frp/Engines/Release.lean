import Frp.Driver.Proto
import Frp.Props.C10
/-
  Driver engine "release" (C10): replays the harness trace on Frp/Model/Release.lean.
  The claims of each proxy type are computed from the op exactly in the order `Run` makes them.
-/
namespace Frp
namespace Engines
open Proto Release

structure ReleaseState where
  s : RState := RState.init
  /-- what each successfully registered (by the implementation's own answer) live name claimed -/
  claims : List (Str × List Key) := []

def relBar : Nat := 124   -- '|'

def relRouteKey (t : Tbl) (d l u : Str) : Key := ⟨t, Str.toLower d ++ relBar :: l ++ relBar :: u⟩

def relParseList (t : String) : Option (List Str) :=
  if t = "-" then some [] else (t.splitOn ",").mapM unhx

/-- keys claimed by `Run`, in order -/
def relKeys (name : Str) (typ : String) (args : List String) : Option (List Key) :=
  match typ, args with
  | "http", [ds, ls, u] =>
    match relParseList ds, relParseList ls, unhx u with
    | some ds, some ls, some u =>
      let ls := if ls.isEmpty then [[]] else ls
      some ((ds.filter (· ≠ [])).flatMap (fun d => ls.map (fun l => relRouteKey .http d l u)))
    | _, _, _ => none
  | "https", [ds] =>
    (relParseList ds).map (fun ds => (ds.filter (· ≠ [])).map (fun d => relRouteKey .https d [] []))
  | "tcpmux", [ds, u] =>
    match relParseList ds, unhx u with
    | some ds, some u => some ((ds.filter (· ≠ [])).map (fun d => relRouteKey .tcpmux d [] u))
    | _, _ => none
  | "stcp", [] => some [⟨.visitor, name⟩]
  | "sudp", [] => some [⟨.visitor, name⟩]
  | "xtcp", [] => some [⟨.nathole, name⟩]
  | _, _ => none

def relInsert (x : Str) : List Str → List Str
  | [] => [x]
  | y :: ys => if x < y ∨ x = y then x :: y :: ys else y :: relInsert x ys

def relSort (l : List Str) : List Str := l.foldr relInsert []

def relRenderTbl (s : RState) (t : Tbl) : String :=
  ",".intercalate ((relSort ((s.held.filter (fun e => e.1.tbl = t)).map (fun e => e.1.k))).map hx)

def relRender (s : RState) : String :=
  s!"http[{relRenderTbl s .http}]https[{relRenderTbl s .https}]tcpmux[{relRenderTbl s .tcpmux}]" ++
  s!"visitor[{relRenderTbl s .visitor}]nathole[{relRenderTbl s .nathole}]" ++
  s!"names[{",".intercalate ((relSort (s.owner.map (·.1))).map hx)}]"

/-- one "tbl[a,b,c]" section of the implementation's view -/
def relSection (v nm : String) : Option (List Str) :=
  match v.splitOn (nm ++ "[") with
  | [_, rest] =>
    let body := (rest.splitOn "]").headD ""
    if body = "" then some [] else (body.splitOn ",").mapM unhx
  | _ => none

/-- property on the implementation's own view: every resource it still holds belongs to a proxy
    it still lists as live (nothing orphaned), and every live proxy still holds what it claimed -/
def relViewHolds (claims : List (Str × List Key)) (impl : String) : Option Bool :=
  match relSection impl "http", relSection impl "https", relSection impl "tcpmux",
        relSection impl "visitor", relSection impl "nathole", relSection impl "names" with
  | some h, some hs, some tm, some v, some nh, some names =>
    let liveClaims := (claims.filter (fun c => names.contains c.1)).flatMap (·.2)
    let tblOk (t : Tbl) (ks : List Str) : Bool :=
      ks.all (fun k => liveClaims.contains ⟨t, k⟩) &&
      (liveClaims.filter (fun c => c.tbl = t)).all (fun c => ks.contains c.k)
    some (tblOk .http h && tblOk .https hs && tblOk .tcpmux tm && tblOk .visitor v && tblOk .nathole nh)
  | _, _, _, _, _, _ => none

def releaseStep (st : ReleaseState) (tok : List String) (impl : String) : ReleaseState × Verdict :=
  match tok with
  | ["reset"] => ({}, verdictOf "-" impl)
  | "reg" :: sid :: name :: typ :: args =>
    let nm := Str.ofString name
    match sid.toNat?, relKeys nm typ args with
    | some sid, some keys =>
      let (s', res) := st.s.register sid nm keys
      let ms := match res with
        | .ok => "ok" | .exists_ => "err:exists" | .conflict _ => "err:conflict"
      let claims' := if impl = "ok" then (nm, keys) :: st.claims.filter (·.1 ≠ nm) else st.claims
      -- a registration may only succeed if the name is not live and all its keys are free and distinct
      let prop : Bool :=
        if impl = "ok" then
          !st.s.isLive nm && keys.all (fun k => (st.s.holder k).isNone) && decide keys.Nodup
        else true
      ({ s := s', claims := claims' }, verdictOf ms impl (some prop))
    | _, _ => (st, .bad "reg")
  | ["close", sid, name] =>
    match sid.toNat? with
    | some sid => ({ st with s := st.s.close sid (Str.ofString name) }, verdictOf "-" impl)
    | none => (st, .bad "close")
  | ["endsess", sid] =>
    match sid.toNat? with
    | some sid => ({ st with s := st.s.sessionEnd sid }, verdictOf "-" impl)
    | none => (st, .bad "endsess")
  | ["view"] =>
    (st, verdictOf (relRender st.s) impl (relViewHolds st.claims impl))
  | _ => (st, .bad "op")

def release : Engine := { State := ReleaseState, init := {}, step := releaseStep }

end Engines
end Frp
