import Frp.Driver.Proto
import Frp.Props.C11
import Frp.Engines.PoolEndOps
/-
  Driver engine "pool" (C11): replays the harness trace (harness/eng_pool.go) on the small-step
  models `Frp.Pool` (one state per session) and `Frp.Handoff` with the switch `Pool.current`.
  Every harness op is a fixed sequence of labels of the model; the results are compared and the C11
  predicates (Props/C11.lean, `C11.…Ok`) are evaluated on the implementation's own results.
-/
namespace Frp
namespace Engines
namespace PoolEng
open Proto Pool

/-- what the scripted client knows about a work connection it opened -/
structure WMeta where
  id : Nat
  sid : String
  mux : String
  dead : Nat := 0          -- 0 alive, 1 the client closed the stream (write still succeeds), 2 its yamux session is gone
  held : Bool := false     -- last reported as pooled / limbo: counted by the census at session end
  localClosed : Bool := false

/-- one stcp proxy of the visitor-listener part: its listener model + what the harness did to its accept loop -/
structure VP where
  st : VListen.St := {}
  stalled : Bool := false   -- the accept goroutine sits between two Accept calls
  mode : Nat := 0           -- 0: GetWorkConn fails (handler closes the visitor), 1: a work connection each time
  pending : List Nat := []  -- accepted by NewConn, outcome not yet reported

/-- a session whose control connection is a gate the scripted client can stall (harness/eng_pool_send.go):
    the send path model + what the client did -/
structure GSess where
  sp : SendPath.St := {}
  stalled : Bool := false    -- the client does not read: no `written true`
  next : Nat := 0            -- fresh sender ids
  reqIds : List Nat := []    -- the senders whose message is a ReqWorkConn
  users : Nat := 0           -- user connections dialled over the session's life
  poolCap : Nat := 10        -- cap(workConnCh)
  pooled : Nat := 0          -- work connections sitting in the pool
  offered : Nat := 0         -- work connections the client has offered
  takers : Nat := 0          -- users whose handler received a pooled connection
  readerParked : Bool := false  -- a Pong did not fit: the read loop itself sits in Send (outside the driven domain)

structure PoolState where
  maxPool : Int := 5
  gs : List (String × GSess) := []
  spec : List (String × (Int × Int)) := []   -- session ↦ (Login.PoolCount, MaxPoolCount)
  vl : VListen.St := {}
  vps : List (String × VP) := []
  ga : GroupAccept.St := {}
  gaMembers : List Nat := []
  sess : List (String × St) := []
  metas : List WMeta := []
  userSid : List (Nat × String) := []
  hs : Handoff.St := {}
  lsnDom : List (Nat × Str) := []          -- open listeners: id ↦ lower-cased domain
  crashed : Bool := false
  pe : PoolEndEng.PEState := {}               -- the sessions of the pool-teardown part (eng_pool_end.go)

def dropS (s : String) (n : Nat) : String := String.ofList (s.toList.drop n)

/-- "w12" ↦ 12 -/
def idOf (t : String) : Option Nat := (dropS t 1).toNat?

def PoolState.getS (ps : PoolState) (sid : String) : Option St := ps.sess.lookup sid
def PoolState.setS (ps : PoolState) (sid : String) (s : St) : PoolState :=
  { ps with sess := (sid, s) :: ps.sess.filter (fun e => e.1 ≠ sid) }

def PoolState.meta? (ps : PoolState) (c : Nat) : Option WMeta := ps.metas.find? (·.id == c)
def PoolState.updMeta (ps : PoolState) (c : Nat) (f : WMeta → WMeta) : PoolState :=
  { ps with metas := ps.metas.map (fun m => if m.id == c then f m else m) }

/-! ### the send path (SendPath, select variant = the tree) under the harness's schedule: the send loop and a
    reading client are eager, parked senders enter in the order they parked -/

def spStep (s : SendPath.St) (l : SendPath.Label) : SendPath.St := (SendPath.step false s l).getD s

/-- the send loop: receive, write; with a stalled client the first write never returns -/
def spPump (stalled : Bool) : Nat → SendPath.St → SendPath.St
  | 0, s => s
  | fuel + 1, s =>
    match s.wr with
    | some _ => if stalled then s else spPump stalled fuel (spStep s (.written true))
    | none =>
      match s.q with
      | [] => s
      | _ :: _ => spPump stalled fuel (spStep s .loopRecv)

/-- pump, let parked senders in while there is room, again -/
def spSettle (stalled : Bool) : Nat → SendPath.St → SendPath.St
  | 0, s => s
  | fuel + 1, s =>
    let s := spPump stalled (2 * s.q.length + 4) s
    match SendPath.parkedOf s with
    | [] => s
    | ps =>
      let s' := ps.foldl (fun s u => spStep s (.enq u)) s
      if s'.q.length = s.q.length then s' else spSettle stalled fuel s'

/-- one `Send` by a fresh goroutine -/
def GSess.send (g : GSess) (isReq : Bool) : GSess :=
  let u := g.next
  let s := spStep (spStep g.sp (.call u)) (.enq u)
  let s := spPump g.stalled 4 s
  { g with sp := s, next := u + 1, reqIds := if isReq then u :: g.reqIds else g.reqIds }

def GSess.sends (g : GSess) (isReq : Bool) : Nat → GSess
  | 0 => g
  | n + 1 => (g.send isReq).sends isReq n

def GSess.parked (g : GSess) : Nat := (SendPath.parkedOf g.sp).length
def GSess.delivered (g : GSess) : Nat := (g.sp.wire.filter (fun m => g.reqIds.contains m)).length

def PoolState.getG (ps : PoolState) (sid : String) : Option GSess := ps.gs.lookup sid
def PoolState.setG (ps : PoolState) (sid : String) (g : GSess) : PoolState :=
  { ps with gs := (sid, g) :: ps.gs.filter (fun e => e.1 ≠ sid) }

def stepS (s : St) (l : Label) : St × Res :=
  match step current s l with
  | some r => r
  | none => (s, .none)

def runS (s : St) (ls : List Label) : St := ls.foldl (fun s l => (stepS s l).1) s

/-- users of a session currently waiting, oldest first (ids grow with time) -/
def waitingOf (s : St) : List Nat :=
  let ks := (s.u.l.map (·.1)).eraseDups
  (ks.filter (fun k => match s.u.get k with | some (.waiting _ _) => true | _ => false)).reverse

def bridgedConn (s : St) (u : Nat) : Option Nat :=
  match s.u.get u with
  | some (.bridged c) => some c
  | _ => none

/-- what the harness observed for a user connection: `B:w<c>:…`, `C:<n>` (closed by frps after its
    handler consumed n pooled connections), `W`, anything else -/
def closedAfter (impl : String) : Option Nat :=
  match impl.splitOn ":" with
  | ["C", n] => n.toNat?
  | _ => none

/-- GetWorkConnFromPool for user u.  A pooled connection the client still holds open takes the
    StartWorkConn (`startMsg u true`).  For one the client has closed (stream closed / yamux session
    gone) BOTH outcomes of the write exist in the real code — an error (close it, next round) or no
    error (yamux half-close, or the dead session not yet noticed: "bridged", Join returns at once and
    the deferred closes run) — so the label is read off the observation: `C:<n>` says that the n-th
    connection consumed was the last one.  `n` = connections consumed so far. -/
def userLoop (ps : PoolState) (impl : String) (s : St) (u : Nat) (n : Nat) : Nat → St × String
  | 0 => (s, "fuel")
  | fuel + 1 =>
    match s.u.get u with
    | some (.accepted _) =>
      match s.pool with
      | [] =>
        if s.poolClosed then ((stepS s (.take u)).1, s!"C:{n}")
        else if s.dispDone ∧ (closedAfter impl).isSome then
          -- Send raced with the closed doneCh and lost (the select may pick either: read off the result)
          ((stepS s (.request u false)).1, s!"C:{n}")
        else ((stepS s (.request u true)).1, "W")
      | c :: _ =>
        let s1 := (stepS s (.take u)).1
        let dead := ((ps.meta? c).map (·.dead)).getD 0
        if dead = 0 then ((stepS s1 (.startMsg u true)).1, s!"B:w{c}:nstd")
        else if closedAfter impl = some (n + 1) then
          -- the write "succeeded", Join saw EOF at once
          (runS s1 [.startMsg u true, .joinEnd u], s!"C:{n + 1}")
        else
          let (s2, r) := stepS s1 (.startMsg u false)
          if r = .retry then userLoop ps impl s2 u (n + 1) fuel else (s2, s!"C:{n + 1}")
    | _ => (s, s!"C:{n}")

/-- census of the harness after a session end: held work connections closed/open, waiting users closed/open -/
def census (ps : PoolState) (sid : String) (s0 s : St) (waitersBefore : List Nat) : PoolState × String :=
  let _ := s0
  let held := ps.metas.filter (fun m => m.sid = sid ∧ m.held ∧ !m.localClosed)
  let closed := held.filter (fun m => s.w.get m.id = some .closed)
  let uc := waitersBefore.filter (fun u => s.u.get u = some .closed)
  let ps' := { ps with metas := ps.metas.map (fun m =>
      if m.sid = sid ∧ m.held ∧ s.w.get m.id = some .closed then { m with held := false } else m) }
  (ps', s!"w={closed.length}/{held.length - closed.length};u={uc.length}/{waitersBefore.length - uc.length}")

/-- teardown from wherever the session is to the end -/
def teardown (s : St) : St :=
  let s := runS s [.dispDone, .closePool]
  let s := (waitingOf s).foldl (fun s u => (stepS s (.recv u)).1) s
  runS s [.drain, .closeProxies, .del]

def toLowerDom (d : Str) : Str := Str.toLower d

def sortNat (l : List Nat) : List Nat :=
  l.foldr (fun x acc => (acc.filter (· < x)) ++ [x] ++ (acc.filter (fun y => ¬ y < x))) []

def renderIds (l : List Nat) : String := ",".intercalate ((sortNat l).map (fun c => s!"c{c}"))

def routedTo (hs : Handoff.St) (l : Nat) : List Nat :=
  let ks := (hs.c.l.map (·.1)).eraseDups
  ks.filter (fun k => hs.c.get k = some (.routed l))

def hstep (hs : Handoff.St) (l : Handoff.Label) : Handoff.St := (Handoff.step current hs l).getD hs

/-- one op on the pool part; returns the new state, the model's result and the property verdict on the implementation's result -/
def poolOp (ps : PoolState) (tok : List String) (impl : String) : Option (PoolState × String × Option Bool) :=
  match tok with
  | ["reset", m] => do
    let m ← m.toInt?
    pure ({ maxPool := m }, "-", none)
  | ["login", sid, pool] => do
    let pool ← pool.toInt?
    let pc := clampPoolCount current.clampPoolCount (newPoolCount pool ps.maxPool)
    if newControlPanics pc then pure ({ ps with crashed := true }, "crash", some false)
    else
      -- Start(), then the NewProxy of the proxy the users dial
      let s := (stepS (init pc 1) (.regProxy 0)).1
      pure ({ ps.setS sid s with spec := (sid, (pool, ps.maxPool)) :: ps.spec }, s!"ok:{s.reqs}",
            some (C11.loginOk pool ps.maxPool impl))
  | ["offer", sid, wid, mux, auth] => do
    let c ← idOf wid
    let s ← ps.getS sid
    let ps := { ps with metas := { id := c, sid := sid, mux := mux } :: ps.metas }
    let s := (stepS s (.dial c)).1
    let (s, r) := stepS s (.lookup c (auth = "1"))
    if r = .closed then
      pure (ps.setS sid s, if s.inManager then "X" else "R", some (C11.offerOk s c false impl))
    else
      let full := decide (s.cap ≤ s.pool.length)
      let (s, r) := stepS s (.send c)
      match r with
      | .pooled =>
        match waitingOf s with
        | [] => pure ((ps.updMeta c (fun m => { m with held := true })).setS sid s, "P", some (C11.offerOk s c full impl))
        | w0 :: ws =>
          -- a blocked receiver gets it; which one is the runtime's choice (read off the result)
          let u := match (impl.splitOn ":") with
            | ["S", uid, _] => match idOf uid with
              | some x => if (w0 :: ws).contains x then x else w0
              | none => w0
            | _ => w0
          let s := runS s [.recv u, .startMsg u true]
          pure (ps.setS sid s, s!"S:u{u}:nstd", some (C11.offerOk s c full impl))
      | .refused => pure (ps.setS sid s, "R", some (C11.offerOk s c full impl))
      | .limbo => pure ((ps.updMeta c (fun m => { m with held := true })).setS sid s, "L", some (C11.offerOk s c full impl))
      | _ => none
  | ["user", sid, uid] => do
    let u ← idOf uid
    let s ← ps.getS sid
    let ps := { ps with userSid := (u, sid) :: ps.userSid }
    if s.proxyOpen = false then pure (ps, "refused", some true)
    else
      let (s1, r) := stepS s (.accept u)
      if r = .crash then pure ({ ps.setS sid s1 with crashed := true }, "crash", some false)
      else
        let (s2, res) := userLoop ps impl s1 u 0 64
        -- connections received by the handler are no longer "held in the pool" for the client
        let ps := { ps with metas := ps.metas.map (fun (m : WMeta) =>
          if m.sid = sid ∧ m.held ∧ s.w.get m.id = some W.pooled ∧ s2.w.get m.id ≠ some W.pooled
          then { m with held := false } else m) }
        pure (ps.setS sid s2, res, some (C11.userOk s u impl))
  | ["expire", uid] => do
    let u ← idOf uid
    let sid ← ps.userSid.lookup u
    let s ← ps.getS sid
    -- real time passes for every session
    let ps := { ps with sess := ps.sess.map (fun (e : String × St) => (e.1, if tickOk e.2 then (stepS e.2 .tick).1 else e.2)) }
    let s := (ps.getS sid).getD s
    match s.u.get u with
    | some (.waiting _ _) =>
      let (s, r) := stepS s (.timeout u)
      pure (ps.setS sid s, if r = Res.closed then "C:intime" else "open", some (impl = "C:intime"))
    | _ => pure (ps, "C:early", some (impl = "C:intime" ∨ impl = "C:early"))
  | ["kill", wid] => do
    let c ← idOf wid
    let m ← ps.meta? c
    let s ← ps.getS m.sid
    let ps := ps.updMeta c (fun m => { m with dead := max m.dead 1, localClosed := true })
    match s.w.get c with
    | some (.taken u) =>
      if (bridgedConn s u) = some c then
        pure (ps.setS m.sid (stepS s (.joinEnd u)).1, "uclosed", some (impl = "uclosed"))
      else pure (ps, "-", none)
    | _ => pure (ps, "-", none)
  | ["killmux", mux] =>
    if mux = "m0" then pure (ps, "-", none) else
    -- bridges over the dead session end
    let victims := ps.metas.filter (fun m => m.mux = mux ∧ !m.localClosed)
    let ps := { ps with metas := ps.metas.map (fun m => if m.mux = mux then { m with dead := 2, localClosed := true } else m) }
    let ps := victims.foldl (fun ps m =>
      match ps.getS m.sid with
      | some s => match s.w.get m.id with
        | some (.taken u) => if bridgedConn s u = some m.id then ps.setS m.sid (stepS s (.joinEnd u)).1 else ps
        | _ => ps
      | none => ps) ps
    pure (ps, "-", none)
  | ["close", uid] => do
    let u ← idOf uid
    let sid ← ps.userSid.lookup u
    let s ← ps.getS sid
    match bridgedConn s u with
    | some c =>
      let lc := ((ps.meta? c).map (·.localClosed)).getD false
      pure (ps.setS sid (stepS s (.joinEnd u)).1, if lc then "-" else "wclosed", some (impl = "-" ∨ impl = "wclosed"))
    | none => pure (ps, "-", none)
  | ["data", uid] => do
    let u ← idOf uid
    let sid ← ps.userSid.lookup u
    let s ← ps.getS sid
    match bridgedConn s u with
    | some _ => pure (ps, "ok", some (impl = "ok"))
    | none => pure (ps, "bad", none)
  | ["reqs", sid] => do
    let s ← ps.getS sid
    let (c, m) ← ps.spec.lookup sid
    pure (ps, toString s.reqs, some (C11.reqsOk c m s.ureq impl))
  | ["newproxy", sid, pid] => do
    let p ← idOf pid
    let s ← ps.getS sid
    let (c, m) ← ps.spec.lookup sid
    if s.dispDone then pure (ps, "nosess", none) else
    match step current s (.regProxy p) with
    | some (s', _) => pure (ps.setS sid s', s!"ok:{s'.reqs}", some (C11.reqsOk c m s'.ureq impl))
    | none => pure (ps, s!"err:{s.reqs}", some (C11.reqsOk c m s.ureq impl))
  | ["closeproxy", sid, pid] => do
    let p ← idOf pid
    let s ← ps.getS sid
    let (c, m) ← ps.spec.lookup sid
    if s.dispDone then pure (ps, "nosess", none) else
    let s' := (stepS s (.closeProxy p)).1      -- an unknown name is ignored
    pure (ps.setS sid s', s!"ok:{s'.reqs}", some (C11.reqsOk c m s'.ureq impl))
  | ["end", sid] => do
    let s ← ps.getS sid
    let ws := waitingOf s
    let s0 := s
    let s := teardown s
    let (ps, r) := census ps sid s0 s ws
    pure (ps.setS sid s, r, some (C11.censusOk impl))
  | ["gate", sid, point] => do
    let s ← ps.getS sid
    if point = "worker.dispDone" then pure (ps.setS sid (runS s [.dispDone]), "parked", none)
    else if point = "worker.drained" then
      let s := runS s [.dispDone, .closePool]
      let s := (waitingOf s).foldl (fun s u => (stepS s (.recv u)).1) s
      pure (ps.setS sid (runS s [.drain]), "parked", none)
    else none
  | ["release", sid] => do
    let s ← ps.getS sid
    let ws := waitingOf s
    let s0 := s
    let s := teardown s
    let (ps, r) := census ps sid s0 s ws
    pure (ps.setS sid s, r, some (C11.censusOk impl))
  | ["sqlogin", sid, pool] => do
    let pool ← pool.toInt?
    let pc := clampPoolCount current.clampPoolCount (newPoolCount pool ps.maxPool)
    if newControlPanics pc then pure ({ ps with crashed := true }, "crash", some false)
    else
      -- Start(): the advance requests; then the NewProxyResp; the client reads: all of it is written
      let g : GSess := { sp := SendPath.init 100, poolCap := capOf pc }
      let g := (g.sends true (advance pc)).send false
      pure (ps.setG sid g, s!"ok:{g.delivered}", some (C11.loginOk pool ps.maxPool impl))
  | ["sqstall", sid] => do
    let g ← ps.getG sid
    pure (ps.setG sid { g with stalled := true }, "-", none)
  | ["sqoffer", sid, k] => do
    let k ← k.toNat?
    let g ← ps.getG sid
    -- RegisterWorkConn: pooled while there is room, refused and closed beyond (no handler is waiting: the
    -- generator offers before the first user; otherwise the op is outside the driven domain)
    let p := min (g.pooled + k) g.poolCap
    pure (ps.setG sid { g with pooled := p, offered := g.offered + k }, s!"P:{p}", some (C11.sendPooledOk g.poolCap impl))
  | ["sqping", sid, n] => do
    let n ← n.toNat?
    let g ← ps.getG sid
    let g := g.sends false n
    let g := { g with sp := spSettle g.stalled 8 g.sp }
    if g.parked = 0 then pure (ps.setG sid g, "ok", none)
    else pure (ps.setG sid { g with readerParked := true }, "blocked", none)
  | ["squsers", sid, n] => do
    let n ← n.toNat?
    let g ← ps.getG sid
    -- GetWorkConn: a handler that receives a pooled connection sends the replacement request, one that finds the
    -- pool empty sends its request first: one Send(ReqWorkConn) each, it returns or the handler parks in it
    let t := min n g.pooled
    let g := g.sends true n
    let g := { g with sp := spSettle g.stalled 8 g.sp, users := g.users + n, pooled := g.pooled - t, takers := g.takers + t }
    pure (ps.setG sid g, s!"S:{g.parked}", some (C11.sendParkedOk g.sp.cap g.stalled impl))
  | ["sqresume", sid] => do
    let g ← ps.getG sid
    let g := { g with stalled := false }
    let g := { g with sp := spSettle false 16 g.sp }
    pure (ps.setG sid g, s!"S:{g.parked};r={g.delivered}", some (C11.sendResumedOk impl))
  | ["sqend", sid, _kind] => do
    let g ← ps.getG sid
    -- the read fails (`close(doneCh)`), the worker closes the connection; every parked handler's doneCh arm
    -- fires (`blocked_sender_released_on_end`); handlers whose Send had returned meet the closed pool
    let s := spStep (spStep g.sp .readFail) .connClose
    let s := (SendPath.parkedOf s).foldl (fun s u => spStep s (.wake u)) s
    let left := (SendPath.parkedOf s).length
    -- released: a taker returns its connection to GetWorkConnFromPool (StartWorkConn, bridge), every other handler
    -- closes its user; the drain closes what is still pooled, refused offers were closed at once
    let unstarted := g.offered - g.takers
    pure ({ ps with gs := ps.gs.filter (fun e => e.1 ≠ sid) },
          s!"w={unstarted}/0;u={g.users - g.takers - left}/{left};b={g.takers}", some (C11.censusUsersOk impl))
  | ["mxreset"] => pure ({ ps with hs := {}, lsnDom := [] }, "-", none)
  | ["mxlisten", l, dom] => do
    let l ← idOf l
    let d ← unhx dom
    let d := toLowerDom d
    if ps.lsnDom.any (fun e => e.2 = d) then pure (ps, "err", none)
    else pure ({ ps with hs := hstep ps.hs (.listen l), lsnDom := (l, d) :: ps.lsnDom }, "ok", none)
  | ["mxconn", c, dom] => do
    let c ← idOf c
    let d ← unhx dom
    let d := toLowerDom d
    let hs := hstep ps.hs (.conn c)
    match ps.lsnDom.find? (fun e => e.2 = d) with
    | some (l, _) => pure ({ ps with hs := hstep hs (.route c l) }, "routed", some (impl ≠ "stuck"))
    | none => pure ({ ps with hs := hstep hs (.noRoute c) }, "closed", some (impl ≠ "stuck"))
  | ["mxaccept", l] => do
    let l ← idOf l
    if ps.hs.lsn.get l ≠ some true then pure (ps, "lclosed", none) else
    match routedTo ps.hs l with
    | [] => pure (ps, "none", none)
    | c0 :: cs =>
      let c := match impl.splitOn ":" with
        | ["got", cid] => match idOf cid with
          | some x => if (c0 :: cs).contains x then x else c0
          | none => c0
        | _ => c0
      pure ({ ps with hs := hstep ps.hs (.handoff c) }, s!"got:c{c}", some (C11.acceptOk (c0 :: cs) impl))
  | ["mxclose", l] => do
    let l ← idOf l
    let parked := routedTo ps.hs l
    let hs := hstep ps.hs (.closeListener l)
    let hs := parked.foldl (fun hs c => hstep hs (.handoff c)) hs
    let closed := parked.filter (fun c => hs.c.get c = some .closed)
    let limbo := parked.filter (fun c => hs.c.get c = some .limbo)
    pure ({ ps with hs := hs, lsnDom := ps.lsnDom.filter (fun e => e.1 ≠ l) },
          s!"closed={renderIds closed};limbo={renderIds limbo}", some (C11.closeListenerOk impl))
  | ["vlnew"] => pure ({ ps with vl := {} }, "-", none)
  | ["vlput", cid] => do
    let c ← idOf cid
    match VListen.step ps.vl (.put c) with
    | some (v, .queued) => pure ({ ps with vl := v }, "q", none)
    | some (v, .full) => pure ({ ps with vl := v }, "full", none)
    | some (v, _) => pure ({ ps with vl := v }, "err", none)
    | none => none
  | ["vlaccept"] =>
    if ps.vl.loopExit then pure (ps, "noloop", none) else
    match VListen.step ps.vl .accept with
    | some (v, .got c) => pure ({ ps with vl := v }, s!"got:c{c}", some (C11.vlAcceptOk impl))
    | some (v, _) => pure ({ ps with vl := v }, "exit:", some (C11.vlAcceptOk impl))
    | none => pure ({ ps with vl := { ps.vl with loopExit := true } }, "block", none)
  | ["vlclose"] => pure ({ ps with vl := ((VListen.step ps.vl .closeL).map (·.1)).getD ps.vl }, "-", none)
  | ["vpreset"] => pure ({ ps with vps := [] }, "-", none)
  | ["vpnew", p, mode] => do
    let mode ← mode.toNat?
    match ps.vps.lookup p with
    | some vp => if vp.st.registered then pure (ps, "err", none)
                 else pure ({ ps with vps := (p, { mode := mode }) :: ps.vps }, "ok", none)
    | none => pure ({ ps with vps := (p, { mode := mode }) :: ps.vps }, "ok", none)
  | ["vpconn", p, cid, stall, auth] => do
    let c ← idOf cid
    match ps.vps.lookup p with
    | none => pure (ps, "err", none)
    | some vp =>
      if auth ≠ "1" then pure (ps, "err", none) else
      match VListen.step vp.st (.put c) with
      | none => none
      | some (v, .queued) =>
        if vp.stalled then
          pure ({ ps with vps := (p, { vp with st := v, pending := vp.pending ++ [c] }) :: ps.vps }, "Q", some (C11.visitorOk impl))
        else
          -- the free accept goroutine takes it at once
          let v := ((VListen.step v .accept).map (·.1)).getD v
          if stall = "1" then
            pure ({ ps with vps := (p, { vp with st := v, stalled := true, pending := [c] }) :: ps.vps }, "stalled", some (C11.visitorOk impl))
          else
            pure ({ ps with vps := (p, { vp with st := v }) :: ps.vps }, if vp.mode = 0 then "C" else "B:n", some (C11.visitorOk impl))
      | some (v, .full) => pure ({ ps with vps := (p, { vp with st := v }) :: ps.vps }, "full", some (C11.visitorOk impl))
      | some (v, _) => pure ({ ps with vps := (p, { vp with st := v }) :: ps.vps }, "err", some (C11.visitorOk impl))
  | [op, p] =>
    if op = "vprelease" ∨ op = "vpclose" then
      match ps.vps.lookup p with
      | none => pure (ps, "nopxy", none)
      | some vp =>
        if op = "vpclose" ∧ vp.st.registered = false then pure (ps, "nopxy", none) else
        let accepts := fun (v : VListen.St) (n : Nat) =>
          (List.replicate n VListen.Label.accept).foldl (fun v l => ((VListen.step v l).map (·.1)).getD v) v
        let v := if op = "vpclose" then
            let v := ((VListen.step vp.st .closeL).map (·.1)).getD vp.st
            let v := ((VListen.step v .unregister).map (·.1)).getD v
            accepts v (v.q.length + 1)
          else accepts vp.st vp.st.q.length
        -- every pending connection that the loop has accepted is with its handler: bridged or closed
        let handled := vp.pending.filter (fun c => v.c.get c = some .accepted)
        let openC := vp.pending.filter (fun c => v.c.get c = some .queued)
        let b := if vp.mode = 0 then 0 else handled.length
        let cl := if vp.mode = 0 then handled.length else 0
        pure ({ ps with vps := (p, { vp with st := v, stalled := false, pending := [] }) :: ps.vps },
              s!"b={b};c={cl};open={renderIds openC}", some (C11.openNoneOk impl))
    else if op = "gplisten" then do
      let m ← idOf p
      if ps.gaMembers.contains m then pure (ps, "err", none)
      else pure ({ ps with ga := (GroupAccept.step ps.ga .listen).getD ps.ga, gaMembers := m :: ps.gaMembers }, "ok", none)
    else if op = "gpconn" then do
      let c ← idOf p
      let refused := ps.ga.members = 0
      let g := (GroupAccept.step ps.ga (.conn c)).getD ps.ga
      let g := (GroupAccept.step g .workerAccept).getD g      -- the worker is eager
      pure ({ ps with ga := g }, if refused then "refused" else "ok", none)
    else if op = "gpaccept" then do
      let m ← idOf p
      if !ps.gaMembers.contains m then pure (ps, "nolsn", none) else
      match ps.ga.hold with
      | some c =>
        let g := (GroupAccept.step ps.ga .recv).getD ps.ga
        let g := (GroupAccept.step g .workerAccept).getD g
        pure ({ ps with ga := g }, s!"got:c{c}", some (impl.startsWith "got:"))
      | none => pure (ps, "none", none)
    else if op = "gpclose" then do
      let m ← idOf p
      if !ps.gaMembers.contains m then pure (ps, "nolsn", none) else
      let g := (GroupAccept.step ps.ga .leave).getD ps.ga
      let stuck := ((g.c.l.map (·.1)).eraseDups).filter (fun c => g.members = 0 ∧
        (g.c.get c = some .backlog ∨ g.c.get c = some .held))
      pure ({ ps with ga := g, gaMembers := ps.gaMembers.erase m }, s!"open={renderIds stuck}", some (C11.openNoneOk impl))
    else none
  | ["gpreset"] => pure ({ ps with ga := {}, gaMembers := [] }, "-", none)
  | _ => none

/-- inner ops of a sacrificial child: results joined by `;`, ending with `crash` where frps died -/
def childRun (ops : List (List String)) (implParts : List String) : String × Bool :=
  let rec go (ps : PoolState) (ops : List (List String)) (impl : List String) (acc : List String) : List String × Bool :=
    match ops with
    | [] => (acc.reverse, false)
    | op :: rest =>
      let i := impl.headD ""
      match poolOp ps op i with
      | none => (("?" :: acc).reverse, false)
      | some (ps', r, _) =>
        if ps'.crashed then (("crash" :: acc).reverse, true)
        else go ps' rest (impl.drop 1) (r :: acc)
  let (rs, crashed) := go {} ops implParts []
  (";".intercalate rs, crashed)

def poolStep (ps : PoolState) (tok : List String) (impl : String) : PoolState × Verdict :=
  match tok with
  | ["child", enc] =>
    let ops := (enc.splitOn ";").map (fun o => o.splitOn ",")
    let (m, _) := childRun ops (impl.splitOn ";")
    -- frps must survive whatever an authenticated client sends
    (ps, verdictOf m impl (some (C11.childOk impl)))
  | _ =>
    -- a Pong that did not fit into the queue leaves the read loop itself parked in Send: the session can
    -- no longer notice a read failure (dispatcher starvation, C14's); outside what is driven here
    let starved := match tok with
      | op :: sid :: _ => op.startsWith "sq" && op != "sqlogin" && ((ps.getG sid).map (·.readerParked)).getD false
      | _ => false
    match starved with
    | true => (ps, .skip "read loop parked in Send")
    | false =>
      if (tok.headD "").startsWith "pe" then
        match PoolEndEng.peOp ps.pe tok impl with
        | some (pe', m, p) => ({ ps with pe := pe' }, verdictOf m impl p)
        | none => (ps, .bad "op")
      else
      match poolOp ps tok impl with
      | some (ps', m, p) => (ps', verdictOf m impl p)
      | none => (ps, .bad "op")

end PoolEng

def pool : Proto.Engine := { State := PoolEng.PoolState, init := {}, step := PoolEng.poolStep }

end Engines
end Frp
