import Frp.Driver.Proto
import Frp.Props.C20Proxy
import Frp.Engines.Nat
/-
  Driver engine "natpx": replays the harness trace (harness/eng_nat_px.go — real server-side xtcp
  proxies Run / Close / sid-dispatch goroutine on a real nathole.Controller, scripted slow owners) on
  the composed model Frp/Model/NatProxy.lean and evaluates the C20 clause "a session is created only
  for a correctly signed request naming a LIVE xtcp proxy" on the implementation's own answers.

  `live` is kept from the TRACE alone: the proxies whose `run` the implementation answered "ok" and
  that no `close` op has named since — the property's "live xtcp proxy", independent of the model.
-/
namespace Frp
namespace Engines
open Proto NatHole NatProxy

namespace NatPx
open Nat' (unlist errStr idsStr sortNat)

structure Inst where
  id : Nat
  name : Str
  sk : Str
  allow : List Str                 -- effective allow list (xtcp.go Run: empty ⇒ [owner's user])

structure St where
  P : PState := {}
  outbox : Out := []
  visits : List (Nat × Str) := []  -- vid, proxy name of the request (trace)
  insts : List Inst := []          -- every proxy whose `run` the implementation answered "ok" (trace)
  live : List Nat := []            -- … and that no `close` op has named since (trace)

def sidOf (vid : Nat) : Str := Str.ofString s!"s{vid}"

def St.app (st : St) (l : PLabel) : Option St :=
  match pstep st.P l with
  | some (P', o, _) => some { st with P := P', outbox := st.outbox ++ o }
  | none => none

def St.tryApp (st : St) (l : PLabel) : St := (st.app l).getD st

def St.liveInsts (st : St) (name : Str) : List Inst :=
  st.insts.filter (fun i => st.live.contains i.id && i.name == name)

/-- the model's proxy of that name whose Close was not called -/
def findLive (P : PState) (name : Str) : Option (Nat × Pxy) :=
  P.pxs.find? (fun q => q.2.name == name && !q.2.closed)

def phaseOf (st : St) (vid : Nat) : Option Phase := (aget st.P.ctl.sessions (sidOf vid)).map (·.phase)

def vidsSorted (st : St) : List Nat := sortNat (st.visits.map (·.1))

def vmOf (vid : Nat) (name sk : Str) : VMsg :=
  { tid := Str.ofString s!"tv{vid}", proxyName := name, protocol := Str.ofString "quic",
    signed := authInput sk 7, timestamp := 7,
    mapped := [Str.ofString "9.9.9.9:30000", Str.ofString "9.9.9.9:30000"] }

def stepCore (st : St) (tok : List String) (impl : String) : St × Verdict :=
  match tok with
  | ["reset"] => ({}, verdictOf "-" impl)
  | ["run", id, n, sk, al, u] =>
    match id.toNat?, unhx n, unhx sk, unlist al, unhx u with
    | some id, some n, some sk, some al, some u =>
      let eff := if al.isEmpty then [u] else al
      -- property on the implementation's answer: "repeated" only while a live proxy holds the name
      -- (after Close has returned the name can be registered again)
      let prop : Option Bool := if impl = "repeated" then some (!(st.liveInsts n).isEmpty) else none
      let st1 := if impl = "ok" then
        { st with insts := { id := id, name := n, sk := sk, allow := eff } :: st.insts, live := id :: st.live } else st
      match nget st.P.pxs id with
      | some _ => (st1, verdictOf "dup-id" impl prop)
      | none =>
        match pstep st.P (.run id n sk eff) with
        | some (P', _, _) =>
          ({ st1 with P := P' }, verdictOf (if (nget P'.pxs id).isSome then "ok" else "repeated") impl prop)
        | none => (st1, .bad "run")
    | _, _, _, _, _ => (st, .bad "run")
  | ["close", id] =>
    match id.toNat? with
    | some id =>
      let st1 := if impl = "ok" then { st with live := st.live.filter (· ≠ id) } else st
      match nget st.P.pxs id with
      | none => (st1, verdictOf "unknown" impl)
      | some _ => (st1.tryApp (.close id), verdictOf "ok" impl)
    | none => (st, .bad "close")
  | ["visit", vid, n, sk, u] =>
    match vid.toNat?, unhx n, unhx sk, unhx u with
    | some vid, some n, some sk, some u =>
      let sid := sidOf vid
      let vm := vmOf vid n sk
      -- PROPERTY on the implementation's answer: a session is created only for a correctly signed request by
      -- an allowed user naming a proxy that is live by the trace's own history
      let entitled := (st.liveInsts n).any (fun i => decide (authInput i.sk 7 = authInput sk 7) && userAllowed i.allow u)
      let st := { st with visits := (vid, n) :: st.visits }
      match pstep st.P (.ctl (.visitorLookup sid vm vid u)) with
      | none => (st, .bad "visit: id reused")
      | some (P', o, _) =>
        let st1 := { st with P := P', outbox := st.outbox ++ o }
        match o with
        | (_, r) :: _ =>
          (st1, verdictOf ("err:" ++ errStr r.error) impl (if impl.startsWith "created" then some entitled else some true))
        | [] =>
          let prop := if impl.startsWith "created" then some entitled else some true
          match findLive P' n with
          | some (id, p) =>
            if p.loop = .idle then
              ((st1.app (.recv id sid)).getD st1, verdictOf s!"created:fetch{id}" impl prop)
            else (st1, verdictOf "created:pending" impl prop)
          | none => (st1, verdictOf "created:pending" impl prop)
    | _, _, _, _ => (st, .bad "visit")
  | ["release", id, k] =>
    match id.toNat? with
    | some id =>
      match nget st.P.pxs id with
      | none => (st, verdictOf "unknown" impl)
      | some p =>
        match p.loop with
        | .delivering sid0 =>
          -- the requests parked on this proxy's sid channel run into NatHoleTimeout first
          let parked := (vidsSorted st).filter (fun v => phaseOf st v == some (.notifying p.chan))
          let st1 := parked.foldl (fun s v => s.tryApp (.ctl (.notifyTimeout (sidOf v)))) st
          let st2 := st1.tryApp (.fetched id (k = "ok"))
          let who := match (vidsSorted st).find? (fun v => sidOf v == sid0) with
            | some v => s!"v{v}" | none => "?"
          let ms := s!"exp={idsStr parked};sid={if k = "ok" then who else "-"}"
          -- property on the implementation's answer: the sid handed to this owner belongs to a request
          -- that named this proxy
          let prop : Option Bool :=
            match impl.splitOn ";sid=v" with
            | [_, v] =>
              (match v.toNat?, st.insts.find? (·.id = id) with
               | some v, some i => some ((st.visits.find? (·.1 = v)).map (·.2) == some i.name)
               | _, _ => none)
            | _ => none
          (st2, verdictOf ms impl prop)
        | _ => (st, verdictOf "idle" impl)
    | none => (st, .bad "release")
  | ["reg", n] =>
    match unhx n with
    | some n =>
      -- property: registered only while a live proxy holds the name
      let prop := if impl = "1" then some (!(st.liveInsts n).isEmpty) else some true
      (st, verdictOf (if (aget st.P.ctl.cfgs n).isSome then "1" else "0") impl prop)
    | none => (st, .bad "reg")
  | ["precheck", n, u] =>
    match unhx n, unhx u with
    | some n, some u =>
      let prop := if impl = "ok" then some ((st.liveInsts n).any (fun i => userAllowed i.allow u)) else some true
      match NatHole.step st.P.ctl (.precheck { proxyName := n } 0 u) with
      | some (_, [(_, r)]) => (st, verdictOf (if r.error = .none then "ok" else errStr r.error) impl prop)
      | _ => (st, .bad "precheck model")
    | _, _ => (st, .bad "precheck")
  | ["settle"] =>
    let st' := (vidsSorted st).foldl (fun s v =>
      match phaseOf s v with
      | some (.notifying _) => s.tryApp (.ctl (.notifyTimeout (sidOf v)))
      | some .waiting => s.tryApp (.ctl (.timeout (sidOf v)))
      | _ => s) st
    -- property: every session is removed after its timeout — nothing accumulates
    (st', verdictOf s!"left={st'.P.ctl.sessions.length}" impl
      (if impl.startsWith "left=" then some (impl = "left=0") else none))
  | ["out", vid] =>
    match vid.toNat? with
    | some vid =>
      if (st.visits.find? (·.1 = vid)).isNone then (st, verdictOf "unknown" impl) else
      let rs := (st.outbox.filter (·.1 = vid)).map (fun x => errStr x.2.error ++ (if x.2.sid.isEmpty then "" else "+sid"))
      (st, verdictOf (if rs.isEmpty then "-" else ",".intercalate rs) impl)
    | none => (st, .bad "out")
  | _ => (st, .bad "op")

/-- a panic of the real code in any op fails the property ("never … a crash") -/
def step (st : St) (tok : List String) (impl : String) : St × Verdict :=
  let (st', v) := stepCore st tok impl
  if impl.startsWith "PANIC:" then
    (st', match v with
      | .diff m _ => .diff m (some false)
      | .bad w => .bad w
      | _ => .diff "no-panic" (some false))
  else (st', v)

end NatPx

def natpx : Engine := { State := NatPx.St, init := {}, step := NatPx.step }

end Engines
end Frp
