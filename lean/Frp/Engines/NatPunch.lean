import Frp.Driver.Proto
import Frp.Engines.Nat
/-
  Driver engine "punch": replays the harness trace of harness/eng_nat_punch.go — the real
  ExchangeInfo / MakeHole of both parties on loopback — on Frp/Model/NatPunch.lean.
  The two NatHoleResp are taken from the implementation (they are judged by `C20.fullOk` against the
  messages the parties sent); the outcome of the two `MakeHole` runs is predicted from them.
-/
namespace Frp
namespace Engines
open Proto NatBeh NatHole NatPunch

namespace Punch'

structure Info where
  id : Nat
  vk : String
  ck : String
  scn : String
  pv : Nat
  pc : Nat

structure St where
  infos : List Info := []

def loAddr (ip : String) (p : Nat) : Str := Str.ofString s!"{ip}:{p}"

/-- harness `punchAddrs`: kind = class letter + a | n | N -/
def addrsOf (kind : String) (p : Nat) : List Str × List Str :=
  let a := loAddr "127.0.0.1" p
  let mapped := match kind.toList.head? with
    | some 'e' => [a, a]
    | some 'r' => [a, loAddr "127.0.0.1" (p + 1)]
    | some 'h' => [a, loAddr "127.0.0.1" (p + 20)]
    | some 'i' => [a, loAddr "127.0.0.9" p]
    | _ => [a, Str.ofString "nocolon"]
  -- the tail: a = the own address, n = none, a number N = the idle local sockets at ports p+2 .. p+1+N
  let tail := (kind.drop 1).toString
  let idle := match tail.toNat? with
    | some n => (List.range (if n ≤ 12 then n else 0)).map (fun j => loAddr "127.0.0.1" (p + 2 + j))
    | none => []
  (mapped, (if tail = "a" then [a] else []) ++ idle)

def third : Str := Str.ofString "T"

/-- the third party's datagrams as party `who` ('V' visitor, 'C' owner) holding `sameKey` sees them.
    w / v / c: a well-formed NatHoleSid of ANOTHER session (same key, Response = true) at both sockets / the
    visitor's only / the owner's only; f: the same with Response = false (both sockets) -/
def noiseOf (scn : String) (sid : Str) (sameKey : Bool) (who : Char) : List (Str × Dgram) :=
  let foreign : Str := Str.ofString "nosuchsid"
  scn.toList.flatMap (fun ch =>
    if ch = 'g' then [(third, Dgram.junk), (third, Dgram.junk)]
    else if ch = 'k' then [(third, recode false true sid true)]
    else if ch = 'w' then [(third, recode sameKey true foreign true)]
    else if ch = 'v' then (if who = 'V' then [(third, recode sameKey true foreign true)] else [])
    else if ch = 'c' then (if who = 'C' then [(third, recode sameKey true foreign true)] else [])
    else if ch = 'f' then [(third, recode sameKey true foreign false)]
    else if ch = 't' then [(third, recode sameKey false sid true)]
    else if ch = 'i' then [(third, recode sameKey true sid false)]
    else [])

/-- one item of a `pwdm` inbox: `<src a|b|c><code>`; j garbage, k0/k1 own sid under another key, t0/t1 truncated,
    o0/o1 OUR sid, f0/f1 another session's sid, p0/p1 our sid with a suffix, e0/e1 the empty sid -/
def dgramOf (sid : Str) (item : String) : Option (Str × Dgram) :=
  match item.toList with
  | src :: code =>
    if !(src = 'a' ∨ src = 'b' ∨ src = 'c') then none else
    let s : Str := Str.ofString (String.singleton src)
    match code with
    | ['j'] => some (s, .junk)
    | ['k', r] | ['t', r] => if r = '0' ∨ r = '1' then some (s, .junk) else none
    | ['o', r] => if r = '0' ∨ r = '1' then some (s, .sid sid (r = '1')) else none
    | ['f', r] => if r = '0' ∨ r = '1' then some (s, .sid (Str.ofString "F" ++ sid) (r = '1')) else none
    | ['p', r] => if r = '0' ∨ r = '1' then some (s, .sid (sid ++ Str.ofString "x") (r = '1')) else none
    | ['e', r] => if r = '0' ∨ r = '1' then some (s, .sid [] (r = '1')) else none
    | _ => none
  | [] => none

def wdmStr : Option (Str × Bool) → String
  | none => "n#-"
  | some (src, replied) => s!"{Str.toString src}#{if replied then Str.toString src ++ ":1" else "-"}"

def runs (r : Resp) : Bool := r.error == .none && !r.candidateAddrs.isEmpty   -- ExchangeInfo returned a response

def letter (o : Option Str) (peer : Str) : String :=
  match o with
  | none => "n"
  | some a => if a = peer then "p" else if a = third then "t" else "o"

def step (st : St) (tok : List String) (impl : String) : St × Verdict :=
  match tok with
  | ["reset"] => ({}, verdictOf "-" impl)
  | ["sidmsg", sid, resp, nl, key, dk, cut] =>
    match unhx sid, nl.toNat?, unhx key, unhx dk, cut.toNat? with
    | some sid, some nl, some key, some dk, some cut =>
      let same := key == dk && cut == 0
      let ms := match recode (key == dk) (cut == 0) sid (resp = "1") with
        | .sid s r => s!"ok:{hx s},{Nat'.b01 r},{nl}"
        | .junk => "err"
      -- the codec must be the identity on what a peer with the same key receives intact
      (st, verdictOf ms impl (if same then some (impl = ms) else none))
    | _, _, _, _, _ => (st, .bad "sidmsg")
  | ["pwdm", role, sid, items] =>
    -- one real waitDetectMessage (MakeHole with an instruction that probes nothing) on a socket where the listed
    -- datagrams are already queued, in order
    match Nat'.roleOf role, unhx sid, (items.splitOn ",").mapM (fun it => unhx sid >>= fun s => dgramOf s it) with
    | some role, some sid, some inbox =>
      -- the property on the implementation's own result (C20.waitLoop_eq_spec, waitLoop_filter_harmless,
      -- foreign_sid_anywhere): the outcome is that of the first datagram that decides BY ITSELF — own key, own sid,
      -- for a sender a response — as if everything else had never arrived; exactly that datagram's source is
      -- answered, with Response = true, iff it was not itself a response
      let spec := wdmStr (C20.specWait role sid (inbox.filter (fun p => C20.decides role sid p.2)))
      (st, verdictOf (wdmStr (waitLoop role sid inbox)) impl (some (impl == spec)))
    | _, _, _ => (st, .bad "pwdm")
  | ["pstart", id, vk, ck, scn] =>
    match id.toNat?, (impl.splitOn ",").mapM (·.toNat?) with
    | some id, some [pv, pc] =>
      ({ st with infos := { id := id, vk := vk, ck := ck, scn := scn, pv := pv, pc := pc } :: st.infos.filter (·.id ≠ id) },
       .agree)
    | some _, _ => (st, .diff "<vport>,<cport>" none)
    | none, _ => (st, .bad "pstart")
  | ["pwait", id] =>
    match id.toNat? with
    | none => (st, .bad "pwait")
    | some id =>
      match st.infos.find? (·.id = id) with
      | none => (st, verdictOf "unknown" impl)
      | some i =>
        if impl.startsWith "skip:" then (st, .skip "receive buffers too small for the many-socket modes on loopback") else
        match impl.splitOn "#" with
        | [vs, cs, out] =>
          if !(vs.startsWith "V=" ∧ cs.startsWith "C=") then (st, .diff "V=…#C=…#v;c" none) else
          match Nat'.respOf (vs.drop 2).toString, Nat'.respOf (cs.drop 2).toString with
          | some v, some c =>
            let sid := Nat'.sidOf id
            let (vMapped, vAssisted) := addrsOf i.vk i.pv
            let (cMapped, cAssisted) := addrsOf i.ck i.pc
            let vm : VMsg := { tid := Str.ofString s!"tv{id}", protocol := Str.ofString "quic", mapped := vMapped, assisted := vAssisted }
            let cm : CMsg := { tid := Str.ofString s!"tc{id}", sid := sid, mapped := cMapped, assisted := cAssisted }
            let aV := loAddr "127.0.0.1" i.pv
            let aC := loAddr "127.0.0.1" i.pc
            let sameKey := !i.scn.contains 'm'
            let pV : Party := { resp := v, addr := aV, noise := noiseOf i.scn sid true 'V' }
            let pC : Party := { resp := c, addr := aC, noise := noiseOf i.scn sid sameKey 'C' }
            let mo :=
              if runs v && runs c then s!"{letter (outcome sameKey pV pC) aC};{letter (outcome sameKey pC pV) aV}"
              else s!"{if runs v then "n" else "x"};{if runs c then "n" else "x"}"
            -- the property on the implementation's own result: the pair of responses is an error pair or a full
            -- instruction pair (C20.fullOk), and honest parties (same key, no insider datagram) that got
            -- instructions have met: each MakeHole returned the other party's address
            -- relational: a receiver listening on many sockets (modes 2 / 4) may be found by the sender's random-port
            -- probing through another of its sockets; `q` = the socket that receiver's own MakeHole chose
            let norm (me peer : Resp) (l : String) : String :=
              if l = "q" && peer.listenRandomPorts > 0 && me.sendRandomPorts > 0 then "p" else l
            let out := match out.splitOn ";" with
              | [a, b] => s!"{norm v c a};{norm c v b}"
              | _ => out
            let honest := sameKey && !i.scn.contains 'i'
            -- the hand-over of a socket's result inside a many-socket MakeHole may be lost (NatPunch.hstep,
            -- C20.handover_lost_witness): that party then returns nothing although it answered.  Between honest
            -- parties this FAILS the property (known finding); otherwise the schedule is accepted as observed.
            let lostOk (me : Resp) (l ml : String) : String :=
              if !honest && l = "n" && me.listenRandomPorts > 0 && me.role ≠ .sender then ml else l
            let out := match out.splitOn ";", mo.splitOn ";" with
              | [a, b], [ma, mb] => s!"{lostOk v a ma};{lostOk c b mb}"
              | _, _ => out
            let impl := s!"{vs}#{cs}#{out}"
            let instr := C20.instrOk sid vm cm v c
            let prop := C20.fullOk sid vm cm v c && (!(honest && instr) || out == "p;p")
            (st, verdictOf s!"{vs}#{cs}#{mo}" impl (some prop))
          | _, _ => (st, .diff "two responses" (some false))   -- a party got no (parsable) response at all
        | _ => (st, .diff "V=…#C=…#v;c" none)
  | _ => (st, .bad "op")

end Punch'

def punch : Engine :=
  { State := Punch'.St, init := {},
    step := fun st tok impl =>
      let (st', v) := Punch'.step st tok impl
      if impl.startsWith "PANIC:" then
        (st', match v with | .diff m _ => .diff m (some false) | .bad w => .bad w | _ => .diff "no-panic" (some false))
      else (st', v) }

end Engines
end Frp
