import Frp.Driver.Proto
import Frp.Props.C18
/-
  Driver engine "conf" (C18), first part (the ops of round 1; `Frp/Engines/Conf.lean` adds the loaders, the
  flags and the client-side validators and registers the engine): replays the harness trace on the record model interpreting the
  regenerated marshal/unmarshal tables, on the textual-quantity models and on the validation model,
  and evaluates the C18 predicates on the implementation's own answers.
-/
namespace Frp
namespace Engines
open Proto ProxyMsg Gen.ProxyMsg ConfNum Validate

namespace Conf

def hexOf (s : Str) : String := String.ofList (s.flatMap (fun b => [hexDigit (b / 16), hexDigit (b % 16)]))
def unhex (s : String) : Option Str := unhexAux s.toList

def splitFirst (s : String) (sep : String) : Option (String × String) :=
  match s.splitOn sep with
  | [] => none
  | [_] => none
  | a :: rest => some (a, sep.intercalate rest)

def tailStr (s : String) : String := String.ofList (s.toList.drop 1)

def parseValue (s : String) : Option Value :=
  if s = "z" then some .zero else
  match s.toList with
  | 's' :: _ => (unhex (tailStr s)).map .str
  | 'b' :: _ => some (.bool true)
  | 'i' :: _ => (tailStr s).toInt?.map .int
  | 'L' :: _ =>
    match splitFirst (tailStr s) ":" with
    | some (n, body) =>
      if n = "0" then some (.strs []) else (body.splitOn ",").mapM unhex |>.map .strs
    | none => none
  | 'M' :: _ =>
    match splitFirst (tailStr s) ":" with
    | some (n, body) =>
      if n = "0" then some (.smap []) else
        ((body.splitOn ",").mapM fun (kv : String) =>
          match kv.splitOn "~" with
          | [k, v] => do pure ((← unhex k), (← unhex v))
          | _ => none) |>.map .smap
    | none => none
  | 'q' :: _ =>
    match splitFirst (tailStr s) ":" with
    | some (h, b) => do pure (.bw (← unhex h) (← b.toInt?))
    | none => none
  | _ => none

def renderValue (v : Value) : String :=
  match v.canon with
  | .zero => "z"
  | .str s => "s" ++ hexOf s
  | .bool true => "b1"
  | .bool false => "z"
  | .int i => "i" ++ toString i
  | .strs l => s!"L{l.length}:" ++ ",".intercalate (l.map hexOf)
  | .smap m => s!"M{m.length}:" ++ ",".intercalate (m.map fun (k, v) => hexOf k ++ "~" ++ hexOf v)
  | .bw s i => "q" ++ hexOf s ++ ":" ++ toString i

def cfOfName (n : String) : Option CF := CF.all.find? (fun f => f.name = n)
def ptOfName (n : String) : Option PT := PT.all.find? (fun t => t.name = n)

def parseKVs (kvs : List String) : Option (List (CF × Value)) :=
  kvs.mapM fun (kv : String) =>
    match splitFirst kv "=" with
    | some (k, v) => do pure ((← cfOfName k), (← parseValue v))
    | none => none

def recOf (kvs : List (CF × Value)) : Rec CF := kvs.foldl (fun r (k, v) => r.set k v) Rec.empty

/-- what the JSON wire (omitempty) does to a value: empty slices and maps arrive as nil -/
def wireNorm : Value → Value
  | .strs [] => .zero
  | .smap [] => .zero
  | v => v

def mapVals (f : Value → Value) (r : Rec CF) : Rec CF := ⟨r.items.map fun (k, v) => (k, f v)⟩

def bwSupported (v : Value) : Bool :=
  match v with
  | .bw s _ => parseBW s != .unsupported
  | _ => true

def rtStep (wire : Bool) (tname : String) (kvs : List String) (impl : String) : Verdict :=
  match ptOfName tname, parseKVs kvs with
  | some t, some kv =>
    let c0 := recOf kv
    if !bwSupported (c0.get .cTransport_BandwidthLimit) then .skip "bandwidth-literal-outside-model" else
    let c := if wire then mapVals wireNorm c0 else c0
    let keys := kv.map (·.1)
    let typed := decide (c.get .cType = .str t.bytes)
    let model :=
      match serverRecon (marshal (marshalTable t) c) with
      | none => "err:type"
      | some (t', c') =>
        if t' ≠ t then "err:othertype:" ++ t'.name
        else " ".intercalate ("ok" :: keys.map fun k => k.name ++ "=" ++ renderValue (c'.get k))
    -- the property predicate on the implementation's own reconstruction
    let prop : Option Bool :=
      if !typed then none else
      match impl.splitOn " " with
      | "ok" :: rest =>
        match parseKVs rest with
        | some ikv => some (C18.rtHoldsOn t c (recOf ikv))
        | none => none
      | _ => some false
    verdictOf model impl prop
  | _, _ => .bad "rt"

def parseRangeTok (s : String) : Option (List PortsRange) :=
  if s = "-" then some [] else
  (s.splitOn ",").mapM fun (p : String) =>
    match p.splitOn ":" with
    | [a, b, c] => do pure ⟨(← a.toInt?), (← b.toInt?), (← c.toInt?)⟩
    | _ => none

def renderRanges (rs : List PortsRange) : String :=
  ",".intercalate (rs.map fun r => s!"{r.start}:{r.stop}:{r.single}")

def renderInts (ns : List Int) : String := ",".intercalate (ns.map toString)

def parseHexList (s : String) : Option (List Str) :=
  if s = "-" then some [] else (s.splitOn ",").mapM unhx

def step (_ : Unit) (tok : List String) (impl : String) : Unit × Verdict :=
  ((), match tok with
  | ["reset"] => verdictOf "-" impl
  | "rt" :: w :: t :: kvs => rtStep (w = "1") t kvs impl
  | ["prs", s] =>
    match unhx s with
    | some s =>
      if !Str.isAscii s then .skip "non-ascii" else
      verdictOf (match parseRanges s with | some rs => "ok " ++ renderRanges rs | none => "err") impl
    | none => .bad "prs"
  | ["prstr", rs] =>
    match parseRangeTok rs with
    | some rs =>
      let prop := (unhx impl).map fun out => C18.printHoldsOn rs out
      verdictOf (hx (printRanges rs)) impl prop
    | none => .bad "prstr"
  | ["prrt", rs] =>
    match parseRangeTok rs with
    | some rs =>
      let model := match parseRanges (printRanges rs) with | some r => "ok " ++ renderRanges r | none => "err"
      -- the round trip as a predicate on the implementation's answer
      let prop := C18.rtRangesHoldsOn rs (if impl = "ok " ++ renderRanges rs then some rs else none)
      verdictOf model impl (some prop)
    | none => .bad "prrt"
  | ["prn", s] =>
    match unhx s with
    | some s =>
      if !Str.isAscii s then .skip "non-ascii" else
      verdictOf (match parseRangeNumbers s with | some ns => "ok " ++ renderInts ns | none => "err") impl
    | none => .bad "prn"
  | ["pair", a, b] =>
    match unhx a, unhx b with
    | some a, some b =>
      if !Str.isAscii a || !Str.isAscii b then .skip "non-ascii" else
      verdictOf (match parseNumberRangePair a b with
        | some ps => "ok " ++ ",".intercalate (ps.map fun (x, y) => s!"{x}:{y}")
        | none => "err") impl
    | _, _ => .bad "pair"
  | ["bw", s] =>
    match unhx s with
    | some s =>
      if !Str.isAscii s then .skip "non-ascii" else
      match parseBW s with
      | .unsupported => .skip "float-syntax-outside-model"
      | r =>
        let model := match r with
          | .ok s' b => s!"ok {hx s'} {b}"
          | .empty => "ok x 0"
          | _ => "err"
        -- the textual form the implementation reports re-parses to the same quantity
        let prop : Option Bool :=
          match impl.splitOn " " with
          | ["ok", s', b] =>
            match unhx s', b.toInt? with
            | some s', some b => some (C18.bwHoldsOn s' b)
            | _, _ => none
          | _ => none
        verdictOf model impl prop
    | none => .bad "bw"
  | ["port", p] =>
    match p.toInt? with
    | some p => verdictOf (if validatePort p then "ok" else "err") impl (some (C18.portHoldsOn p (impl = "ok")))
    | none => .bad "port"
  | ["dom", h, s, ds, uc] =>
    match unhx h, unhx s, parseHexList ds with
    | some h, some s, some ds =>
      let hasUpper := (h :: ds).any (fun n => n.any (fun c => 65 ≤ c && c ≤ 90))
      if uc ≠ (if hasUpper then "uc=1" else "uc=0") then .bad "dom: uc flag does not match the names" else
      let model := match validateDomainCurrent h ds s with
        | none => "ok"
        | some .belongs => "belongs"
        | some .noSubHost => "nosub"
        | some .badChars => "chars"
      let prop := if Str.isAscii h && ds.all Str.isAscii then some (C18.domainHoldsOn h ds (impl = "ok")) else none
      verdictOf model impl prop
    | _, _, _ => .bad "dom"
  | ["fmt", _, strict, inj] =>
    -- differential only: the three third-party parsers are not modelled
    let want := if strict = "1" && inj = "1" then "same err" else "same ok"
    verdictOf want impl (some (impl = want))
  | ["tmpl", _] => verdictOf "same" impl (some (impl = "same"))
  | _ => .bad "op")

end Conf

end Engines
end Frp
