import Frp.Driver.Proto
import Frp.Engines.VReg
import Frp.Props.C10Group
/-
  Driver engine "grprel" (C10): replays the harness trace of real Control.RegisterProxy / CloseProxy /
  session end for http proxies with and without a load-balancing group on Frp/Model/GroupRelease.lean
  and judges every answer on the live proxies alone (`C10.Group.CanRegister`, `C10.Group.liveKeys`):
  a refusal must be justified by a live proxy, the route table and the group table must be exactly what
  the live proxies stand for.
-/
namespace Frp
namespace Engines
open Proto Router Str VhostReg GroupRel

def gpSubHost : Str := Str.ofString "sub.test"

structure GrpRelState where
  g : GState := GState.init

def gpRes : RegRes → String
  | .ok => "ok" | .exists_ => "err:exists" | .err e => "err:" ++ vregErr e

def gpCfg (name ds sub ls u g gk : String) : Option Cfg :=
  match vregList ds, unhx sub, vregList ls, unhx u, unhx g, unhx gk with
  | some ds, some sub, some ls, some u, some g, some gk =>
    some { name := Str.ofString name, domains := ds, sub := sub, locations := ls, user := u, group := g,
           groupKey := gk }
  | _, _, _, _, _, _ => none

def gpRouteKey (k : Str × Str × Str) : Str := k.1 ++ vregBar :: k.2.1 ++ vregBar :: k.2.2

/-- "g=m+m,…" for the groups that have members; `gs` = (group name, member names) -/
def gpRenderGroups (gs : List (Str × List Str)) : String :=
  let names := vregSort ((gs.filter (fun e => e.2 ≠ [])).map (·.1)).eraseDups
  ",".intercalate (names.map (fun n =>
    let ms := (gs.filter (fun e => e.1 = n)).flatMap (·.2)
    hx n ++ "=" ++ "+".intercalate ((vregSort ms.eraseDups).map hx)))

/-- the group table of the model: every name ever stored, read through `get` -/
def gpModelGroups (G : Groups) : List (Str × List Str) :=
  ((G.tbl.map (·.1)).eraseDups).filterMap (fun n =>
    match G.get n with
    | some g => some (n, g.members.map (·.1))
    | none => none)

def gpRender (http : List Str) (names : List Str) (groups : List (Str × List Str)) : String :=
  s!"http[{vregRenderKeys http}]names[{",".intercalate ((vregSort names).map hx)}]groups[{gpRenderGroups groups}]"

def gpRenderModel (s : GState) : String :=
  gpRender ((vregStored s.st.tab.R).map vregKey) (s.owner.map (·.name)) (gpModelGroups s.st.tab.G)

/-- SPEC: the view computed from a set of live proxies alone -/
def gpRenderLive (live : List Rec) : String :=
  gpRender ((C10.Group.liveKeys gpSubHost live).map gpRouteKey) (live.map (·.name))
    ((live.filter (fun r => r.cfg.group ≠ [] ∧ triples gpSubHost r.cfg ≠ [])).map
      (fun r => (r.cfg.group, [r.name])))

/-- the names section of the implementation's view -/
def gpImplNames (v : String) : Option (List Str) :=
  match v.splitOn "]names[" with
  | [_, rest] =>
    let body := (rest.splitOn "]groups[").headD ""
    if body = "" then some [] else (body.splitOn ",").mapM unhx
  | _ => none

/-- property on the implementation's own view: route table and group table are exactly what the proxies
    it still lists as live stand for (nothing orphaned, nothing missing), and it lists no unknown proxy -/
def gpViewHolds (s : GState) (impl : String) : Option Bool :=
  (gpImplNames impl).map (fun names =>
    let live := s.owner.filter (fun r => names.contains r.name)
    decide (impl = gpRenderLive live))

/-- a refusal must be justified by the live proxies -/
def gpRegHolds (live : List Rec) (c : Cfg) (impl : String) : Bool :=
  if impl = "ok" then true
  else if impl = "err:exists" then live.any (fun r => r.name = c.name)
  else !decide (C10.Group.CanRegister gpSubHost live c)

def grpRelCore (st : GrpRelState) (tok : List String) (impl : String) : GrpRelState × Verdict :=
  match tok with
  | ["reset"] => ({}, verdictOf "-" impl)
  | ["reg", sid, name, ds, sub, ls, u, g, gk] =>
    match sid.toNat?, gpCfg name ds sub ls u g gk with
    | some sid, some c =>
      let (s', r) := st.g.register gpSubHost sid c
      ({ g := s' }, verdictOf (gpRes r) impl (some (gpRegHolds st.g.owner c impl)))
    | _, _ => (st, .bad "reg")
  | ["close", sid, name] =>
    match sid.toNat? with
    | some sid => ({ g := st.g.close sid (Str.ofString name) }, verdictOf "-" impl)
    | none => (st, .bad "close")
  | ["endsess", sid] =>
    match sid.toNat? with
    | some sid => ({ g := st.g.sessionEnd sid }, verdictOf "-" impl)
    | none => (st, .bad "endsess")
  | ["race", sidL, leaver, sidJ, name, ds, sub, ls, u, g, gk] =>
    match sidL.toNat?, sidJ.toNat?, gpCfg name ds sub ls u g gk with
    | some sidL, some sidJ, some c =>
      if sidL = sidJ then (st, verdictOf "samesess" impl) else
      -- HTTPGroupController.Register / UnRegister and Routers.Add / Del are critical sections: the close and
      -- the registration take effect in one of the two orders (relational: the answer tells which)
      let lv := Str.ofString leaver
      let s1 := st.g.close sidL lv
      let (sLJ, rLJ) := s1.register gpSubHost sidJ c
      let (s2, rJL) := st.g.register gpSubHost sidJ c
      let sJL := s2.close sidL lv
      let prop := gpRegHolds s1.owner c impl || gpRegHolds st.g.owner c impl
      if impl = gpRes rLJ then ({ g := sLJ }, verdictOf (gpRes rLJ) impl (some prop))
      else if impl = gpRes rJL then ({ g := sJL }, verdictOf (gpRes rJL) impl (some prop))
      else ({ g := sLJ }, verdictOf (gpRes rLJ) impl (some prop))
    | _, _, _ => (st, .bad "race")
  | ["view"] => (st, verdictOf (gpRenderModel st.g) impl (gpViewHolds st.g impl))
  | _ => (st, .bad "op")

/-- an op the implementation did not answer (bounded wait expired, world abandoned, panic) is a difference
    the property predicate does not speak about -/
def grpRelStep (st : GrpRelState) (tok : List String) (impl : String) : GrpRelState × Verdict :=
  if impl = "timeout" ∨ impl = "poisoned" ∨ impl.startsWith "PANIC:" then
    ((grpRelCore st tok impl).1, .diff "an-answer" none)
  else grpRelCore st tok impl

def grprel : Engine := { State := GrpRelState, init := {}, step := grpRelStep }

end Engines
end Frp
