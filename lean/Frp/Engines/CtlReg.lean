import Frp.Driver.Proto
import Frp.Engines.Client
import Frp.Props.C19Ctl
/-
  Driver engine "ctlreg" (C19, Part C): the real client.Control on a control connection with a scripted
  server that queues its answers (harness/eng_ctlreg.go).  The model is Reconcile.Mgr + CtlReg.handleResp
  (the handler) + CtlReg.srvRecvAll (the server's table) + the queue; the C19 predicates of
  Props/C19Ctl.lean are evaluated per proxy name on what the IMPLEMENTATION reports:

   * `syncObsOK`  status vs. the last message about the name that reached the server (all schedules);
   * `tableObsOK` status vs. the server's table, for every name whose replies so far were truthful when they
     met a waiting wrapper (`C19.reg_inv_run`); a delivery that is not (an answer applied to a later
     request than the one it answers and contradicting the table: `C19.stale_reply_witness`) takes the name
     out of this clause until its next CloseProxy, which re-establishes the invariant.
-/
namespace Frp
namespace Engines
open Proto Wrapper Reconcile CtlReg

structure CtlRegState where
  live : Bool := false
  m : Mgr := Reconcile.init
  held : List Nat := []
  q : List Reply := []
  ilast : List (Nat × Msg) := []     -- last message per name as the implementation's server saw it
  taint : List Nat := []

def crInsert (x : Reply) : List Reply → List Reply
  | [] => [x]
  | y :: ys => if x.1 < y.1 then x :: y :: ys else y :: crInsert x ys

/-- stable sort by name -/
def crSortReplies (l : List Reply) : List Reply := l.foldl (fun acc x => crInsert x acc) []

def crNames (ev : List (Nat × Msg)) : List Nat := sortNat (dedupNat (ev.map (·.1)))

def crRenderEv (ev : List (Nat × Msg)) : String :=
  joinOrDash ((crNames ev).map (fun n => s!"{n}:" ++ String.join ((ev.filter (·.1 == n)).map (fun x => msgChar x.2))))

def crRenderSt (m : Mgr) : String :=
  joinOrDash (sortStrings (m.proxies.map (fun w => s!"{w.cfg.name}:{phaseTok w.phase}")))

def crRenderHeld (h : List Nat) : String := joinOrDash ((sortNat h).map toString)

def crRenderQ (q : List Reply) : String :=
  joinOrDash (q.map (fun r => s!"{r.1}+" ++ (if r.2 then "o" else "e")))

def crRender (st : CtlRegState) (ev : List (Nat × Msg)) : String :=
  s!"ev={crRenderEv ev};st={crRenderSt st.m};held={crRenderHeld st.held};q={crRenderQ st.q}"

/-! ### the implementation's answer -/

structure CrObs where
  ev : List (Nat × List Msg)
  st : List (Nat × Phase)
  held : List Nat

def crParseSeq (s : String) : Option (List Msg) :=
  (parseSeq s.toList).map (fun l => l.map (·.1))

def crParseList {α} (f : String → Option α) (s : String) : Option (List α) :=
  if s == "-" then some [] else parseAll f (s.splitOn ",")

def crParse (impl : String) : Option CrObs :=
  match impl.splitOn ";" with
  | [e, s, h, q] =>
    if !(e.startsWith "ev=" && s.startsWith "st=" && h.startsWith "held=" && q.startsWith "q=") then none else do
    let ev ← crParseList (fun t => match t.splitOn ":" with
      | [n, sq] => do let n ← n.toNat?; let sq ← crParseSeq sq; pure (n, sq)
      | _ => none) (e.drop 3).toString
    let st ← crParseList (fun t => match t.splitOn ":" with
      | [n, ph] => do let n ← n.toNat?; let ph ← parsePhase ph; pure (n, ph)
      | _ => none) (s.drop 3).toString
    let held ← crParseList (fun t => t.toNat?) (h.drop 5).toString
    -- the queue is the harness' own bookkeeping; it must be well-formed
    let _ ← crParseList (fun t => match t.splitOn "+" with
      | [n, c] => if c == "o" || c == "e" then n.toNat? else none
      | _ => none) (q.drop 2).toString
    pure { ev := ev, st := st, held := held }
  | _ => none

def crSetLast (l : List (Nat × Msg)) (n : Nat) (m : Msg) : List (Nat × Msg) :=
  (n, m) :: l.filter (·.1 != n)

def crUpdLast (l : List (Nat × Msg)) (ev : List (Nat × List Msg)) : List (Nat × Msg) :=
  ev.foldl (fun acc (n, sq) => match sq.getLast? with
    | some m => crSetLast acc n m
    | none => acc) l

/-- the two C19 predicates on the implementation's observation, for every name that occurs anywhere -/
def crHoldsOn (ilast : List (Nat × Msg)) (taint : List Nat) (o : CrObs) : Bool :=
  let names := dedupNat (o.st.map (·.1) ++ ilast.map (·.1) ++ o.held)
  names.all (fun n =>
    let ph := (o.st.find? (·.1 == n)).map (·.2)
    let last := (ilast.find? (·.1 == n)).map (·.2)
    C19.syncObsOK ph last && (taint.contains n || C19.tableObsOK ph (o.held.contains n)))

/-! ### one op on the model -/

def crAcc (t : String) : Option Bool := if t == "a" then some true else if t == "r" then some false else none

/-- after the client's part of an op: the server takes the messages, answers are queued by name, taint is
    lifted from every name that was closed; then compare and judge -/
def crFinish (st : CtlRegState) (m' : Mgr) (ev : List (Nat × Msg)) (acc : Bool) (q : List Reply)
    (taintNew : List Nat) (impl : String) : CtlRegState × Verdict :=
  let r := srvRecvAll acc st.held ev
  let closed := (ev.filter (·.2 == Msg.closeProxy)).map (·.1)
  let taint := (taintNew ++ st.taint).filter (fun n => !closed.contains n)
  let obs := crParse impl
  let ilast := match obs with
    | some o => crUpdLast st.ilast o.ev
    | none => st.ilast
  let st' : CtlRegState := { live := true, m := m', held := r.1, q := q ++ crSortReplies r.2, ilast := ilast, taint := taint }
  (st', verdictOf (crRender st' ev) impl (obs.map (crHoldsOn ilast taint)))

/-- a NewProxyResp (name, success) written to the client at `now` -/
def crReply (st : CtlRegState) (r : Reply) (now : Nat) (acc : Bool) (q : List Reply) (impl : String) :
    CtlRegState × Verdict :=
  let untruthful : Bool := match Reconcile.find st.m r.1 with
    | some w => w.phase == .waitStart && r.2 != st.held.contains r.1
    | none => false
  let h := handleResp onStartResult st.m r.1 now (!r.2)
  crFinish st h.1 (h.2.1.map (fun x => (r.1, x))) acc q (if untruthful then [r.1] else []) impl

def crRemoveAt {α} : List α → Nat → List α
  | [], _ => []
  | _ :: xs, 0 => xs
  | x :: xs, k + 1 => x :: crRemoveAt xs k

def ctlregStep (st : CtlRegState) (tok : List String) (impl : String) : CtlRegState × Verdict :=
  match tok with
  | ["reset"] => ({}, verdictOf "-" impl)
  | ["witness", "stale"] =>
    -- the schedule of `C19.stale_reply_witness` on the real code: the model's answer is the per-name machine's,
    -- the judgement is the table clause WITHOUT exemption (a KNOWN finding of the code as it is)
    let s := regRun {} (C19.staleSchedule ++ [(.ev (.tick 100000), true)])
    let ph := s.w.map (·.phase)
    let model := "st=" ++ (match ph with | some p => s!"1:{phaseTok p}" | none => "-") ++
      ";held=" ++ (if s.held then "1" else "-")
    let obs : Option Bool := match impl.splitOn ";" with
      | [a, b] =>
        if a.startsWith "st=" && b.startsWith "held=" then
          match parseStatus (a.drop 3).toString, crParseList (fun t => t.toNat?) (b.drop 5).toString with
          | some st, some held => some (C19.tableObsOK ((st.find? (·.1 == 1)).map (·.2)) (held.contains 1))
          | _, _ => none
        else none
      | _ => none
    ({}, verdictOf model impl obs)
  | "start" :: now :: acc :: cs =>
    match now.toNat?, crAcc acc, parseAll parseCfg cs with
    | some now, some acc, some cfgs =>
      let (m', _, ev) := updateAll Reconcile.init cfgs now
      crFinish {} m' ev acc [] [] impl
    | _, _, _ => (st, .bad "start")
  | _ =>
  if !st.live then (st, verdictOf "nosession" impl) else
  match tok with
  | "upd" :: now :: acc :: cs =>
    match now.toNat?, crAcc acc, parseAll parseCfg cs with
    | some now, some acc, some cfgs =>
      let (m', _, ev) := updateAll st.m cfgs now
      crFinish st m' ev acc st.q [] impl
    | _, _, _ => (st, .bad "upd")
  | [op, n, now, acc] =>
    if op == "tick" || op == "hup" || op == "hdown" then
      match n.toNat?, now.toNat?, crAcc acc with
      | some n, some now, some acc =>
        match Reconcile.find st.m n with
        | none => crFinish st st.m [] acc st.q [] impl
        | some w =>
          if op != "tick" && !w.cfg.health then (st, verdictOf "nohealth" impl) else
          let es : List Event := if op == "tick" then [.tick now]
            else if op == "hup" then [.healthUp, .tick now] else [.healthDown, .tick now]
          let (m', ms, _) := deliverEvents st.m n es
          crFinish st m' (ms.map (fun x => (n, x))) acc st.q [] impl
      | _, _, _ => (st, .bad op)
    else if op == "deliver" || op == "dup" then
      match n.toNat?, now.toNat?, crAcc acc with
      | some k, some now, some acc =>
        let k := k % st.q.length     -- (the index wraps round the queue)
        match st.q[k]? with
        | none => (st, verdictOf "noreply" impl)
        | some r => crReply st r now acc (if op == "deliver" then crRemoveAt st.q k else st.q) impl
      | _, _, _ => (st, .bad op)
    else (st, .bad "op")
  | ["drop", k] =>
    match k.toNat? with
    | some k =>
      let k := k % st.q.length
      match st.q[k]? with
      | none => (st, verdictOf "noreply" impl)
      | some _ => crFinish st st.m [] true (crRemoveAt st.q k) [] impl
    | none => (st, .bad "drop")
  | ["forge", n, v, now, acc] =>
    match n.toNat?, now.toNat?, crAcc acc with
    | some n, some now, some acc =>
      if v != "ok" && v != "err" then (st, .bad "forge") else
      crReply st (n, v == "ok") now acc st.q impl
    | _, _, _ => (st, .bad "forge")
  | _ => (st, .bad "op")

def ctlreg : Engine := { State := CtlRegState, init := {}, step := ctlregStep }

end Engines
end Frp
