import Frp.Driver.Proto
import Frp.Model.PoolEnd
/-
  Ops `pe…` of the driver engine "pool" (C11): replays harness/eng_pool_end.go on the pool-teardown model
  `Frp.PoolEnd`, running the worker's program AS REGENERATED from the source (`PoolEnd.sourceProg`, `sourceCfg`).
  The property predicate (`censusClean`: no accepted connection is left open once the session has ended) is
  evaluated on the implementation's own census.
-/
namespace Frp
namespace Engines
namespace PoolEndEng
open Proto PoolEnd

structure PSess where
  st : St := {}
  accepted : List Nat := []   -- RegisterWorkConn returned nil
  proxy : Bool := false
  ended : Bool := false

structure PEState where
  sess : List (String × PSess) := []

def PEState.get (ps : PEState) (sid : String) : Option PSess := ps.sess.lookup sid
def PEState.set (ps : PEState) (sid : String) (p : PSess) : PEState := { ps with sess := (sid, p) :: ps.sess }

def idOf (t : String) : Option Nat := (String.ofList (t.toList.drop 1)).toNat?

/-- the worker runs as far as it can (each drain round is a step: the fuel covers program + buffer) -/
def runWorker : Nat → St → St
  | 0, s => s
  | n + 1, s => match step sourceCfg s .worker with
    | some (s', _) => runWorker n s'
    | none => s

def census (p : PSess) : String :=
  let live := p.accepted.filter (fun c => p.st.c.get c ≠ some .handed)
  let closed := live.filter (fun c => p.st.c.get c = some .closed)
  s!"w={closed.length}/{live.length - closed.length}"

/-- `[done:]w=<closed>/<open>` with open = 0 -/
def censusClean (impl : String) : Bool :=
  match (impl.splitOn "w=") with
  | [_, r] => match r.splitOn "/" with
    | [a, b] => a.toNat?.isSome && b == "0"
    | _ => false
  | _ => false

def finish (ps : PEState) (sid : String) (p : PSess) (s : St) : PEState × String :=
  let s := runWorker (s.rest.length + s.buf.length + 4) s
  let p := { p with st := s, ended := true }
  if s.rest = [] then (ps.set sid p, "done:" ++ census p) else (ps.set sid p, "blocked")

def peOp (ps : PEState) (tok : List String) (impl : String) : Option (PEState × String × Option Bool) :=
  match tok with
  | ["pereset"] => some ({}, "-", none)
  | ["pelogin", sid, pool] => do
    let pool ← pool.toInt?
    -- NewControl: min with MaxPoolCount (5 after Complete), negative clamped; make(chan, poolCount+10)
    let pc := Pool.clampPoolCount Pool.current.clampPoolCount (Pool.newPoolCount pool 5)
    pure (ps.set sid { st := init (Pool.capOf pc) sourceProg }, "ok", none)
  | ["peproxy", sid] => do
    let p ← ps.get sid
    if p.proxy then pure (ps, "err", none) else pure (ps.set sid { p with proxy := true }, "ok", none)
  | ["peoffer", sid, wid] => do
    let p ← ps.get sid
    let c ← idOf wid
    match step sourceCfg p.st (.offer c) with
    | some (s, .pooled) =>
      pure (ps.set sid { p with st := s, accepted := p.accepted ++ [c] }, "P", some (impl == "P" || impl == "R" || impl == "E"))
    | some (s, .refused) => pure (ps.set sid { p with st := s }, "R", some (impl == "P" || impl == "R" || impl == "E"))
    | some (s, .closedErr) => pure (ps.set sid { p with st := s }, "E", some (impl == "P" || impl == "R" || impl == "E"))
    | some (s, _) => pure (ps.set sid { p with st := s }, "L", some false)
    | none => none
  | ["petake", sid] => do
    let p ← ps.get sid
    match step sourceCfg p.st .take with
    | some (s, .got c) => pure (ps.set sid { p with st := s }, s!"got:w{c}", none)
    | _ => pure (ps, "err", none)
  | ["pehold", sid] => do
    let p ← ps.get sid
    match (if p.proxy then step sourceCfg p.st .otherLock else none) with
    | some (s, _) => pure (ps.set sid { p with st := s, proxy := false }, "held", none)
    | none => pure (ps, "nohold", none)
  | ["peend", sid] => do
    let p ← ps.get sid
    let (ps, r) := finish ps sid p p.st
    pure (ps, r, if r = "blocked" then none else some (censusClean impl))
  | ["perelease", sid] => do
    let p ← ps.get sid
    match step sourceCfg p.st .otherUnlock with
    | some (s, _) =>
      if !p.ended then pure (ps.set sid { p with st := s }, "alive", none) else
      let (ps, r) := finish ps sid p s
      pure (ps, r, if r = "blocked" then none else some (censusClean impl))
    | none => pure (ps, "nohold", none)
  | ["pecensus", sid] => do
    let p ← ps.get sid
    pure (ps, census p, if p.ended ∧ p.st.rest = [] then some (censusClean impl) else none)
  | ["perace", _, _, _] =>
    -- `source_none_parked`: whatever the interleaving, nothing is left in the pool of an ended session
    some (ps, "clean", some (impl == "clean"))
  | _ => none

end PoolEndEng
end Engines
end Frp
