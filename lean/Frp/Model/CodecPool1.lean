import Frp.Model.Str
/-
  C01 — the pooled snappy reader / writer of a compressed connection.

    golib io.WithCompressionFromPool(rwc)   `sr := pool.GetSnappyReader(rwc); sw := pool.GetSnappyWriter(rwc)`;
                                            returns the wrapper and `recycleFn = { PutSnappyReader(sr); PutSnappyWriter(sw) }`
    golib pool (sync.Pool)                  Get: some pooled object (then `Reset` onto the new connection) or a new one;
                                            Put: the object goes back — sync.Pool does not look for duplicates
    client/proxy/proxy.go HandleTCPWorkConnection, server/proxy/proxy.go handleUserTCPConnection,
    client/visitor/{stcp,xtcp}.go handleConn    take the codec when a connection starts, run `recycleFn` when it ends

  A codec object holds the stream state of ONE connection (and is `Reset` onto the connection that gets it); two live
  connections holding the same object read each other's wire and write into each other's wire.
-/
namespace Frp
namespace CodecPool1

structure St where
  pool : List Nat := []              -- objects in the pool (a multiset: Put appends whatever it is given)
  live : List Nat := []              -- the codec object held by each live compressed connection (newest first)
  next : Nat := 0                    -- objects created so far
  deriving DecidableEq, Repr

inductive Op
  | start (pick : Nat)                   -- a compressed connection starts; `pick` = which pooled object Get returns
  | finish (idx : Nat) (recycles : Nat)  -- the idx-th live connection ends; its handler runs `recycleFn` that many times
  deriving DecidableEq, Repr

def putN (pool : List Nat) (o : Nat) : Nat → List Nat
  | 0 => pool
  | n + 1 => putN (pool ++ [o]) o n

def step (s : St) : Op → St
  | .start pick =>
    match s.pool[pick % (s.pool.length + 1)]? with
    | some o => { s with pool := s.pool.eraseIdx (pick % (s.pool.length + 1)), live := o :: s.live }
    | none => { s with live := s.next :: s.live, next := s.next + 1 }     -- pool.New
  | .finish idx r =>
    match s.live[idx]? with
    | some o => { s with live := s.live.eraseIdx idx, pool := putN s.pool o r }
    | none => s

def run (ops : List Op) : St := ops.foldl step {}

/-- every handler recycles at most once -/
def onceOnly : List Op → Bool
  | [] => true
  | .finish _ r :: rest => decide (r ≤ 1) && onceOnly rest
  | _ :: rest => onceOnly rest

end CodecPool1
end Frp
