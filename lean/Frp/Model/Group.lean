import Frp.Model.Str
/-
  Model of the three load-balancing group controllers
    server/group/tcp.go     TCPGroupCtl / TCPGroup / TCPGroupListener
    server/group/http.go    HTTPGroupController / HTTPGroup
    server/group/tcpmux.go  TCPMuxGroupCtl / TCPMuxGroup / TCPMuxGroupListener
  as ONE small-step transition system (the three files share the skeleton; what differs is the
  parameter comparison, the endpoint resource and the way a leave finds its object).

  A label is one atomic action of the Go code:
    lookup m g    controller lock: `groups[g]`, or a fresh object inserted under g      (…Ctl.Listen / Register, first half)
    enter  m …    group lock: `TCPGroup.Listen` / `HTTPGroup.Register` / `HTTPConnectListen`
    leaveL m gid  tcp/tcpmux `…GroupListener.Close` → `CloseListener` (group lock, then controller lock inside RemoveGroup)
    leaveG m g    http `HTTPGroupController.UnRegister` (controller lock held over the group lock)
    leaveEdit m gid   the leave's FIRST section alone: the group-lock part of `CloseListener` / `HTTPGroup.UnRegister`
                  (member removed; last member: channel closed, listener closed / route deleted, port released)
    leaveDel m    the leave's SECOND section: `delete(ctl.groups, name)` for the object this leave has emptied.
                  `leaveL` / `leaveG` are the two run back to back (C13.leaveL_eq_sections / leaveG_eq_sections);
                  whether anything of another join or leave can come BETWEEN them is decided by `Fix.leaveOne`
                  = "the controller lock is held across both" (regenerated from the source: Frp/Gen/GroupFacts.lean)
    accept c gid  connection c completed its handshake with the group's real listener: it is in the
                  kernel backlog or already in the worker's hands (`tcpLn.Accept()` returned it)
    handoff c m   the worker's `acceptCh <- c` inside `PanicToError`, received by member m which is
                  inside `TCPGroupListener.Accept` at that moment (rendezvous: the channel is unbuffered)
    send c        the same send completing WITHOUT a receiver, into the channel's buffer — enabled only
                  while fewer than `cap` connections are buffered, i.e. never for `make(chan net.Conn)`
    recv m gid    member m's `<-ln.group.Accept()` taking the oldest buffered connection
    request gid   http `createConn` / `chooseEndpoint` (atomic index increment, RLock)
    squat/unsquat another process / a non-group proxy takes or frees an endpoint (port or route)

  The code is modelled AS IT IS at the pinned tree (`pinned`); the three proposed repairs are
  switches of `Fix` (`repaired`).  `current` is what the correspondence engine runs.
-/
namespace Frp
namespace Group
open Str

inductive Kind | tcp | http | mux
deriving DecidableEq, Repr, Inhabited

/-- the public endpoint parameters a join presents (exactly the fields the Go code compares) -/
inductive Params
  | tcp (addr : Str) (port : Nat)                        -- ProxyBindAddr, RemotePort
  | http (domain location user : Str)                    -- RouteConfig.Domain/Location/RouteByHTTPUser (Username/Password are NOT compared)
  | mux (domain user username password : Str)            -- Domain/RouteByHTTPUser/Username/Password
deriving DecidableEq, Repr

instance : Inhabited Params := ⟨.tcp [] 0⟩

def Params.kind : Params → Kind
  | .tcp .. => .tcp
  | .http .. => .http
  | .mux .. => .mux

inductive Err
  | paramsInvalid    -- ErrGroupParamsInvalid
  | differentPort    -- ErrGroupDifferentPort
  | authFailed       -- ErrGroupAuthFailed
  | repeated         -- ErrProxyRepeated (http only)
  | acquire          -- ports.Manager.Acquire failed
  | listen           -- net.Listen failed
  | conflict         -- vhost.ErrRouterConfigConflict
deriving DecidableEq, Repr

/-- what a non-first join is compared with, in the order of the Go code
    (tcp.go `Listen` else-branch; http.go `Register` else-branch; tcpmux.go `HTTPConnectListen` else-branch) -/
def cmp (oname okey : Str) (op : Params) (g key : Str) (p : Params) : Option Err :=
  match op, p with
  | .tcp a pt, .tcp a' pt' =>
    if oname ≠ g ∨ a ≠ a' then some .paramsInvalid
    else if pt ≠ pt' then some .differentPort
    else if okey ≠ key then some .authFailed else none
  | .http d l u, .http d' l' u' =>
    if oname ≠ g ∨ d ≠ d' ∨ l ≠ l' ∨ u ≠ u' then some .paramsInvalid
    else if okey ≠ key then some .authFailed else none
  | .mux d u n w, .mux d' u' n' w' =>
    if oname ≠ g ∨ d ≠ d' ∨ u ≠ u' ∨ n ≠ n' ∨ w ≠ w' then some .paramsInvalid
    else if okey ≠ key then some .authFailed else none
  | _, _ => some .paramsInvalid

/-- the thing that must be unique at the OS / router level -/
inductive EpKey
  | port (p : Nat)                                -- a listening tcp socket
  | route (domain location user : Str)            -- an entry of vhost.Routers (Add lower-cases the domain)
deriving DecidableEq, Repr

def routeKey : Params → EpKey
  | .tcp _ p => .port p
  | .http d l u => .route (toLower d) l u
  | .mux d u _ _ => .route (toLower d) [] u

/-- one `TCPGroup` / `HTTPGroup` / `TCPMuxGroup` object -/
structure Obj where
  name : Str := []              -- tg.group
  key : Str := []               -- tg.groupKey
  params : Params := default
  members : List Str := []      -- lns (by proxy name) / pxyNames
  chClosed : Bool := false      -- acceptCh has been closed (tcp, mux)
  lnOpen : Bool := false        -- tcpLn / tcpMuxLn open, resp. the http route registered by this object
  ep : EpKey := .port 0         -- what the open listener occupies
  realPort : Nat := 0           -- tg.realPort: what ports.Manager handed out = what is reported
  index : Nat := 0              -- http: g.index
  workerDead : Bool := false    -- the worker returned after a failed send
  queue : List Nat := []        -- connections sitting in acceptCh's buffer, oldest first (at most `St.cap`)
deriving DecidableEq, Repr

/-- proposed repairs (hooks/C13-fix-*.patch), all off at the pinned tree -/
structure Fix where
  listenReal : Bool    -- TCPGroup.Listen listens on realPort and releases it when net.Listen fails
  oneLock : Bool       -- lookup+join and the whole leave run under the controller lock
  closeOnFail : Bool   -- the worker closes a connection whose hand-off send failed
  leaveOne : Bool      -- a leave's two sections (group edit | table delete) are ONE critical section of the
                       -- controller lock (CloseListener / UnRegister take it first and keep it to the end)
deriving DecidableEq, Repr

/-- pinned: tcp/tcpmux took the controller lock only inside RemoveGroup (the switch has no effect while
    `oneLock` is off: nobody keeps the controller lock between two labels) -/
def pinned : Fix := ⟨false, false, false, false⟩
def repaired : Fix := ⟨true, true, true, true⟩

/-- THE SWITCH: the tree the correspondence engine is compared with.
    Set to `repaired` once hooks/C13-fix-listen-realport.patch, C13-fix-group-race.patch and
    C13-fix-handoff-close.patch are committed to /repo. -/
def current : Fix := repaired

structure St where
  kind : Kind := .tcp
  allow : List Nat := []                    -- ports.Manager allowed set
  objs : List Obj := []                     -- heap of group objects; gid = index
  table : List (Str × Nat) := []            -- ctl.groups : name ↦ gid
  pend : List (Str × Str × Nat) := []       -- join goroutines between lookup and enter: (m, g, gid)
  lock : Option Str := none                 -- holder of the controller mutex across lookup…enter (oneLock only)
                                            -- or across a leave's edit…delete (leaveOne)
  pdel : List (Str × Nat × Str) := []       -- leaves between their two sections: (member, the object it has
                                            -- emptied, the name it will delete from the table)
  ext : List EpKey := []                    -- endpoints held by somebody else
  leaked : List Nat := []                   -- ports marked used in ports.Manager that nobody will release
  seen : List Nat := []                     -- connection ids already used
  inflight : List (Nat × Nat) := []         -- accepted connection ↦ gid of the worker holding it
  delivered : List (Nat × Str) := []        -- connection ↦ member that received it
  limbo : List Nat := []                    -- open, held by nobody
  dropped : List Nat := []                  -- closed by the worker without delivery
  panicked : Bool := false                  -- an unrecovered panic happened: frps is gone
  cap : Nat := 0                            -- capacity of every hand-off channel: `make(chan net.Conn)` = 0 in
                                            -- NewTCPGroup / TCPGroup.Listen / NewTCPMuxGroup / HTTPConnectListen
deriving Repr

def St.obj (s : St) (gid : Nat) : Obj := s.objs[gid]?.getD {}
def St.setObj (s : St) (gid : Nat) (o : Obj) : St := { s with objs := s.objs.set gid o }

/-- somebody holds the endpoint (the OS refuses the bind / `Routers.Add` reports a conflict) -/
def St.busy (s : St) (k : EpKey) : Bool :=
  s.ext.contains k || s.objs.any (fun o => o.lnOpen && o.ep == k)

/-- `usedPorts[p]` of the tcp port manager, as far as groups are concerned -/
def St.usedPort (s : St) (p : Nat) : Bool :=
  s.leaked.contains p || s.objs.any (fun o => o.lnOpen && o.realPort == p)

/-- choices the code leaves to its environment -/
structure Oracle where
  choice : Option Nat := none    -- ports.Manager's pick when RemotePort = 0 (none = "no available port")
  eph : Nat := 0                 -- the kernel's pick for a listen on ":0"
  grab : Bool := false           -- another process binds the port between Acquire and net.Listen
deriving DecidableEq, Repr

inductive Res
  | none | ok (realPort : Nat) | err (e : Err) | to (m : Str) | stranded | noMember | crash
deriving DecidableEq, Repr

/-- `realPort, err = tg.ctl.portManager.Acquire(proxyName, port)` as far as groups can see it:
    `none` = the oracle's pick is impossible here, `some none` = Acquire returned an error -/
def acquire (s : St) (port : Nat) (orc : Oracle) : Option (Option Nat) :=
  if port = 0 then
    match orc.choice with
    | none => some none
    | some c => if c ∈ s.allow ∧ c ≠ 0 ∧ s.usedPort c = false ∧ s.busy (.port c) = false then some (some c) else none
  else if port ∈ s.allow ∧ s.usedPort port = false ∧ s.busy (.port port) = false then some (some port)
  else some none

/-- first member: create the shared endpoint.  `none` = the oracle values are impossible here. -/
def createEp (fx : Fix) (s : St) (p : Params) (orc : Oracle) : Option (St × Except Err (Nat × EpKey)) :=
  match p with
  | .tcp _ port =>
    match acquire s port orc with
    | none => none
    | some none => some (s, .error .acquire)
    | some (some rp) =>
      -- net.Listen("tcp", JoinHostPort(addr, port))        ← pinned: the REQUESTED port (§7/3)
      let lp := if fx.listenReal then rp else port
      if lp = 0 then
        if orc.eph ≠ 0 ∧ s.busy (.port orc.eph) = false then some (s, .ok (rp, .port orc.eph)) else none
      else if orc.grab then
        let s1 := { s with ext := .port lp :: s.ext }
        -- pinned: `err = errRet; return` — the acquired port is never released
        some (if fx.listenReal then s1 else { s1 with leaked := rp :: s1.leaked }, .error .listen)
      else some (s, .ok (rp, .port lp))
  | _ =>
    -- vhostRouter.Add / tcpMuxHTTPConnectMuxer.Listen
    let k := routeKey p
    if s.busy k then some (s, .error .conflict) else some (s, .ok (0, k))

/-- `TCPGroup.Listen` / `HTTPGroup.Register` / `TCPMuxGroup.HTTPConnectListen` on object `gid` -/
def enter (fx : Fix) (s : St) (m g key : Str) (p : Params) (orc : Oracle) (gid : Nat) : Option (St × Res) :=
  let o := s.obj gid
  if o.members = [] then
    -- `len(tg.lns) == 0`: whatever the history of this object
    match createEp fx s p orc with
    | none => none
    | some (s1, .error e) => some (s1, .err e)
    | some (s1, .ok (rp, k)) =>
      -- `if tg.acceptCh == nil { make }` never fires: NewTCPGroup makes the channel, nobody nils it
      some (s1.setObj gid { o with name := g, key := key, params := p, members := [m], lnOpen := true,
                                   ep := k, realPort := rp, workerDead := false }, .ok rp)
  else
    match cmp o.name o.key o.params g key p with
    | some e => some (s, .err e)
    | none =>
      if s.kind = .http ∧ m ∈ o.members then some (s, .err .repeated)
      else some (s.setObj gid { o with members := o.members ++ [m] }, .ok o.realPort)

inductive Label
  | lookup (m g : Str)
  | enter (m key : Str) (p : Params) (orc : Oracle)
  | leaveL (m : Str) (gid : Nat)
  | leaveG (m g : Str)
  | leaveEdit (m : Str) (gid : Nat)
  | leaveDel (m : Str)
  | accept (c gid : Nat)
  | handoff (c : Nat) (m : Str)
  | send (c : Nat)
  | recv (m : Str) (gid : Nat)
  | request (gid : Nat)
  | squat (k : EpKey)
  | unsquat (k : EpKey)
deriving DecidableEq, Repr

def lockFree (fx : Fix) (s : St) : Bool := !fx.oneLock || s.lock.isNone

def step (fx : Fix) (s : St) : Label → Option (St × Res)
  | .lookup m g =>
    if s.panicked ∨ lockFree fx s = false ∨ s.pend.any (·.1 == m) then none else
    match s.table.lookup g with
    | some gid =>
      some ({ s with pend := (m, g, gid) :: s.pend, lock := if fx.oneLock then some m else s.lock }, .none)
    | none =>
      some ({ s with objs := s.objs ++ [{}], table := (g, s.objs.length) :: s.table,
                     pend := (m, g, s.objs.length) :: s.pend,
                     lock := if fx.oneLock then some m else s.lock }, .none)
  | .enter m key p orc =>
    if s.panicked ∨ p.kind ≠ s.kind then none else
    match s.pend.find? (·.1 == m) with
    | none => none
    | some (_, g, gid) =>
      enter fx { s with pend := s.pend.filter (fun x => !(x.1 == m)),
                        lock := if fx.oneLock then none else s.lock } m g key p orc gid
  | .leaveL m gid =>
    if s.panicked ∨ s.kind = .http ∨ lockFree fx s = false then none else
    let o := s.obj gid
    if m ∉ o.members then none else
    let ms := o.members.erase m
    if ms ≠ [] then some (s.setObj gid { o with members := ms }, .none)
    else if o.chClosed then
      -- close(tg.acceptCh) on a closed channel; nothing on this path recovers
      some ({ s with panicked := true }, .crash)
    else
      -- close(acceptCh); tcpLn.Close(); portManager.Release(realPort); ctl.RemoveGroup(tg.group) — by NAME
      -- (whatever is buffered in acceptCh stays inside the closed channel: `queue` is not touched)
      some ({ s.setObj gid { o with members := [], chClosed := true, lnOpen := false } with
                table := s.table.filter (fun e => !(e.1 == o.name)) }, .none)
  | .leaveG m g =>
    if s.panicked ∨ s.kind ≠ .http ∨ lockFree fx s = false then none else
    match s.table.lookup g with
    | none => some (s, .none)
    | some gid =>
      let o := s.obj gid
      let ms := o.members.erase m
      if ms ≠ [] then some (s.setObj gid { o with members := ms }, .none)
      else
        -- vhostRouter.Del(g.domain, g.location, g.routeByHTTPUser); delete(ctl.groups, name)
        some ({ s.setObj gid { o with members := [], lnOpen := false } with
                  table := s.table.filter (fun e => !(e.1 == g)) }, .none)
  | .leaveEdit m gid =>
    -- section 1 (group lock).  leaveOne: the controller lock was taken first, so it must be free and stays
    -- with this leave until `leaveDel`; otherwise the section needs no controller lock at all.
    if s.panicked ∨ (fx.leaveOne = true ∧ lockFree fx s = false) ∨ s.pdel.any (·.1 == m) then none else
    let o := s.obj gid
    if m ∉ o.members then none else
    let ms := o.members.erase m
    if ms ≠ [] then some (s.setObj gid { o with members := ms }, .none)
    else if s.kind ≠ .http ∧ o.chClosed = true then some ({ s with panicked := true }, .crash)
    else
      some ({ s.setObj gid { o with members := [], chClosed := if s.kind = .http then o.chClosed else true,
                                     lnOpen := false } with
                pdel := (m, gid, o.name) :: s.pdel,
                lock := if fx.leaveOne then some m else s.lock }, .none)
  | .leaveDel m =>
    -- section 2 (controller lock): `if ctl.groups[name] == g { delete(ctl.groups, name) }` — the careful form;
    -- for the one-section code the test is always true (C13.repaired_table_members_consistent)
    if s.panicked then none else
    match s.pdel.find? (·.1 == m) with
    | none => none
    | some (_, gid, name) =>
      if fx.leaveOne = false ∧ lockFree fx s = false then none else
      some ({ s with table := if s.table.lookup name = some gid then s.table.filter (fun e => !(e.1 == name))
                              else s.table,
                     pdel := s.pdel.filter (fun x => !(x.1 == m)),
                     lock := if fx.leaveOne then none else s.lock }, .none)
  | .accept c gid =>
    let o := s.obj gid
    if s.panicked ∨ s.kind = .http ∨ o.lnOpen = false ∨ o.workerDead ∨ c ∈ s.seen then none
    else some ({ s with inflight := (c, gid) :: s.inflight, seen := c :: s.seen }, .none)
  | .handoff c m =>
    if s.panicked then none else
    match s.inflight.lookup c with
    | none => none
    | some gid =>
      let o := s.obj gid
      let s0 := { s with inflight := s.inflight.filter (fun x => !(x.1 == c)) }
      if o.chClosed then
        -- send on a closed channel: recovered by PanicToError, the worker returns (§7/10: c stays open)
        let s1 := s0.setObj gid { o with workerDead := true }
        some (if fx.closeOnFail then { s1 with dropped := c :: s1.dropped }
              else { s1 with limbo := c :: s1.limbo }, .stranded)
      -- a sender meets a waiting receiver only when nothing is buffered ahead of it
      else if m ∈ o.members ∧ o.queue = [] then some ({ s0 with delivered := (c, m) :: s0.delivered }, .to m)
      else none
  | .send c =>
    if s.panicked then none else
    match s.inflight.lookup c with
    | none => none
    | some gid =>
      let o := s.obj gid
      let s0 := { s with inflight := s.inflight.filter (fun x => !(x.1 == c)) }
      if o.chClosed then
        let s1 := s0.setObj gid { o with workerDead := true }
        some (if fx.closeOnFail then { s1 with dropped := c :: s1.dropped }
              else { s1 with limbo := c :: s1.limbo }, .stranded)
      else if o.queue.length < s.cap then some (s0.setObj gid { o with queue := o.queue ++ [c] }, .none)
      else none      -- buffer full (always, for an unbuffered channel): the worker stays blocked
  | .recv m gid =>
    if s.panicked ∨ s.kind = .http then none else
    let o := s.obj gid
    -- only a member calls Accept; `close(acceptCh)` does not discard what is buffered, but after the
    -- last leave there is nobody left to receive it
    match o.queue with
    | [] => none
    | c :: q =>
      if m ∈ o.members then
        some ({ s.setObj gid { o with queue := q } with delivered := (c, m) :: s.delivered }, .to m)
      else none
  | .request gid =>
    let o := s.obj gid
    if s.panicked ∨ s.kind ≠ .http ∨ o.lnOpen = false then none else
    -- newIndex := atomic.AddUint64(&g.index, 1); name := pxyNames[int(newIndex) % len(pxyNames)]
    let idx := o.index + 1
    let s1 := s.setObj gid { o with index := idx }
    match o.members[idx % o.members.length]? with
    | none => some (s1, .noMember)
    | some m => some (s1, .to m)
  | .squat k => if s.panicked ∨ s.busy k then none else some ({ s with ext := k :: s.ext }, .none)
  | .unsquat k => if s.panicked then none else some ({ s with ext := s.ext.filter (fun x => !(x == k)) }, .none)

def init (kind : Kind) (allow : List Nat) : St := { kind := kind, allow := allow }

/-- run a label list; `none` if some label is not enabled -/
def run (fx : Fix) : St → List Label → Option St
  | s, [] => some s
  | s, l :: ls => match step fx s l with
    | none => none
    | some (s', _) => run fx s' ls

/-- the gid a member's listener points to (tcp/mux): the object that lists it -/
def St.gidOf (s : St) (m : Str) : Option Nat :=
  let i := s.objs.findIdx (fun o => o.members.contains m)
  if i < s.objs.length then some i else none

/-- which object owns an endpoint -/
def St.owner (s : St) (k : EpKey) : Option Nat :=
  let i := s.objs.findIdx (fun o => o.lnOpen && o.ep == k)
  if i < s.objs.length then some i else none

end Group
end Frp
