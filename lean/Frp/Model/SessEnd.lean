/-
  End of a server-side session: who may still create resources when `Control.worker()` walks
  `ctl.proxies`, small-step, all interleavings.

  pkg/msg/handler.go
    readLoop : for { m, err := ReadMsg(rw); if err != nil { close(doneCh); return }
                     handler(m) }                    -- the handler runs INSIDE the read loop …
    AsyncHandler(f) = func(m) { go f(m) }            -- … unless it was registered through AsyncHandler
  server/control.go
    registerMsgHandlers : NewProxy ↦ ctl.handleNewProxy (plain), Ping ↦ plain, CloseProxy ↦ plain,
                          NatHole* ↦ AsyncHandler(…)
    handleNewProxy  : pluginManager.NewProxy(content)            -- (phase `plug`: server plugins, may be slow)
                      RegisterProxy:  pxyManager.Exist(name) ⇒ error        -- → `checked`   (gate reg.checked)
                                      pxy.Run()              -- binds the remote port  → `ran`   (gate reg.ran)
                                      pxyManager.Add(name)   -- on error: pxy.Close()  → `added` (gate reg.added)
                                      ctl.mu.Lock(); ctl.proxies[name] = pxy
    heartbeatWorker : time.Since(lastPing) > timeout ⇒ ctl.conn.Close()     -- label `cut` (as is a cut by the peer)
    worker          : <-msgDispatcher.Done(); conn.Close(); ctl.mu.Lock();
                      for pxy in ctl.proxies { pxy.Close(); pxyManager.Del(name) }; close(doneCh)
                      -- the walk holds ctl.mu, the insertion takes ctl.mu: the walk is one atomic step

  `async` is how the NewProxy handler is registered (frp: false = plain).  The tables `mgr` / `bound`
  hold only the entries that belong to proxies of THIS session (a remote port is identified with the
  proxy name); refusals caused by other sessions or the OS are the `extFail` argument.
-/
namespace Frp
namespace SessEnd

inductive Phase | plug | checked | ran | added
deriving Repr, DecidableEq

/-- a `handleNewProxy` call in flight -/
structure Reg where
  name : Nat
  ph : Phase
deriving Repr, DecidableEq

inductive Msg | newProxy (n : Nat) | closeProxy (n : Nat) | other
deriving Repr, DecidableEq

inductive Reader
  | idle                    -- blocked in ReadMsg
  | handling (r : Reg)      -- inside a plain NewProxy handler
  | exited                  -- ReadMsg failed: close(doneCh); return
deriving Repr, DecidableEq

structure Res where
  ctlPx : List Nat := []    -- ctl.proxies
  mgr   : List Nat := []    -- pxyManager (names of this session's proxies)
  bound : List Nat := []    -- remote ports bound by this session's proxies
deriving Repr, DecidableEq

structure St where
  async    : Bool
  inbox    : List Msg := []        -- written by the peer, not yet returned by ReadMsg
  connOpen : Bool := true
  reader   : Reader := .idle
  flying   : List Reg := []        -- goroutines started by AsyncHandler
  dispDone : Bool := false         -- msgDispatcher.Done() is closed
  torn     : Bool := false         -- worker() has walked ctl.proxies
  res      : Res := {}
deriving Repr, DecidableEq

def init (async : Bool) : St := { async := async }

/-- one step of `handleNewProxy`; `none` = the handler has returned -/
def adv (t : Res) (r : Reg) (extFail : Bool) : Res × Option Reg :=
  match r.ph with
  | .plug =>
    if extFail || t.mgr.contains r.name then (t, none) else (t, some { r with ph := .checked })
  | .checked =>
    if extFail || t.bound.contains r.name then (t, none)
    else ({ t with bound := r.name :: t.bound }, some { r with ph := .ran })
  | .ran =>
    if extFail || t.mgr.contains r.name then ({ t with bound := t.bound.filter (· != r.name) }, none)
    else ({ t with mgr := r.name :: t.mgr }, some { r with ph := .added })
  | .added => ({ t with ctlPx := r.name :: t.ctlPx }, none)

/-- `Control.CloseProxy` -/
def closePx (t : Res) (n : Nat) : Res :=
  if t.ctlPx.contains n then
    { ctlPx := t.ctlPx.filter (· != n), mgr := t.mgr.filter (· != n), bound := t.bound.filter (· != n) }
  else t

/-- the walk of `worker()` (the map itself is not emptied) -/
def tear (t : Res) : Res :=
  { ctlPx := t.ctlPx, mgr := t.mgr.filter (fun n => !t.ctlPx.contains n),
    bound := t.bound.filter (fun n => !t.ctlPx.contains n) }

inductive Lbl
  | send (m : Msg)                  -- the peer writes a message
  | cut                             -- the connection ends (peer, network, or heartbeatWorker's conn.Close())
  | read (err : Bool)               -- ReadMsg returns: the next message, or (only once the connection ended) an error
  | adv (extFail : Bool)            -- the handler inside the read loop takes its next step
  | advFly (i : Nat) (extFail : Bool)   -- the i-th AsyncHandler goroutine takes its next step
  | teardown                        -- worker(): Done() is closed ⇒ walk
deriving Repr, DecidableEq

def step (s : St) : Lbl → St
  | .send m => if s.connOpen then { s with inbox := s.inbox ++ [m] } else s
  | .cut => { s with connOpen := false }
  | .read err =>
    match s.reader with
    | .idle =>
      if err then (if s.connOpen then s else { s with reader := .exited, dispDone := true })
      else
        match s.inbox with
        | [] => s
        | .newProxy n :: rest =>
          if s.async then { s with inbox := rest, flying := s.flying ++ [⟨n, .plug⟩] }
          else { s with inbox := rest, reader := .handling ⟨n, .plug⟩ }
        | .closeProxy n :: rest => { s with inbox := rest, res := closePx s.res n }
        | .other :: rest => { s with inbox := rest }
    | _ => s
  | .adv f =>
    match s.reader with
    | .handling r =>
      let a := adv s.res r f
      { s with res := a.1, reader := match a.2 with | some r2 => .handling r2 | none => .idle }
    | _ => s
  | .advFly i f =>
    match s.flying[i]? with
    | some r =>
      let a := adv s.res r f
      { s with res := a.1, flying := match a.2 with | some r2 => s.flying.set i r2 | none => s.flying.eraseIdx i }
    | none => s
  | .teardown => if s.dispDone && !s.torn then { s with torn := true, res := tear s.res } else s

def run (s : St) : List Lbl → St
  | [] => s
  | l :: ls => run (step s l) ls

/-- nothing of the session is left in the server's tables -/
def Released (s : St) : Prop := s.res.bound = [] ∧ s.res.mgr = []

instance (s : St) : Decidable (Released s) := by unfold Released; exact inferInstance

end SessEnd
end Frp
