import Frp.Model.Str
/-
  Model of the CLOCKS that can end one proxied HTTP exchange before its natural end (property C02:
  "bodies of any size and framing … streamed", "a protocol upgrade … behaves as a byte-transparent
  tunnel", "does not send response headers within the configured timeout ⇒ gateway-timeout answer
  in bounded time").

    pkg/util/vhost/http.go   NewHTTPReverseProxy: `ResponseHeaderTimeoutS <= 0 ⇒ 60`,
                             `Transport{ResponseHeaderTimeout: rp.responseHeaderTimeout}`;
                             ServeHTTP / injectRequestInfoToCtx: the request handed to
                             `rp.proxy.ServeHTTP` carries the server's request context with two VALUES
                             added (`context.WithValue`) — no deadline, no cancel of its own;
                             connectHandler: `libio.Join(remote, client)`, no context at all;
                             ErrorHandler: `net.Error` with `Timeout()` ⇒ 504
    GOROOT/src/net/http/transport.go (go1.23, ASSUMED)  persistConn.roundTrip: the response-header
                             timer is armed when the request (header block AND body) has been written
                             and is disarmed when the response header block has been read; the request
                             context is watched during dial, request write, header wait and — through
                             the body wrapper — while the response body is read
    GOROOT/src/net/http/httputil/reverseproxy.go (ASSUMED)  copyResponse error ⇒ `panic(ErrAbortHandler)`
                             (the user's connection is closed in the middle of the body);
                             handleUpgradeResponse: `select { case <-req.Context().Done(): case <-backConnCloseCh }; backConn.Close()`

  Time is in milliseconds, measured from the entry of `HTTPReverseProxy.ServeHTTP`.  An exchange is a
  time line of events (what the user, the work connection and the backend do and WHEN); the model
  says what the user and the backend have received when the exchange is over.  Payloads are opaque.
-/
namespace Frp
namespace HttpTime
open Str

/-- the clocks in force for one exchange -/
structure Limits where
  /-- `Transport.ResponseHeaderTimeout` -/
  respHeader : Nat
  /-- deadline of the context of the request given to `ReverseProxy.ServeHTTP`, from handler entry
      (`none`: the context has no deadline) -/
  reqCtx     : Option Nat
deriving DecidableEq, Repr

/-- `NewHTTPReverseProxy`: `if option.ResponseHeaderTimeoutS <= 0 { option.ResponseHeaderTimeoutS = 60 }`,
    `time.Duration(option.ResponseHeaderTimeoutS) * time.Second` -/
def headerTimeoutMs (s : Int) : Nat := if s ≤ 0 then 60000 else s.toNat * 1000

/-- the limits frp puts on an exchange that goes through the reverse proxy (`s` =
    `HTTPReverseProxyOptions.ResponseHeaderTimeoutS` = `vhostHTTPTimeout`): the Transport's
    response-header timeout and nothing else -/
def frpLimits (s : Int) : Limits := { respHeader := headerTimeoutMs s, reqCtx := none }

/-- one write of body bytes, `gap` ms after the previous event of the exchange -/
structure Piece where
  gap  : Nat
  data : Str
deriving DecidableEq, Repr

structure Exchange where
  /-- time `CreateConnFn` takes (waiting for a work connection); 0 when an idle connection is reused -/
  dial     : Nat
  /-- the request body as the user sends it -/
  upload   : List Piece
  /-- backend: time from the end of the request to its response header block; `none` = never answers -/
  think    : Option Nat
  /-- the response body as the backend sends it -/
  download : List Piece
deriving DecidableEq, Repr

/-- `ctx.Done()` has fired at time `t` -/
def expired (dl : Option Nat) (t : Nat) : Bool :=
  match dl with
  | some d => decide (d ≤ t)
  | none => false

def cat (ps : List Piece) : Str := ps.flatMap (·.data)
def dur (ps : List Piece) : Nat := (ps.map (·.gap)).sum

/-- relay pieces while the context lives: (bytes relayed, time of the last relayed piece, cut?) -/
def deliver (dl : Option Nat) : Nat → List Piece → Str × Nat × Bool
  | t, [] => ([], t, false)
  | t, p :: ps =>
    if expired dl (t + p.gap) then ([], t, true)
    else
      let r := deliver dl (t + p.gap) ps
      (p.data ++ r.1, r.2.1, r.2.2)

inductive Answer
  /-- the backend's own status line and header block -/
  | backend
  /-- `ErrorHandler` with a timeout error: 504, no body -/
  | gatewayTimeout
deriving DecidableEq, Repr

structure Outcome where
  answer   : Answer
  /-- when the user gets the status line -/
  answerAt : Nat
  /-- request body bytes the backend received -/
  up       : Str
  /-- response body bytes the user received -/
  down     : Str
  /-- the user's read of the body ended at the end of the body (false: connection closed in the middle) -/
  complete : Bool
deriving DecidableEq, Repr

/-- when a wait that started at `t` is given up -/
def giveUpAt (L : Limits) (t : Nat) : Nat :=
  match L.reqCtx with
  | some d => min d (t + L.respHeader)
  | none => t + L.respHeader

/-- one exchange through `ReverseProxy.ServeHTTP` → `Transport.RoundTrip` → `copyResponse` -/
def relay (L : Limits) (x : Exchange) : Outcome :=
  -- Transport.getConn: `case <-req.Context().Done()` while dialling
  if expired L.reqCtx x.dial then
    { answer := .gatewayTimeout, answerAt := L.reqCtx.getD 0, up := [], down := [], complete := false }
  else
    -- writeLoop streams the request body as the user sends it; roundTrip watches the context
    let u := deliver L.reqCtx x.dial x.upload
    if u.2.2 then
      { answer := .gatewayTimeout, answerAt := L.reqCtx.getD 0, up := u.1, down := [], complete := false }
    else
      let tw := u.2.1      -- request written: the response-header timer starts here
      match x.think with
      | some h =>
        if h < L.respHeader ∧ !expired L.reqCtx (tw + h) then
          -- header block relayed; copyResponse relays the body while the context lives
          let d := deliver L.reqCtx (tw + h) x.download
          { answer := .backend, answerAt := tw + h, up := u.1, down := d.1, complete := !d.2.2 }
        else
          { answer := .gatewayTimeout, answerAt := giveUpAt L tw, up := u.1, down := [], complete := false }
      | none =>
        { answer := .gatewayTimeout, answerAt := giveUpAt L tw, up := u.1, down := [], complete := false }

/-! ### tunnels (after `101 Switching Protocols`, or after CONNECT) -/

inductive Dir | up | down
deriving DecidableEq, Repr

structure TPiece where
  gap  : Nat
  dir  : Dir
  data : Str
deriving DecidableEq, Repr

/-- bytes relayed in each direction while the tunnel lives: `handleUpgradeResponse` closes the backend
    side when the request context ends (`dl`); `connectHandler` has no such clock (`dl = none`) -/
def tunnel (dl : Option Nat) : Nat → List TPiece → List (Dir × Str) × Bool
  | _, [] => ([], false)
  | t, p :: ps =>
    if expired dl (t + p.gap) then ([], true)
    else
      let r := tunnel dl (t + p.gap) ps
      ((p.dir, p.data) :: r.1, r.2)

/-- a protocol upgrade: an exchange whose answer is the 101, then a tunnel under the same context -/
def upgrade (L : Limits) (dial think : Nat) (ps : List TPiece) : Answer × List (Dir × Str) × Bool :=
  let o := relay L { dial := dial, upload := [], think := some think, download := [] }
  match o.answer with
  | .backend => let r := tunnel L.reqCtx o.answerAt ps; (.backend, r.1, r.2)
  | .gatewayTimeout => (.gatewayTimeout, [], !ps.isEmpty)

/-! ### taking over the user connection

    `httputil.ReverseProxy.handleUpgradeResponse`: `hj, ok := rw.(http.Hijacker); if !ok { p.getErrorHandler()(rw, req,
    "can't switch protocols using non-Hijacker ResponseWriter") ; return }` — the 101 of the backend becomes frp's
    error answer (404 page) and the backend connection, which already switched protocols, is dropped.
    `h2c.h2cUpgrade` / `initH2CWithPriorKnowledge` need the same capability.  `http.ResponseController`
    finds it through `Unwrap() http.ResponseWriter`; a type assertion (the two callers above) does not. -/

/-- what the `http.ResponseWriter` handed to `rp.proxy.ServeHTTP` can do -/
structure RW where
  hijacker : Bool     -- implements http.Hijacker itself
deriving DecidableEq, Repr

/-- `http.Server`'s own writer (`*http.response`) -/
def serverRW : RW := { hijacker := true }

/-- pkg/util/vhost/http.go `HTTPReverseProxy.ServeHTTP`: `rp.proxy.ServeHTTP(rw, newreq)` — the writer it was
    given by the `http.Server`, unwrapped -/
def frpRW : RW := serverRW

/-- a protocol upgrade through a proxy whose handler got the writer `w`: `none` = the error answer
    (no tunnel, the backend connection is closed) -/
def upgradeThrough (w : RW) (L : Limits) (dial think : Nat) (ps : List TPiece) :
    Option (Answer × List (Dir × Str) × Bool) :=
  if w.hijacker then some (upgrade L dial think ps) else none

/-- the bytes of one direction, in order -/
def dirData (d : Dir) (rel : List (Dir × Str)) : Str :=
  (rel.filter (fun p => p.1 = d)).flatMap (·.2)

end HttpTime
end Frp
