/-
  Health monitor counting logic — client/health/health.go.

  `Monitor.checkWorker` runs probes one after the other; after each probe it updates
  `failedTimes` / `statusOK` and possibly fires one of the two callbacks.  The model is that
  update, outcome by outcome.  It mirrors the code AS IT IS: `failedTimes` is incremented on every
  failed probe and is never reset (neither on success nor when the failed callback fires).

  `HealthFixed` is the same machine after the one-line repair (`failedTimes = 0` in the success
  branch).  The driver engine `health` selects the model through `Health.activeStep` below — switch
  it to `HealthFixed.step` when the repair lands in /repo (see Frp/Props/C19.lean, section "switch").
-/
namespace Frp
namespace Health

/-- the two callbacks of `NewMonitor` -/
inductive Cb
  | normal      -- statusNormalFn
  | failed      -- statusFailedFn
  deriving DecidableEq, Repr

structure HState where
  failedTimes : Nat := 0      -- Monitor.failedTimes (uint64; overflow is out of reach)
  statusOK : Bool := false    -- Monitor.statusOK, initially false (NewMonitor)
  deriving DecidableEq, Repr

def init : HState := {}

/-- NewMonitor: `if cfg.MaxFailed <= 0 { cfg.MaxFailed = 1 }` -/
def normMax (m : Int) : Nat := if m ≤ 0 then 1 else m.toNat
/-- NewMonitor: `if cfg.IntervalSeconds <= 0 { … = 10 }` (result in seconds) -/
def normInterval (s : Int) : Nat := if s ≤ 0 then 10 else s.toNat
/-- NewMonitor: `if cfg.TimeoutSeconds <= 0 { … = 3 }` -/
def normTimeout (s : Int) : Nat := if s ≤ 0 then 3 else s.toNat

/-- one iteration of `checkWorker` after `doCheck` returned (`ok = (err == nil)`), both callbacks
    non-nil (as the wrapper installs them):
    ```
    if err == nil { if !statusOK { statusOK = true; statusNormalFn() } }
    else { failedTimes++; if statusOK && int(failedTimes) >= maxFailedTimes { statusOK = false; statusFailedFn() } }
    ``` -/
def step (maxFailed : Nat) (s : HState) (ok : Bool) : HState × Option Cb :=
  if ok then
    if !s.statusOK then ({ s with statusOK := true }, some .normal) else (s, none)
  else
    let f := s.failedTimes + 1
    if s.statusOK && decide (maxFailed ≤ f) then
      ({ failedTimes := f, statusOK := false }, some .failed)
    else ({ s with failedTimes := f }, none)

/-- state after a history of probe outcomes, and the callback fired by each probe -/
def fold (maxFailed : Nat) : HState → List Bool → HState × List (Option Cb)
  | s, [] => (s, [])
  | s, o :: os =>
    let (s', c) := step maxFailed s o
    let (s'', cs) := fold maxFailed s' os
    (s'', c :: cs)

def run (maxFailed : Nat) (os : List Bool) : HState × List (Option Cb) := fold maxFailed init os

/-- doHTTPCheck: `resp.StatusCode/100 != 2` is a failure -/
def httpOK (code : Nat) : Bool := code / 100 == 2

/-- a probe outcome as the scripted backend produces it -/
inductive Outcome
  | http (code : Nat)     -- an answer with this status code
  | reset                 -- connection closed without answer (transport error)
  | timeout               -- no answer within the probe deadline (context deadline exceeded)
  | tcpAccept | tcpRefuse
  deriving DecidableEq, Repr

/-- `err == nil` of doCheck for that outcome -/
def Outcome.ok : Outcome → Bool
  | .http c => httpOK c
  | .reset => false
  | .timeout => false
  | .tcpAccept => true
  | .tcpRefuse => false

end Health

/-! ## the repaired machine -/
namespace HealthFixed
open Health

/-- as `Health.step`, with `failedTimes = 0` added to the success branch -/
def step (maxFailed : Nat) (s : HState) (ok : Bool) : HState × Option Cb :=
  if ok then
    if !s.statusOK then ({ failedTimes := 0, statusOK := true }, some .normal)
    else ({ s with failedTimes := 0 }, none)
  else
    let f := s.failedTimes + 1
    if s.statusOK && decide (maxFailed ≤ f) then
      ({ failedTimes := f, statusOK := false }, some .failed)
    else ({ s with failedTimes := f }, none)

def fold (maxFailed : Nat) : HState → List Bool → HState × List (Option Cb)
  | s, [] => (s, [])
  | s, o :: os =>
    let (s', c) := step maxFailed s o
    let (s'', cs) := fold maxFailed s' os
    (s'', c :: cs)

def run (maxFailed : Nat) (os : List Bool) : HState × List (Option Cb) := fold maxFailed init os

end HealthFixed

namespace Health
/-- THE SWITCH: which machine the driver engine `health` compares the real `health.Monitor`
    against.  `Health.step` = the code as pinned; `HealthFixed.step` = after the repair. -/
def activeStep (maxFailed : Nat) (s : HState) (ok : Bool) : HState × Option Cb :=
  HealthFixed.step maxFailed s ok
end Health
end Frp
