import Frp.Model.Str
/-
  MD5 (RFC 1321) over byte strings, executable, core Lean only.

  Used by the `visitor` driver engine to compute `util.GetAuthKey(token, ts)` =
  hex(md5(token ++ decimal ts)) (pkg/util/util/util.go) exactly as the Go code does, so that the
  signature strings of the trace are compared bytewise (no "md5 is injective" assumption in the tie).
  The C08 theorems never unfold this: they hold for an arbitrary key-derivation function `H`.
  The engine compares `hexDigest` with Go's crypto/md5 + hex on every generated `key` op.
-/
namespace Frp
namespace Md5

def sTab : Array Nat :=
  #[7, 12, 17, 22, 7, 12, 17, 22, 7, 12, 17, 22, 7, 12, 17, 22,
    5, 9, 14, 20, 5, 9, 14, 20, 5, 9, 14, 20, 5, 9, 14, 20,
    4, 11, 16, 23, 4, 11, 16, 23, 4, 11, 16, 23, 4, 11, 16, 23,
    6, 10, 15, 21, 6, 10, 15, 21, 6, 10, 15, 21, 6, 10, 15, 21]

def kTab : Array UInt32 :=
  #[0xd76aa478, 0xe8c7b756, 0x242070db, 0xc1bdceee, 0xf57c0faf, 0x4787c62a, 0xa8304613, 0xfd469501,
    0x698098d8, 0x8b44f7af, 0xffff5bb1, 0x895cd7be, 0x6b901122, 0xfd987193, 0xa679438e, 0x49b40821,
    0xf61e2562, 0xc040b340, 0x265e5a51, 0xe9b6c7aa, 0xd62f105d, 0x02441453, 0xd8a1e681, 0xe7d3fbc8,
    0x21e1cde6, 0xc33707d6, 0xf4d50d87, 0x455a14ed, 0xa9e3e905, 0xfcefa3f8, 0x676f02d9, 0x8d2a4c8a,
    0xfffa3942, 0x8771f681, 0x6d9d6122, 0xfde5380c, 0xa4beea44, 0x4bdecfa9, 0xf6bb4b60, 0xbebfbc70,
    0x289b7ec6, 0xeaa127fa, 0xd4ef3085, 0x04881d05, 0xd9d4d039, 0xe6db99e5, 0x1fa27cf8, 0xc4ac5665,
    0xf4292244, 0x432aff97, 0xab9423a7, 0xfc93a039, 0x655b59c3, 0x8f0ccc92, 0xffeff47d, 0x85845dd1,
    0x6fa87e4f, 0xfe2ce6e0, 0xa3014314, 0x4e0811a1, 0xf7537e82, 0xbd3af235, 0x2ad7d2bb, 0xeb86d391]

def rotl (x : UInt32) (s : Nat) : UInt32 :=
  (x <<< (UInt32.ofNat s)) ||| (x >>> (UInt32.ofNat (32 - s)))

/-- little-endian bytes of a 64-bit length -/
def le64 (n : Nat) : List Nat := (List.range 8).map (fun i => (n / 256 ^ i) % 256)

/-- message ++ 0x80 ++ zeros ++ bit length (LE 64), total length ≡ 0 mod 64 -/
def pad (m : Str) : List Nat :=
  let l := m.length
  let z := (55 + 64 - l % 64) % 64
  m ++ [128] ++ List.replicate z 0 ++ le64 ((l * 8) % 2 ^ 64)

def word (b0 b1 b2 b3 : Nat) : UInt32 :=
  UInt32.ofNat (b0 % 256 + 256 * (b1 % 256) + 65536 * (b2 % 256) + 16777216 * (b3 % 256))

def wordsOf : List Nat → List UInt32
  | b0 :: b1 :: b2 :: b3 :: r => word b0 b1 b2 b3 :: wordsOf r
  | _ => []

structure St where
  a : UInt32
  b : UInt32
  c : UInt32
  d : UInt32

def round (M : Array UInt32) (s : St) (i : Nat) : St :=
  let (f, g) :=
    if i < 16 then ((s.b &&& s.c) ||| ((~~~ s.b) &&& s.d), i)
    else if i < 32 then ((s.d &&& s.b) ||| ((~~~ s.d) &&& s.c), (5 * i + 1) % 16)
    else if i < 48 then (s.b ^^^ s.c ^^^ s.d, (3 * i + 5) % 16)
    else (s.c ^^^ (s.b ||| (~~~ s.d)), (7 * i) % 16)
  let f' := f + s.a + kTab[i]! + M[g]!
  { a := s.d, d := s.c, c := s.b, b := s.b + rotl f' sTab[i]! }

def chunk (s : St) (M : Array UInt32) : St :=
  let r := (List.range 64).foldl (round M) s
  { a := s.a + r.a, b := s.b + r.b, c := s.c + r.c, d := s.d + r.d }

def chunks : Nat → List UInt32 → St → St
  | 0, _, s => s
  | n + 1, ws, s => chunks n (ws.drop 16) (chunk s (ws.take 16).toArray)

def leBytes (x : UInt32) : List Nat :=
  let n := x.toNat
  [n % 256, (n / 256) % 256, (n / 65536) % 256, (n / 16777216) % 256]

def digest (m : Str) : List Nat :=
  let ws := wordsOf (pad m)
  let s := chunks (ws.length / 16) ws
    { a := 0x67452301, b := 0xefcdab89, c := 0x98badcfe, d := 0x10325476 }
  leBytes s.a ++ leBytes s.b ++ leBytes s.c ++ leBytes s.d

def hexNib (n : Nat) : Nat := if n < 10 then 48 + n else 87 + n

/-- `hex.EncodeToString(md5(m))` as bytes (lower-case hex) -/
def hexDigest (m : Str) : Str := (digest m).flatMap (fun b => [hexNib (b / 16), hexNib (b % 16)])

end Md5
end Frp
