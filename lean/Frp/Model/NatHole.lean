import Frp.Model.Str
import Frp.Model.NatBeh
import Frp.Gen.NatTables
/-
  Model of pkg/nathole: classify.go, analysis.go, controller.go (getRangePorts, analysis, the
  session lifecycle of HandleVisitor / HandleClient / HandleReport).  Mirrors the Go code as it is,
  including what it does not validate.  Core Lean only.

  Abstractions (stated in runner/props/C20.py as assumptions):
  * md5 is treated as injective: an analysis key is the byte string that `genAnalysisKey` feeds to
    md5 (the plain concatenation, kept faithfully, so concatenation ambiguities are in the model);
    a `SignKey` is represented by the byte string whose md5 it is.
  * session ids are supplied by the environment (`GenSid` = unix time + random id) and are assumed
    not to repeat while live.
  * a `transport.MessageTransporter` is a natural number (identity only).
-/
namespace Frp
namespace NatHole
open NatBeh Gen.NatTables

/-! ## association lists (maps of the Go code) -/

def aget {α : Type} : List (Str × α) → Str → Option α
  | [], _ => none
  | (k', v) :: r, k => if k' = k then some v else aget r k

def aput {α : Type} : List (Str × α) → Str → α → List (Str × α)
  | [], k, v => [(k, v)]
  | (k', v') :: r, k, v => if k' = k then (k, v) :: r else (k', v') :: aput r k v

def adel {α : Type} : List (Str × α) → Str → List (Str × α)
  | [], _ => []
  | (k', v') :: r, k => if k' = k then adel r k else (k', v') :: adel r k

theorem aget_aput {α : Type} (l : List (Str × α)) (k k' : Str) (v : α) :
    aget (aput l k v) k' = if k = k' then some v else aget l k' := by
  induction l with
  | nil => simp only [aput, aget]
  | cons h t ih =>
    obtain ⟨hk, hv⟩ := h
    simp only [aput]
    by_cases e : hk = k
    · subst e
      by_cases e2 : hk = k' <;> simp [aget, e2]
    · by_cases e2 : hk = k'
      · subst e2
        have : ¬ k = hk := fun h => e h.symm
        simp [aget, e, this]
      · simp [aget, e, e2, ih]

theorem aget_adel {α : Type} (l : List (Str × α)) (k k' : Str) :
    aget (adel l k) k' = if k = k' then none else aget l k' := by
  induction l with
  | nil => simp [adel, aget]
  | cons h t ih =>
    obtain ⟨hk, hv⟩ := h
    simp only [adel]
    by_cases e : hk = k
    · subst e
      by_cases e2 : hk = k'
      · subst e2; simp [ih]
      · simp [aget, e2, ih]
    · by_cases e2 : hk = k'
      · subst e2
        have : ¬ k = hk := fun h => e h.symm
        simp [aget, e, this]
      · simp [aget, e, e2, ih]

/-! ## net.SplitHostPort, strconv.Atoi, strconv.FormatInt -/

def lbr : Nat := 91
def rbr : Nat := 93
def colon : Nat := 58

def idxOfB (c : Nat) (s : Str) : Option Nat := s.findIdx? (· == c)
def lastIdxOfB (c : Nat) (s : Str) : Option Nat := (idxOfB c s.reverse).map (fun k => s.length - 1 - k)

/-- `net.SplitHostPort` (go1.23 net/ipsock.go), `none` = error -/
def splitHostPort (hp : Str) : Option (Str × Str) :=
  match lastIdxOfB colon hp with
  | none => none                                   -- missing port
  | some i =>
    if hp.head? = some lbr then
      match idxOfB rbr hp with
      | none => none                               -- missing ']'
      | some e =>
        if e + 1 = hp.length then none             -- missing port
        else if e + 1 = i then
          if (hp.drop 1).contains lbr then none    -- unexpected '['
          else if (hp.drop (e + 1)).contains rbr then none
          else some ((hp.take e).drop 1, hp.drop (i + 1))
        else none                                  -- too many colons / missing port
    else
      let host := hp.take i
      if host.contains colon then none             -- too many colons
      else if hp.contains lbr then none
      else if hp.contains rbr then none
      else some (host, hp.drop (i + 1))

def isDigit (c : Nat) : Bool := 48 ≤ c && c ≤ 57

/-- `strconv.Atoi` on a 64-bit platform: optional sign, decimal digits only, int64 range -/
def atoi (s : Str) : Option Int :=
  let neg := s.head? = some 45
  let ds := if s.head? = some 45 ∨ s.head? = some 43 then s.drop 1 else s
  if ds = [] then none
  else if !ds.all isDigit then none
  else
    let n : Nat := ds.foldl (fun a d => a * 10 + (d - 48)) 0
    if neg then (if n > 2 ^ 63 then none else some (-(n : Int)))
    else (if n ≥ 2 ^ 63 then none else some (n : Int))

/-- `strconv.FormatInt(n, 10)` -/
def fmtInt (n : Int) : Str :=
  if n < 0 then 45 :: (Nat.toDigits 10 n.natAbs).map (·.toNat)
  else (Nat.toDigits 10 n.natAbs).map (·.toNat)

/-- nathole.go `parseIPs`: hosts of the addresses that split; the others are silently dropped -/
def parseIPs (addrs : List Str) : List Str :=
  addrs.filterMap (fun a => (splitHostPort a).map (·.1))

/-- `slices.Compact`: drop consecutive duplicates -/
def compact : List Str → List Str
  | [] => []
  | [a] => [a]
  | a :: b :: r => if a = b then compact (b :: r) else a :: compact (b :: r)

/-- what is left in the caller's slice after `slices.Compact(s)` (go ≥ 1.22): the compacted prefix,
    then zeroed ("" ) elements up to the original length -/
def compactZeroed (l : List Str) : List Str :=
  compact l ++ List.replicate (l.length - (compact l).length) []

/-! ## classify.go -/

inductive NatType | easy | hard
  deriving DecidableEq, Repr, Inhabited

inductive Behavior | noChange | ipChanged | portChanged | bothChanged
  deriving DecidableEq, Repr, Inhabited

structure Feature where
  natType : NatType := .easy
  behavior : Behavior := .noChange
  portsDifference : Int := 0
  regular : Bool := false          -- RegularPortsChange
  pub : Bool := false              -- PublicNetwork
  deriving DecidableEq, Repr, Inhabited

structure ClsSt where
  baseIP : Str := []
  basePort : Str := []
  portMax : Int := 0
  portMin : Int := 0
  ipChanged : Bool := false
  portChanged : Bool := false
  pub : Bool := false

/-- the loop body of `ClassifyNATFeature` (with f51e354: a port outside 1..65535 is an error).
    Note `if baseIP == ""` tests the *string*, so an address with an empty host (":80") keeps
    re-basing. -/
def classifyLoop (localIPs : List Str) : List Str → ClsSt → Option ClsSt
  | [], st => some st
  | addr :: rest, st =>
    match splitHostPort addr with
    | none => none
    | some (ip, port) =>
      match atoi port with
      | none => none
      | some pn =>
        if pn < 1 ∨ pn > 65535 then none           -- f51e354 "invalid port %d in address %s"
        else if st.baseIP = [] then
          classifyLoop localIPs rest
            { st with baseIP := ip, basePort := port, portMax := pn, portMin := pn,
                      pub := st.pub || localIPs.contains ip }
        else
          classifyLoop localIPs rest
            { st with portMax := if pn > st.portMax then pn else st.portMax,
                      portMin := if pn < st.portMin then pn else st.portMin,
                      ipChanged := st.ipChanged || decide (st.baseIP ≠ ip),
                      portChanged := st.portChanged || decide (st.basePort ≠ port),
                      pub := st.pub || localIPs.contains ip }

/-- the loop of the PINNED tree (before f51e354): ports are whatever `Atoi` accepts (negative,
    zero, > 65535).  Kept as documentation; used only by the `…Old` witnesses. -/
def classifyLoopOld (localIPs : List Str) : List Str → ClsSt → Option ClsSt
  | [], st => some st
  | addr :: rest, st =>
    match splitHostPort addr with
    | none => none
    | some (ip, port) =>
      match atoi port with
      | none => none
      | some pn =>
        if st.baseIP = [] then
          classifyLoopOld localIPs rest
            { st with baseIP := ip, basePort := port, portMax := pn, portMin := pn,
                      pub := st.pub || localIPs.contains ip }
        else
          classifyLoopOld localIPs rest
            { st with portMax := if pn > st.portMax then pn else st.portMax,
                      portMin := if pn < st.portMin then pn else st.portMin,
                      ipChanged := st.ipChanged || decide (st.baseIP ≠ ip),
                      portChanged := st.portChanged || decide (st.basePort ≠ port),
                      pub := st.pub || localIPs.contains ip }

/-- the `switch` after the loop -/
def behaviorOf (st : ClsSt) : Behavior :=
  if st.ipChanged && st.portChanged then .bothChanged
  else if st.ipChanged then .ipChanged
  else if st.portChanged then .portChanged
  else .noChange

def natTypeOf (b : Behavior) : NatType := if b = .noChange then .easy else .hard

def featureOf (st : ClsSt) : Feature :=
  let bh := behaviorOf st
  let d : Int := if bh = .portChanged then st.portMax - st.portMin else 0
  { natType := natTypeOf bh, behavior := bh, portsDifference := d,
    regular := decide (bh = .portChanged ∧ d ≤ 5 ∧ d ≥ 1), pub := st.pub }

/-- `ClassifyNATFeature(addresses, localIPs)`; `none` = error -/
def classify (addrs localIPs : List Str) : Option Feature :=
  if addrs.length ≤ 1 then none else
  match classifyLoop localIPs addrs {} with
  | none => none
  | some st => some (featureOf st)

/-- `ClassifyNATFeature` of the pinned tree -/
def classifyOld (addrs localIPs : List Str) : Option Feature :=
  if addrs.length ≤ 1 then none else
  match classifyLoopOld localIPs addrs {} with
  | none => none
  | some st => some (featureOf st)

/-- `ClassifyFeatureCount([c, v])` = (easy, hard, regular-among-hard) -/
def featureCount (fs : List Feature) : Nat × Nat × Nat :=
  fs.foldl (fun (acc : Nat × Nat × Nat) f =>
    if f.natType = .easy then (acc.1 + 1, acc.2.1, acc.2.2)
    else (acc.1, acc.2.1 + 1, if f.regular then acc.2.2 + 1 else acc.2.2)) (0, 0, 0)

/-! ## analysis.go -/

/-- `getBehaviorByMode` (regenerated switch) -/
def behaviorsByMode (mode : Nat) : List (Beh × Beh) :=
  match modeCases.lookup mode with
  | some t => t
  | none => modeDefault

/-- `getBehaviorByModeAndIndex`: out-of-range index yields two empty behaviours -/
def behaviorByModeAndIndex (mode index : Nat) : Beh × Beh :=
  match (behaviorsByMode mode)[index]? with
  | some p => p
  | none => ({}, {})

structure Score where
  mode : Nat
  index : Nat
  score : Int
  deriving DecidableEq, Repr

def scoresFrom (mode : Nat) (sender receiver : Int) : List (Beh × Beh) → Nat → List Score
  | [], _ => []
  | p :: r, i => { mode := mode, index := i, score := if p.1.role = .sender then sender else receiver }
                  :: scoresFrom mode sender receiver r (i + 1)

/-- `getBehaviorScoresByMode2` -/
def scoresByMode2 (mode : Nat) (sender receiver : Int) : List Score :=
  scoresFrom mode sender receiver (behaviorsByMode mode) 0

def scoresByMode (mode : Nat) (d : Int) : List Score := scoresByMode2 mode d d

/-- `NewMakeHoleRecords(c, v)` -/
def newRecords (c v : Feature) : List Score :=
  let (easy, hard, reg) := featureCount [c, v]
  let mode0 :=
    if c.pub then scoresByMode2 detectMode0 0 1
    else if v.pub then scoresByMode2 detectMode0 1 0
    else scoresByMode detectMode0 0
  if easy = 2 then mode0
  else if hard = 1 ∧ reg = 1 then scoresByMode detectMode1 0 ++ scoresByMode detectMode2 0 ++ mode0
  else if hard = 1 ∧ reg = 0 then scoresByMode detectMode2 0 ++ scoresByMode detectMode1 0 ++ mode0
  else if hard = 2 ∧ reg = 2 then scoresByMode detectMode3 0 ++ scoresByMode detectMode4 0
  else if hard = 2 ∧ reg = 1 then scoresByMode detectMode4 0
  else scoresByMode detectMode0 1 ++ scoresByMode detectMode1 1 ++ scoresByMode detectMode3 1

/-- `MakeHoleRecords.ReportSuccess`: first entry with that (mode, index): +2, capped at 10 -/
def reportSuccess (mode index : Nat) : List Score → List Score
  | [] => []
  | s :: r =>
    if s.mode ≠ mode ∨ s.index ≠ index then s :: reportSuccess mode index r
    else { s with score := min (s.score + 2) 10 } :: r

/-- position of the first maximum (`slices.MaxFunc` returns the first maximal element) -/
def firstMaxPos : List Score → Nat
  | [] => 0
  | a :: rest =>
    match rest[firstMaxPos rest]? with
    | some b => if b.score > a.score then firstMaxPos rest + 1 else 0
    | none => 0

def decAt : List Score → Nat → List Score
  | [], _ => []
  | s :: r, 0 => { s with score := s.score - 1 } :: r
  | s :: r, k + 1 => s :: decAt r k

/-- `MakeHoleRecords.Recommand`: (0,0) on an empty list, else the first maximum, decremented -/
def recommand (scores : List Score) : List Score × Nat × Nat :=
  match scores[firstMaxPos scores]? with
  | none => (scores, 0, 0)
  | some s => (decAt scores (firstMaxPos scores), s.mode, s.index)

structure Analyzer where
  records : List (Str × List Score) := []

/-- the three swap rules of `GetRecommandBehaviors` -/
def swapRule (mode : Nat) (c : Feature) (ab : Beh × Beh) : Beh × Beh :=
  if mode = detectMode1 then (if c.natType = .easy then (ab.2, ab.1) else ab)
  else if mode = detectMode2 then (if c.natType = .hard then (ab.2, ab.1) else ab)
  else if mode = detectMode4 then (if !c.regular then (ab.2, ab.1) else ab)
  else ab

structure Recommendation where
  mode : Nat
  index : Nat
  cBeh : Beh
  vBeh : Beh
  deriving DecidableEq, Repr

/-- `Analyzer.GetRecommandBehaviors(key, c, v)` -/
def getRecommand (A : Analyzer) (key : Str) (c v : Feature) : Analyzer × Recommendation :=
  let recs := match aget A.records key with
    | some r => r
    | none => newRecords c v
  let (recs', mode, index) := recommand recs
  let cv := swapRule mode c (behaviorByModeAndIndex mode index)
  ({ records := aput A.records key recs' }, { mode := mode, index := index, cBeh := cv.1, vBeh := cv.2 })

/-- `Analyzer.ReportSuccess(key, mode, index)` -/
def analyzerReport (A : Analyzer) (key : Str) (mode index : Nat) : Analyzer :=
  match aget A.records key with
  | none => A
  | some r => { records := aput A.records key (reportSuccess mode index r) }

/-- `Analyzer.Clean` dropping one key (which keys are old enough is the clock's business) -/
def analyzerForget (A : Analyzer) (key : Str) : Analyzer := { records := adel A.records key }

/-! ## controller.go: getRangePorts, analysis -/

/-- `getRangePorts(addrs, difference, maxNumber)`; ports are not range-checked -/
def getRangePorts (addrs : List Str) (difference : Int) (maxNumber : Nat) : List (Int × Int) :=
  if maxNumber = 0 then [] else
  match addrs.getLast? with
  | none => []
  | some addr =>
    match splitHostPort addr with
    | none => []
    | some (_, portStr) =>
      match atoi portStr with
      | none => []
      | some port =>
        [(max (max (port - difference - 5) (port - maxNumber)) 1,
          min (min (port + difference + 5) (port + maxNumber)) 65535)]

structure VMsg where               -- msg.NatHoleVisitor (non-pre-check fields)
  tid : Str := []
  proxyName : Str := []
  protocol : Str := []
  signed : Str := []               -- the byte string whose md5 is `SignKey`
  timestamp : Int := 0
  mapped : List Str := []
  assisted : List Str := []
  deriving DecidableEq, Repr

structure CMsg where               -- msg.NatHoleClient
  tid : Str := []
  sid : Str := []
  mapped : List Str := []
  assisted : List Str := []
  deriving DecidableEq, Repr

inductive ErrKind
  | none | noExist | authFailed | notAllowed | classifyClient | classifyVisitor
  | notifyTimeout                  -- 8d80cd3 "notify xtcp server [..] timeout"
  deriving DecidableEq, Repr, Inhabited

structure Resp where               -- msg.NatHoleResp with its NatHoleDetectBehavior
  tid : Str := []
  sid : Str := []
  protocol : Str := []
  candidateAddrs : List Str := []
  assistedAddrs : List Str := []
  role : Role := .none
  mode : Nat := 0
  ttl : Nat := 0
  sendDelayMs : Nat := 0
  readTimeoutMs : Nat := 0
  candidatePorts : List (Int × Int) := []
  sendRandomPorts : Nat := 0
  listenRandomPorts : Nat := 0
  error : ErrKind := .none
  deriving DecidableEq, Repr

/-- `GenNatHoleResponse(tid, nil, err)` -/
def errResp (tid : Str) (e : ErrKind) : Resp := { tid := tid, error := e }

def featStr (f : Feature) : Str :=
  (match f.natType with | .easy => Str.ofString "EasyNAT" | .hard => Str.ofString "HardNAT") ++
  (match f.behavior with
   | .noChange => Str.ofString "BehaviorNoChange" | .ipChanged => Str.ofString "BehaviorIPChanged"
   | .portChanged => Str.ofString "BehaviorPortChanged" | .bothChanged => Str.ofString "BehaviorBothChanged") ++
  (if f.regular then Str.ofString "true" else Str.ofString "false")

/-- what `genAnalysisKey` writes into md5 (visitor first, then client) -/
def analysisKey (vm : VMsg) (vf : Feature) (cm : CMsg) (cf : Feature) : Str :=
  ((parseIPs vm.mapped).head?.getD []) ++ featStr vf ++ ((parseIPs cm.mapped).head?.getD []) ++ featStr cf

structure AnalysisOut where
  vResp : Resp
  cResp : Resp
  key : Str
  mode : Nat
  index : Nat

/-- `Controller.analysis(session)` over a classifier; `Except.error` carries the kind both parties are told -/
def analysisWith (cls : List Str → List Str → Option Feature)
    (A : Analyzer) (sid : Str) (vm : VMsg) (cm : CMsg) : Except ErrKind (Analyzer × AnalysisOut) :=
  match cls cm.mapped (parseIPs cm.assisted) with
  | none => .error .classifyClient
  | some cf =>
    match cls vm.mapped (parseIPs vm.assisted) with
    | none => .error .classifyVisitor
    | some vf =>
      let key := analysisKey vm vf cm cf
      let (A', r) := getRecommand A key cf vf
      let timeout0 := max r.cBeh.sendDelayMs r.vBeh.sendDelayMs + 5000
      let timeoutMs := if r.cBeh.listenRandomPorts > 0 ∨ r.vBeh.listenRandomPorts > 0 then timeout0 + 30000 else timeout0
      let vResp : Resp :=
        { tid := vm.tid, sid := sid, protocol := vm.protocol,
          candidateAddrs := compact cm.mapped, assistedAddrs := compact cm.assisted,
          role := r.vBeh.role, mode := r.mode, ttl := r.vBeh.ttl, sendDelayMs := r.vBeh.sendDelayMs,
          readTimeoutMs := timeoutMs - r.vBeh.sendDelayMs,
          -- the struct literal evaluates `slices.Compact(cm.MappedAddrs)` first: getRangePorts then sees
          -- the slice with its tail zeroed
          candidatePorts := getRangePorts (compactZeroed cm.mapped) cf.portsDifference r.vBeh.portsRangeNumber,
          sendRandomPorts := r.vBeh.portsRandomNumber, listenRandomPorts := r.vBeh.listenRandomPorts }
      let cResp : Resp :=
        { tid := cm.tid, sid := sid, protocol := vm.protocol,
          candidateAddrs := compact vm.mapped, assistedAddrs := compact vm.assisted,
          role := r.cBeh.role, mode := r.mode, ttl := r.cBeh.ttl, sendDelayMs := r.cBeh.sendDelayMs,
          readTimeoutMs := timeoutMs - r.cBeh.sendDelayMs,
          candidatePorts := getRangePorts (compactZeroed vm.mapped) vf.portsDifference r.cBeh.portsRangeNumber,
          sendRandomPorts := r.cBeh.portsRandomNumber, listenRandomPorts := r.cBeh.listenRandomPorts }
      .ok (A', { vResp := vResp, cResp := cResp, key := key, mode := r.mode, index := r.index })

/-- `Controller.analysis(session)` (current code) -/
def analysis (A : Analyzer) (sid : Str) (vm : VMsg) (cm : CMsg) : Except ErrKind (Analyzer × AnalysisOut) :=
  analysisWith classify A sid vm cm

/-- `Controller.analysis(session)` of the pinned tree -/
def analysisOld (A : Analyzer) (sid : Str) (vm : VMsg) (cm : CMsg) : Except ErrKind (Analyzer × AnalysisOut) :=
  analysisWith classifyOld A sid vm cm

/-! ## controller.go: sessions (small-step) -/

structure Cfg where                -- ClientCfg
  sk : Str
  allow : List Str
  chan : Nat                       -- identity of the `sidCh` made by this ListenClient call
  deriving DecidableEq, Repr

/-- where the `HandleVisitor` goroutine of a session stands -/
inductive Phase
  | notifying (chan : Nat)         -- in the `select` on `clientCfg.sidCh <- sid` / time.After(NatHoleTimeout) (8d80cd3)
  | waiting                        -- in the `select` on notifyCh / time.After(NatHoleTimeout)
  | responding (vr cr : Resp) (vSent cSent : Bool) -- analysis done (vResp, cResp built), the two sender goroutines running
  | sleeping                       -- `time.Sleep(ReadTimeoutMs + 30000 ms)` before the deferred delete
  deriving DecidableEq, Repr

structure Session where
  vmsg : VMsg
  vT : Nat                         -- visitorTransporter
  cmsg : Option CMsg := none       -- clientMsg (last HandleClient wins)
  cT : Option Nat := none          -- clientTransporter (read at send time)
  notified : Bool := false         -- notifyCh (buffer 1) holds a token
  key : Str := []                  -- analysisKey ("" until analysis ran)
  mode : Nat := 0
  index : Nat := 0
  phase : Phase
  deriving Repr

structure State where
  cfgs : List (Str × Cfg) := []
  sessions : List (Str × Session) := []
  analyzer : Analyzer := {}
  nextChan : Nat := 0

inductive Label
  | listen (name sk : Str) (allow : List Str)      -- ListenClient
  | close (name : Str)                             -- CloseClient (+ the owner loop stops reading)
  | precheck (m : VMsg) (t : Nat) (user : Str)     -- HandleVisitor, PreCheck branch
  | visitorLookup (sid : Str) (m : VMsg) (t : Nat) (user : Str)  -- the critical section of HandleVisitor
  | notify (sid : Str)                             -- the send on sidCh is received by the owner loop
  | notifyTimeout (sid : Str)                      -- 8d80cd3 the send timed out: error to the visitor; deferred delete
  | clientMsg (m : CMsg) (t : Nat)                 -- HandleClient
  | wake (sid : Str)                               -- select takes notifyCh; analysis; responses built
  | timeout (sid : Str)                            -- select takes time.After; deferred delete
  | sendV (sid : Str)                              -- visitorTransporter.Send(vResp)
  | sendC (sid : Str)                              -- clientTransporter.Send(cResp)
  | sleepDone (sid : Str)                          -- final sleep over; deferred delete
  | report (sid : Str) (success : Bool)            -- HandleReport
  | clean (key : Str)                              -- Analyzer.Clean drops a key

/-- the owner loop of a channel is receiving iff a registered config still holds that channel
    (xtcp.go: the loop runs from Run until Close, and Close removes the config) -/
def chanAlive (cfgs : List (Str × Cfg)) (ch : Nat) : Bool := cfgs.any (fun p => p.2.chan == ch)

/-- `util.GetAuthKey(sk, ts)` before md5: token ++ decimal timestamp -/
def authInput (sk : Str) (ts : Int) : Str := sk ++ fmtInt ts

/-- `slices.Contains(allowUsers, user) || slices.Contains(allowUsers, "*")` -/
def userAllowed (allow : List Str) (user : Str) : Bool := allow.contains user || allow.contains [Str.star]

abbrev Out := List (Nat × Resp)

def finishSend (sess : Session) (vr cr : Resp) (v c : Bool) : Session :=
  if v && c then { sess with phase := .sleeping } else { sess with phase := .responding vr cr v c }

/-- one atomic action; `none` = not enabled in this state -/
def step (s : State) : Label → Option (State × Out)
  | .listen name sk allow =>
    match aget s.cfgs name with
    | some _ => some (s, [])                       -- "proxy is repeated"
    | none => some ({ s with cfgs := aput s.cfgs name { sk := sk, allow := allow, chan := s.nextChan },
                             nextChan := s.nextChan + 1 }, [])
  | .close name => some ({ s with cfgs := adel s.cfgs name }, [])
  | .precheck m t user =>
    match aget s.cfgs m.proxyName with
    | none => some (s, [(t, errResp m.tid .noExist)])
    | some cfg =>
      if !userAllowed cfg.allow user then some (s, [(t, errResp m.tid .notAllowed)])
      else some (s, [(t, errResp m.tid .none)])
  | .visitorLookup sid m t user =>
    match aget s.sessions sid with
    | some _ => none                               -- assumption: GenSid does not repeat a live sid
    | none =>
      match aget s.cfgs m.proxyName with
      | none => some (s, [(t, errResp m.tid .noExist)])
      | some cfg =>
        if m.signed ≠ authInput cfg.sk m.timestamp then some (s, [(t, errResp m.tid .authFailed)])
        -- <C08 fix>: the allow list is consulted on this branch too
        else if !userAllowed cfg.allow user then some (s, [(t, errResp m.tid .notAllowed)])
        else some ({ s with sessions := aput s.sessions sid { vmsg := m, vT := t, phase := .notifying cfg.chan } }, [])
  | .notify sid =>
    match aget s.sessions sid with
    | some sess =>
      match sess.phase with
      | .notifying ch =>
        if chanAlive s.cfgs ch then some ({ s with sessions := aput s.sessions sid { sess with phase := .waiting } }, [])
        else none
      | _ => none
    | none => none
  | .notifyTimeout sid =>
    match aget s.sessions sid with
    | some sess =>
      match sess.phase with
      | .notifying _ =>
        some ({ s with sessions := adel s.sessions sid }, [(sess.vT, errResp sess.vmsg.tid .notifyTimeout)])
      | _ => none
    | none => none
  | .clientMsg m t =>
    match aget s.sessions m.sid with
    | none => some (s, [])
    | some sess =>
      some ({ s with sessions := aput s.sessions m.sid { sess with cmsg := some m, cT := some t, notified := true } }, [])
  | .wake sid =>
    match aget s.sessions sid with
    | some sess =>
      match sess.phase, sess.notified, sess.cmsg, sess.cT with
      | .waiting, true, some cm, some _ =>         -- HandleClient sets clientMsg and clientTransporter together
        match analysis s.analyzer sid sess.vmsg cm with
        | .ok (A', o) =>
          some ({ s with analyzer := A',
                         sessions := aput s.sessions sid
                           { sess with notified := false, key := o.key, mode := o.mode, index := o.index,
                                       phase := .responding o.vResp o.cResp false false } }, [])
        | .error e =>
          some ({ s with sessions := aput s.sessions sid
                           { sess with notified := false,
                                       phase := .responding (errResp sess.vmsg.tid e) (errResp cm.tid e) false false } }, [])
      | _, _, _, _ => none
    | none => none
  | .timeout sid =>
    match aget s.sessions sid with
    | some sess =>
      match sess.phase with
      | .waiting => some ({ s with sessions := adel s.sessions sid }, [])
      | _ => none
    | none => none
  | .sendV sid =>
    match aget s.sessions sid with
    | some sess =>
      match sess.phase with
      | .responding vr cr false c =>
        some ({ s with sessions := aput s.sessions sid (finishSend sess vr cr true c) }, [(sess.vT, vr)])
      | _ => none
    | none => none
  | .sendC sid =>
    match aget s.sessions sid with
    | some sess =>
      match sess.phase, sess.cT with
      | .responding vr cr v false, some t =>
        some ({ s with sessions := aput s.sessions sid (finishSend sess vr cr v true) }, [(t, cr)])
      | _, _ => none
    | none => none
  | .sleepDone sid =>
    match aget s.sessions sid with
    | some sess =>
      match sess.phase with
      | .sleeping => some ({ s with sessions := adel s.sessions sid }, [])
      | _ => none
    | none => none
  | .report sid success =>
    match aget s.sessions sid with
    | none => some (s, [])
    | some sess =>
      if success then some ({ s with analyzer := analyzerReport s.analyzer sess.key sess.mode sess.index }, [])
      else some (s, [])
  | .clean key => some ({ s with analyzer := analyzerForget s.analyzer key }, [])

/-- run a label sequence (`none` as soon as a label is not enabled), collecting what was sent -/
def run : State → List Label → Option (State × Out)
  | s, [] => some (s, [])
  | s, l :: ls =>
    match step s l with
    | none => none
    | some (s', o) =>
      match run s' ls with
      | none => none
      | some (s'', o') => some (s'', o ++ o')

/-! ## the pinned tree (before f51e354, 8d80cd3 and the C08 allow-list fix), kept as documentation -/

/-- `step` of the pinned tree: no timeout on the notify send, the session branch of HandleVisitor
    does not consult `allowUsers`, the analysis accepts any port `Atoi` accepts -/
def stepOld (s : State) : Label → Option (State × Out)
  | .notifyTimeout _ => none
  | .visitorLookup sid m t _user =>
    match aget s.sessions sid with
    | some _ => none
    | none =>
      match aget s.cfgs m.proxyName with
      | none => some (s, [(t, errResp m.tid .noExist)])
      | some cfg =>
        if m.signed ≠ authInput cfg.sk m.timestamp then some (s, [(t, errResp m.tid .authFailed)])
        else some ({ s with sessions := aput s.sessions sid { vmsg := m, vT := t, phase := .notifying cfg.chan } }, [])
  | .wake sid =>
    match aget s.sessions sid with
    | some sess =>
      match sess.phase, sess.notified, sess.cmsg, sess.cT with
      | .waiting, true, some cm, some _ =>
        match analysisOld s.analyzer sid sess.vmsg cm with
        | .ok (A', o) =>
          some ({ s with analyzer := A',
                         sessions := aput s.sessions sid
                           { sess with notified := false, key := o.key, mode := o.mode, index := o.index,
                                       phase := .responding o.vResp o.cResp false false } }, [])
        | .error e =>
          some ({ s with sessions := aput s.sessions sid
                           { sess with notified := false,
                                       phase := .responding (errResp sess.vmsg.tid e) (errResp cm.tid e) false false } }, [])
      | _, _, _, _ => none
    | none => none
  | l => step s l

def runOld : State → List Label → Option (State × Out)
  | s, [] => some (s, [])
  | s, l :: ls =>
    match stepOld s l with
    | none => none
    | some (s', o) =>
      match runOld s' ls with
      | none => none
      | some (s'', o') => some (s'', o ++ o')

end NatHole
end Frp
