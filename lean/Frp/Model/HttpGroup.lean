import Frp.Model.HttpRewrite
/-
  Model of the route an http LOAD-BALANCING GROUP puts into the vhost router (C02: "changed only by what the
  configuration declares" must hold for a proxy whether or not it is a member of a group).

    pkg/util/vhost/vhost.go   type RouteConfig: Domain, Location, RewriteHost, Username, Password, Headers,
                              ResponseHeaders, RouteByHTTPUser + CreateConnFn, ChooseEndpointFn,
                              CreateConnByEndpointFn (+ regID)
    server/proxy/http.go      HTTPProxy.Run: one RouteConfig per (domain, location) from the proxy's declared
                              options; `LoadBalancer.Group != ""` → HTTPGroupCtl.Register(name, group, key, rc),
                              else HTTPReverseProxy.Register(rc)
    server/group/http.go      (*HTTPGroup).Register, first member:
                                  tmp := routeConfig // copy object
                                  tmp.CreateConnFn = g.createConn; tmp.ChooseEndpointFn = g.chooseEndpoint
                                  tmp.CreateConnByEndpointFn = g.createConnByEndpoint
                                  g.ctl.vhostRouter.Add(domain, location, routeByHTTPUser, &tmp)
                              later members only join `createFuncs` / `pxyNames` (domain, location, routeByHTTPUser,
                              username, password must equal the group's, else ErrGroupParamsInvalid)

  `Route` = the declared options + who hands out backend connections.  `groupRoute` is the code as it is;
  `groupRouteBy carried` is the family "a route built from the member's by carrying the fields named in
  `carried`" — the shape a field-by-field construction has; Gen/HttpFacts.groupCarried says which member of the
  family the source is.
-/
namespace Frp
namespace HttpGroup
open Str HttpRewrite

/-- the three connection functions of a RouteConfig, as one value -/
inductive ConnSrc
  | own (proxy : Nat)        -- `pxy.GetRealConn` of one proxy
  | group (g : Nat)          -- `g.createConn` / `g.chooseEndpoint` / `g.createConnByEndpoint`
deriving DecidableEq, Repr

/-- `vhost.RouteConfig` -/
structure Route where
  rc           : RouteCfg    -- Domain, Location, RouteByHTTPUser, RewriteHost, Headers, ResponseHeaders
  httpUser     : Str         -- Username
  httpPassword : Str         -- Password
  src          : ConnSrc
deriving DecidableEq, Repr

/-- the option fields of vhost.RouteConfig (what the configuration declares), declaration order -/
def optionFields : List String :=
  ["Domain", "Location", "RewriteHost", "Username", "Password", "Headers", "ResponseHeaders", "RouteByHTTPUser"]

/-- the connection functions -/
def connFields : List String := ["CreateConnFn", "ChooseEndpointFn", "CreateConnByEndpointFn"]

/-- (*HTTPGroup).Register as it is: a copy of the member's RouteConfig with the connection functions replaced -/
def groupRoute (g : Nat) (m : Route) : Route := { m with src := .group g }

def carry {α : Type} (carried : List String) (f : String) (v zero : α) : α :=
  if carried.contains f then v else zero

/-- a route built field by field: the fields named in `carried` come from the member, the others are Go's zero -/
def groupRouteBy (carried : List String) (g : Nat) (m : Route) : Route :=
  { rc := { domain := carry carried "Domain" m.rc.domain []
          , location := carry carried "Location" m.rc.location []
          , routeUser := carry carried "RouteByHTTPUser" m.rc.routeUser []
          , rewriteHost := carry carried "RewriteHost" m.rc.rewriteHost []
          , headers := carry carried "Headers" m.rc.headers []
          , respHeaders := carry carried "ResponseHeaders" m.rc.respHeaders [] }
  , httpUser := carry carried "Username" m.httpUser []
  , httpPassword := carry carried "Password" m.httpPassword []
  , src := .group g }

/-- `HTTPReverseProxy.CheckAuth` on the route the request resolves to -/
def authOk (r : Route) (user pass : Str) : Bool :=
  !(r.httpUser ≠ [] || r.httpPassword ≠ []) || (r.httpUser = user && r.httpPassword = pass)

/-- what the user of a request `q` (credentials `user` / `pass`, peer address `ip`) and the backend observe through
    route `r` when the backend answers `resp`: `none` = the 401 challenge -/
def exchange (r : Route) (q : Req) (user pass : Str) (ip : Str) (resp : Resp) : Option (Req × Resp) :=
  if authOk r user pass then some (backendSees (some r.rc) q (some ip) false, userSees (some r.rc) q.method resp)
  else none

end HttpGroup
end Frp
