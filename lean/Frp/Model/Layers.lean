import Frp.Model.Limit
/-
  C01 — per-connection wrapper stacks and the stream-layer abstraction.  Hand-written mirror of

    server/proxy/proxy.go   handleUserTCPConnection   → `serverStack`   (enc, comp, limiter)
    server/proxy/http.go    GetRealConn               → `httpRealConnStack` (same order)
    server/proxy/udp.go     Run (work conn wrap)      → `serverUdpStack`
    client/proxy/proxy.go   HandleTCPWorkConnection   → `clientStack`   (limiter, enc, comp)
    client/proxy/udp.go, sudp.go                      → `clientUdpStack`
    client/visitor/stcp.go, xtcp.go  handleConn       → `visitorStack`  (enc, comp)
    server/visitor/visitor.go  Manager.NewConn        → `visitorServerStack` (enc, comp)

  Stacks are listed from the wire (work / visitor connection) upwards.

  A *layer* is a pair of stateful transducers: the encoder turns one `Write(p)` into the `Write`s it
  issues on the layer below, the decoder turns one chunk arriving from below into the bytes it
  makes available above.  golib `crypto.Writer/Reader` (IV first, then AES-CFB stream) and
  `snappy.Writer/Reader` (unbuffered writer: every Write is emitted as frames at once) are such
  layers; that they satisfy the law (`Lawful`) is ASSUMED (cryptography / compression are not
  modelled) and sampled by the `stack` and `e2e` engines.  `headerMap` is a lawful layer with the
  same shape as the cipher layer (header on first write, stateful decoder) showing the law is
  satisfiable; `rechunk` is the limiter (`limit.Writer` re-chunks, `limit.Reader` passes through).
-/
namespace Frp
namespace Layers


inductive Kind | limit | enc | comp
  deriving DecidableEq, Repr

/-- the option combination of one proxy as both ends see it -/
structure Opts where
  enc : Bool       -- transport.useEncryption
  comp : Bool      -- transport.useCompression
  limSrv : Bool    -- bandwidthLimit > 0 ∧ bandwidthLimitMode = "server"  (server NewProxy)
  limCli : Bool    -- bandwidthLimit > 0 ∧ bandwidthLimitMode = "client"  (client NewProxy)
  deriving DecidableEq, Repr

def opt (b : Bool) (k : Kind) : List Kind := if b then [k] else []

/-- handleUserTCPConnection: `if UseEncryption {WithEncryption}; if UseCompression
    {WithCompressionFromPool}; if limiter != nil {WrapReadWriteCloser(limit.NewReader, limit.NewWriter)}` -/
def serverStack (o : Opts) : List Kind := opt o.enc .enc ++ opt o.comp .comp ++ opt o.limSrv .limit

/-- GetRealConn (http): same order -/
def httpRealConnStack (o : Opts) : List Kind := serverStack o

/-- server/proxy/udp.go: same order -/
def serverUdpStack (o : Opts) : List Kind := serverStack o

/-- HandleTCPWorkConnection: `if limiter != nil {…}; if UseEncryption {…}; if UseCompression {…}` -/
def clientStack (o : Opts) : List Kind := opt o.limCli .limit ++ opt o.enc .enc ++ opt o.comp .comp

def clientUdpStack (o : Opts) : List Kind := clientStack o

/-- stcp / xtcp visitor `handleConn` (options of the VISITOR config) -/
def visitorStack (enc comp : Bool) : List Kind := opt enc .enc ++ opt comp .comp

/-- `visitor.Manager.NewConn(…, useEncryption, useCompression, …)` (flags from NewVisitorConn) -/
def visitorServerStack (enc comp : Bool) : List Kind := opt enc .enc ++ opt comp .comp

/-- the byte-transforming part of a stack (the limiter does not change bytes) -/
def transforming (st : List Kind) : List Kind := st.filter (· != .limit)

/-! ## Stream layers -/

structure Layer where
  σ : Type
  δ : Type
  e0 : σ
  d0 : δ
  /-- one `Write(p)` above → the `Write`s issued below -/
  enc : σ → C01Bytes → σ × List C01Bytes
  /-- one chunk arriving from below → bytes made available above -/
  dec : δ → C01Bytes → δ × C01Bytes

def Layer.encRun (L : Layer) : L.σ → List C01Bytes → L.σ × List C01Bytes
  | s, [] => (s, [])
  | s, p :: ps =>
    let r := L.enc s p
    let r2 := L.encRun r.1 ps
    (r2.1, r.2 ++ r2.2)

/-- decoder run, keeping the per-chunk outputs -/
def Layer.decChunks (L : Layer) : L.δ → List C01Bytes → L.δ × List C01Bytes
  | d, [] => (d, [])
  | d, c :: cs =>
    let r := L.dec d c
    let r2 := L.decChunks r.1 cs
    (r2.1, r.2 :: r2.2)

/-- everything the encoder puts on the layer below for the writes `ps` -/
def Layer.Eout (L : Layer) (ps : List C01Bytes) : List C01Bytes := (L.encRun L.e0 ps).2

def Layer.Dchunks (L : Layer) (cs : List C01Bytes) : List C01Bytes := (L.decChunks L.d0 cs).2

/-- everything the reader above sees after the chunks `cs` arrived from below -/
def Layer.Dout (L : Layer) (cs : List C01Bytes) : C01Bytes := (L.Dchunks cs).flatten

/-- the law: (mono) more bytes from below never retract what was delivered, whatever the chunking;
    (roundtrip) decoding the encoder's complete output yields exactly what was written.
    Together: decoding ANY re-chunking of ANY prefix of the encoder's output yields a prefix of the
    input, and all of it once everything arrived (`transparent_prefix`, `transparent_complete`). -/
structure Lawful (L : Layer) : Prop where
  mono : ∀ xs ys : List C01Bytes, xs.flatten <+: ys.flatten → L.Dout xs <+: L.Dout ys
  roundtrip : ∀ ps : List C01Bytes, L.Dout (L.Eout ps) = ps.flatten

/-- `up` stacked on `lo` (lo is nearer to the wire) -/
@[reducible] def comp (up lo : Layer) : Layer where
  σ := up.σ × lo.σ
  δ := lo.δ × up.δ
  e0 := (up.e0, lo.e0)
  d0 := (lo.d0, up.d0)
  enc s p :=
    let r := up.enc s.1 p
    let r2 := lo.encRun s.2 r.2
    ((r.1, r2.1), r2.2)
  dec d c :=
    let r := lo.dec d.1 c
    let r2 := up.dec d.2 r.2
    ((r.1, r2.1), r2.2)

/-- no layer at all -/
@[reducible] def idLayer : Layer where
  σ := Unit
  δ := Unit
  e0 := ()
  d0 := ()
  enc s p := (s, [p])
  dec d c := (d, c)

/-- a stack listed from the wire upwards -/
def stackLayer : List Layer → Layer
  | [] => idLayer
  | l :: rest => comp (stackLayer rest) l

/-- a layer that only re-chunks on the way down and passes through on the way up: the limiter
    (`limit.Writer` = `Limit.chunks burst`, `limit.Reader` returns what the reader below returned) -/
@[reducible] def rechunk (f : C01Bytes → List C01Bytes) : Layer where
  σ := Unit
  δ := Unit
  e0 := ()
  d0 := ()
  enc s p := (s, f p)
  dec d c := (d, c)

def limiterLayer (burst : Nat) : Layer := rechunk (Limit.chunks burst)

/-- shape of the cipher layer: a header (`iv`) is written before the first payload byte, then a
    bytewise bijection; the decoder first swallows `hdr.length` bytes (across chunk boundaries) -/
@[reducible] def headerMap (hdr : C01Bytes) (f g : Nat → Nat) : Layer where
  σ := Bool                  -- header already sent (`ivSend`)
  δ := Nat                   -- header bytes still to swallow
  e0 := false
  d0 := hdr.length
  enc s p := (true, if s then [p.map f] else [hdr, p.map f])
  dec k c := (k - c.length, (c.drop k).map g)

/-- instantiate a stack of kinds with concrete layers -/
def instantiate (encL compL : Layer) (burst : Nat) : List Kind → List Layer
  | [] => []
  | .enc :: r => encL :: instantiate encL compL burst r
  | .comp :: r => compL :: instantiate encL compL burst r
  | .limit :: r => limiterLayer burst :: instantiate encL compL burst r

end Layers
end Frp
