/-
  Model of the application-heartbeat watchdogs.

  server/control.go  heartbeatWorker : if HeartbeatTimeout <= 0 return; wait.Until(check, 1s)
                     check           : time.Since(lastPing) > timeout*1s  ⇒ conn.Close()
                     handlePing      : plugin+VerifyPing error ⇒ reply Pong{Error}, lastPing NOT refreshed,
                                       connection NOT closed;  ok ⇒ lastPing = now, reply Pong{}
  client/control.go  heartbeatWorker : checker only if HeartbeatInterval > 0 && HeartbeatTimeout > 0
                     check           : time.Since(lastPong) > timeout*1s ⇒ closeSession()
                     handlePong      : Error != "" ⇒ closeSession() (lastPong not refreshed); else lastPong = now
  pkg/config/v1/{client,server}.go Complete : defaults 30/90, or -1 (disabled) when tcpMux is on.

  Time is a `Nat` in an arbitrary unit (the engine uses milliseconds); `T` is the timeout in that
  unit; events carry their time stamp.
-/
namespace Frp
namespace Watchdog

inductive Ev
  | beat (valid : Bool)     -- server: Ping (valid = plugin and VerifyPing passed); client: Pong (valid = Error == "")
  | check                   -- one firing of the 1 s checker
deriving Repr, DecidableEq

inductive Reason | timeout | badPong
deriving Repr, DecidableEq

structure Cfg where
  enabled    : Bool         -- the checker goroutine exists
  T          : Nat          -- timeout in time units
  closeOnBad : Bool         -- client: a Pong carrying an error closes the session; server: false
deriving Repr, DecidableEq

structure St where
  last   : Nat                          -- lastPing / lastPong
  closed : Option (Nat × Reason) := none
deriving Repr, DecidableEq

/-- one event at time `t` -/
def step (c : Cfg) (s : St) (t : Nat) : Ev → St
  | .beat true  => if s.closed.isSome then s else { s with last := t }
  | .beat false => if s.closed.isSome then s else
                     if c.closeOnBad then { s with closed := some (t, .badPong) } else s
  | .check      => if s.closed.isSome then s else
                     if c.enabled ∧ t - s.last > c.T then { s with closed := some (t, .timeout) } else s

def run (c : Cfg) : St → List (Nat × Ev) → St
  | s, [] => s
  | s, (t, e) :: es => run c (step c s t e) es

/-! ### configuration (seconds, as in the config structs; 0 = unset) -/

/-- ClientTransportConfig.Complete, heartbeat part: (interval, timeout) -/
def clientComplete (tcpMux : Bool) (interval timeout : Int) : Int × Int :=
  if tcpMux then ((if interval = 0 then -1 else interval), (if timeout = 0 then -1 else timeout))
  else ((if interval = 0 then 30 else interval), (if timeout = 0 then 90 else timeout))

/-- ServerTransportConfig.Complete, heartbeat part -/
def serverComplete (tcpMux : Bool) (timeout : Int) : Int :=
  if tcpMux then (if timeout = 0 then -1 else timeout) else (if timeout = 0 then 90 else timeout)

/-- server/control.go heartbeatWorker: `if HeartbeatTimeout <= 0 { return }` -/
def serverCfg (timeoutSec : Int) (unitsPerSec : Nat) : Cfg :=
  { enabled := decide (0 < timeoutSec), T := timeoutSec.toNat * unitsPerSec, closeOnBad := false }

/-- client/control.go heartbeatWorker: `HeartbeatInterval > 0 && HeartbeatTimeout > 0` -/
def clientCfg (intervalSec timeoutSec : Int) (unitsPerSec : Nat) : Cfg :=
  { enabled := decide (0 < intervalSec) && decide (0 < timeoutSec),
    T := timeoutSec.toNat * unitsPerSec, closeOnBad := true }

/-- client pings are sent at all: `HeartbeatInterval > 0` -/
def clientPings (intervalSec : Int) : Bool := decide (0 < intervalSec)

end Watchdog
end Frp
