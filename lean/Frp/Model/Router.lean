import Frp.Model.Str
/-
  Model of pkg/util/vhost/router.go (`Routers`) and of the lookup walk shared by
  `HTTPReverseProxy.getVhost` (pkg/util/vhost/http.go) and `Muxer.getListener`
  (pkg/util/vhost/vhost.go).

  Go:  indexByDomain : map[domain] map[httpUser] []*Router   (slice kept sorted by location, descending)
  Lean: Routers = association list (domain,user) ↦ List Route, read through `bucket` (absent key = [])

  An absent key and an empty slice are indistinguishable through Add/Del/Get (Del leaves an empty
  slice behind in Go), so the total function loses nothing observable.
-/
namespace Frp
open Str

structure Route where
  domain   : Str
  location : Str
  user     : Str
  payload  : Nat
deriving DecidableEq, Repr

/-- the table as an association list keyed by (domain, user); a later entry for a key is shadowed
    by an earlier one (the driver resets often, so the list stays short) -/
structure Routers where
  tbl : List ((Str × Str) × List Route)

/-- the slice stored for (domain, user); absent = empty -/
def Routers.bucket (R : Routers) (d u : Str) : List Route :=
  match R.tbl.lookup (d, u) with
  | some v => v
  | none => []

instance : CoeFun Routers (fun _ => Str → Str → List Route) := ⟨Routers.bucket⟩

namespace Router

def empty : Routers := ⟨[]⟩

def upd (R : Routers) (d u : Str) (v : List Route) : Routers := ⟨((d, u), v) :: R.tbl⟩

/-- insert keeping descending order of `location` (what `append` + `slices.SortFunc(-cmp.Compare)`
    yields on a slice whose locations are distinct) -/
def insDesc (r : Route) : List Route → List Route
  | [] => [r]
  | x :: xs => if Str.lt x.location r.location then r :: x :: xs else x :: insDesc r xs

/-- `slices.SortFunc(vrs, -cmp.Compare(a.location, b.location))` as insertion sort -/
def sortDesc (l : List Route) : List Route := l.foldr insDesc []

inductive AddResult | ok | conflict
deriving DecidableEq, Repr

/-- `Routers.Add` -/
def add (R : Routers) (domain location user : Str) (payload : Nat) : Routers × AddResult :=
  let d := toLower domain
  if (R d user).any (fun r => r.location = location) then (R, .conflict)
  else
    let r : Route := { domain := d, location := location, user := user, payload := payload }
    (upd R d user (sortDesc (R d user ++ [r])), .ok)

/-- `Routers.Del` -/
def del (R : Routers) (domain location user : Str) : Routers :=
  let d := toLower domain
  upd R d user ((R d user).filter (fun r => r.location ≠ location))

/-- `Routers.Get`: first route of the bucket whose location is a prefix of the path -/
def get (R : Routers) (host path user : Str) : Option Route :=
  (R (toLower host) user).find? (fun r => hasPrefix path r.location)

/-- `findRouter` closure: the user's bucket, then the unrestricted bucket -/
def findRouter (R : Routers) (d path user : Str) : Option Route :=
  match get R d path user with
  | some r => some r
  | none => get R d path []

/-- the wildcard patterns tried for a host given as labels: `*.rest` while at least 3 labels -/
def wildLevels : List Str → List Str
  | [] => []
  | l :: rest =>
    if (l :: rest).length ≥ 3 then joinWith dot ([star] :: rest) :: wildLevels rest else []

/-- all host patterns tried, in order: exact, wildcards (longest suffix first), catch-all -/
def levels (host : Str) : List Str :=
  host :: (wildLevels (splitOn dot host) ++ [[star]])

/-- `getVhost` / `getListener` -/
def getVhost (R : Routers) (host path user : Str) : Option Route :=
  (levels host).findSome? (fun d => findRouter R d path user)

end Router
end Frp
