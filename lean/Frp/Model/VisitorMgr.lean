/-
  Client visitor manager — client/visitor/visitor_manager.go (`Manager`).

  ```
  UpdateAll(cfgs):
      keepVisitorsRunningOnce.Do(go vm.keepVisitorsRunning)       -- when len(cfgs) > 0
      cfgsMap := lo.KeyBy(cfgs, name)                             -- LAST entry wins for a duplicated name
      vm.mu.Lock()
      for name, oldCfg := range vm.cfgs {                         -- delete loop
          cfg, ok := cfgsMap[name]
          if !ok || !reflect.DeepEqual(oldCfg, cfg) {
              delete(vm.cfgs, name)
              if visitor, ok := vm.visitors[name]; ok { visitor.Close() }
              delete(vm.visitors, name) } }
      for _, cfg := range cfgs {                                  -- add loop, in slice order
          if _, ok := vm.cfgs[name]; !ok { vm.cfgs[name] = cfg; _ = vm.startVisitor(cfg) } }

  startVisitor(cfg):  visitor, err := NewVisitor(…cfg…); if err != nil { return }
                      err = visitor.Run(); if err == nil { vm.visitors[name] = visitor }
                      -- Run() of an stcp / xtcp visitor listens on bindAddr:bindPort when bindPort > 0,
                      -- of a sudp visitor on the udp address: it fails while another socket holds the address

  keepVisitorsRunning: every checkInterval (10 s), under vm.mu:
      for _, cfg := range vm.cfgs { if _, exist := vm.visitors[name]; !exist { _ = vm.startVisitor(cfg) } }

  Close():  for _, v := range vm.visitors { v.Close() }; close(vm.stopCh)      -- the maps are left as they are
  TransferConn(name, conn): v, ok := vm.visitors[name]; !ok ⇒ error; v.AcceptConn(conn)
  ```

  The model has the two maps, the set of bind addresses held by other programs (`squat`, the
  environment), and object stamps for the visitors.  One iteration of the body of the keep-alive
  loop for the entry named `n` is the event `tryStart n`; a pass of the loop is a list of such
  events in the (random) order of Go's map iteration, so statements over all event lists cover all
  orders and all moments at which the environment changes between two iterations.

  The unfixed shape of the add loop is kept as it is: for a name that occurs twice in `cfgs` the
  delete loop compares with the LAST entry while the add loop stores and starts the FIRST
  (proxy_manager.go was repaired by eab68f8, this file was not; see `C19.vm_dup_restart_witness`).
-/
namespace Frp
namespace VisitorMgr

/-- a visitor configuration as far as the manager looks at it: `name` (key of the diff), `port` and
    `never` (what Run() needs), everything else collapsed into `variant`; two configurations are
    `reflect.DeepEqual` iff all four components agree -/
structure VCfg where
  name : Nat
  variant : Nat
  port : Nat           -- key of the address Run() listens on; 0 = it does not listen (bindPort < 0)
  never : Bool         -- NewVisitor / Run fail for a reason inside the configuration (unknown plugin, sudp without a port)
  deriving DecidableEq, Repr

/-- a Visitor object stored in vm.visitors -/
structure V where
  cfg : VCfg
  id : Nat                 -- creation stamp
  isOpen : Bool := true    -- false once Manager.Close() has closed it (it stays in the map)
  deriving DecidableEq, Repr

structure Mgr where
  cfgs : List VCfg := []       -- vm.cfgs
  visitors : List V := []      -- vm.visitors
  squat : List Nat := []       -- bind addresses held by other programs
  nextId : Nat := 1
  closed : Bool := false       -- Close() was called
  deriving Repr

def init : Mgr := {}

/-- the address is taken: by another program or by a visitor of this manager that is listening -/
def busy (m : Mgr) (p : Nat) : Bool :=
  m.squat.contains p || m.visitors.any (fun v => v.isOpen && v.cfg.port == p)

/-- NewVisitor and Run succeed -/
def canStart (m : Mgr) (c : VCfg) : Bool := !c.never && (c.port == 0 || !busy m c.port)

/-- `startVisitor(cfg)` (both callers have checked that vm.visitors has no entry of that name) -/
def startVisitor (m : Mgr) (c : VCfg) : Mgr :=
  if canStart m c then
    { m with visitors := m.visitors ++ [{ cfg := c, id := m.nextId }], nextId := m.nextId + 1 }
  else m

/-- `lo.KeyBy(cfgs, name)[n]` -/
def lookupLast (cfgs : List VCfg) (n : Nat) : Option VCfg := cfgs.reverse.find? (fun c => c.name == n)

/-- the delete loop keeps an entry iff `ok && reflect.DeepEqual(oldCfg, cfg)` -/
def keeps (cfgs : List VCfg) (c : VCfg) : Bool := lookupLast cfgs c.name == some c

def hasCfg (cs : List VCfg) (n : Nat) : Bool := cs.any (fun c => c.name == n)

def hasVisitor (vs : List V) (n : Nat) : Bool := vs.any (fun v => v.cfg.name == n)

/-- the add loop -/
def addLoop : Mgr → List VCfg → Mgr
  | m, [] => m
  | m, c :: cs =>
    if hasCfg m.cfgs c.name then addLoop m cs
    else addLoop (startVisitor { m with cfgs := m.cfgs ++ [c] } c) cs

/-- names whose entry the delete loop removes -/
def goneNames (m : Mgr) (cfgs : List VCfg) : List Nat := (m.cfgs.filter (fun c => !keeps cfgs c)).map (·.name)

/-- `UpdateAll(cfgs)` -/
def updateAll (m : Mgr) (cfgs : List VCfg) : Mgr :=
  addLoop { m with cfgs := m.cfgs.filter (keeps cfgs),
                   visitors := m.visitors.filter (fun v => !(goneNames m cfgs).contains v.cfg.name) } cfgs

/-- one iteration of the keep-alive loop's body, for the entry stored under `n` -/
def tryStart (m : Mgr) (n : Nat) : Mgr :=
  match m.cfgs.find? (fun c => c.name == n) with
  | none => m
  | some c => if hasVisitor m.visitors n then m else startVisitor m c

/-- `Close()` -/
def close (m : Mgr) : Mgr :=
  { m with visitors := m.visitors.map (fun v => { v with isOpen := false }), closed := true }

inductive Ev
  | upd (cfgs : List VCfg)     -- UpdateAll
  | tryStart (n : Nat)         -- keep-alive loop, one entry
  | squat (p : Nat)            -- another program binds the address (it cannot while it is taken)
  | free (p : Nat)             -- the other program lets go of it
  | close                      -- Close()
  deriving Repr

def step (m : Mgr) : Ev → Mgr
  | .upd cfgs => updateAll m cfgs
  | .tryStart n => tryStart m n
  | .squat p => if p == 0 || busy m p then m else { m with squat := p :: m.squat }
  | .free p => { m with squat := m.squat.filter (· != p) }
  | .close => close m

def run (m : Mgr) (es : List Ev) : Mgr := es.foldl step m

/-! ### the two proposed repairs (hooks/C19-fix-visitor-dup-names.patch, hooks/C19-fix-visitor-pass-after-close.patch)

    `updateAllFixed`: the add loop stores and starts `cfgsMap[name]` — the entry the delete loop
    compares with — as proxy_manager.go does since eab68f8.
    `tryStartFixed`: an iteration of the keep-alive loop looks at `stopCh` once it holds the lock and
    does nothing after `Close()`. -/

/-- `cfg = cfgsMap[name]` for an entry `c` of the slice (the key is always present) -/
def sel (all : List VCfg) (c : VCfg) : VCfg :=
  match lookupLast all c.name with
  | some c' => c'
  | none => c

def updateAllFixed (m : Mgr) (cfgs : List VCfg) : Mgr :=
  addLoop { m with cfgs := m.cfgs.filter (keeps cfgs),
                   visitors := m.visitors.filter (fun v => !(goneNames m cfgs).contains v.cfg.name) } (cfgs.map (sel cfgs))

def tryStartFixed (m : Mgr) (n : Nat) : Mgr := if m.closed then m else tryStart m n

def stepFixed (m : Mgr) : Ev → Mgr
  | .upd cfgs => updateAllFixed m cfgs
  | .tryStart n => tryStartFixed m n
  | e => step m e

def runFixed (m : Mgr) (es : List Ev) : Mgr := es.foldl stepFixed m

/-- THE SWITCHES: which reload / which loop iteration the driver engine `vmgr` compares the real
    visitor.Manager against.  `updateAll` / `tryStart` = the code as it is; switch to
    `updateAllFixed` / `tryStartFixed` when the corresponding repair lands in /repo (the two
    KNOWN_FINDINGS entries C19-visitor-dup-name-restarts / C19-visitor-started-after-close then go). -/
def activeUpdateAll (m : Mgr) (cfgs : List VCfg) : Mgr := updateAllFixed m cfgs
def activeTryStart (m : Mgr) (n : Nat) : Mgr := tryStartFixed m n
def activePass (m : Mgr) (order : List Nat) : Mgr := order.foldl activeTryStart m

def Ev.isUpd : Ev → Bool
  | .upd _ => true
  | _ => false

def Ev.isTry : Ev → Bool
  | .tryStart _ => true
  | _ => false

/-- a whole pass of the keep-alive loop in iteration order `order` -/
def pass (m : Mgr) (order : List Nat) : Mgr := order.foldl tryStart m

/-- `TransferConn(name, conn)`: 0 = "visitor not found", 1 = handed to the visitor, 2 = the visitor's
    internal listener is closed -/
def transfer (m : Mgr) (n : Nat) : Nat :=
  match m.visitors.find? (fun v => v.cfg.name == n) with
  | none => 0
  | some v => if v.isOpen then 1 else 2

end VisitorMgr
end Frp
