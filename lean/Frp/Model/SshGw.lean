import Frp.Model.UserInput
import Frp.Model.Crash
/-
  C16, the ssh tunnel gateway (pkg/ssh).  Whoever reaches `sshTunnelGateway.bindPort` and passes — or, without
  `authorizedKeysFile`, does not even need — public-key authentication chooses the bytes of every global request, every
  channel open and every channel request.  `TunnelServer.handleNewChannel` runs as `go s.handleNewChannel(...)` with no
  recover anywhere in the package (regenerated: `Gen.IndexFacts.sshGoStmts`, `sshRecoverCalls`): a run-time panic there
  ends frps.

  * `handleReq`  — the body of the request loop of handleNewChannel (pkg/ssh/server.go), line by line, with Go's integer
    arithmetic explicit: the type in which `end` is computed is a PARAMETER (`UserIn.NumT`, read from the source by
    translate/gen_indexfacts.go) and so is the width of `int`.
  * `parseStringG` / `parseUint32G` / `unmarshalForwardG` — golang.org/x/crypto/ssh v0.37.0 messages.go as
    `ssh.Unmarshal(req.Payload, &tcpipForward{})` runs it (pinned by hand from the module source), with Go's slice
    checks explicit.
  * `step` / `runConn` — one ssh connection after the handshake as a sequence of client events.
-/
namespace Frp
namespace SshGw
open UserIn (Go NumT)
open Crash (Outcome)

/-- "exec" -/
def execType : Str := [101, 120, 101, 99]
/-- "tcpip-forward" (RequestTypeForward) -/
def forwardType : Str := [116, 99, 112, 105, 112, 45, 102, 111, 114, 119, 97, 114, 100]

/-- `binary.BigEndian.Uint32(b)`: the first four bytes (callers make sure there are four) -/
def be32 : Str → Nat
  | a :: b :: c :: d :: _ => (a % 256) * 16777216 + (b % 256) * 65536 + (c % 256) * 256 + d % 256
  | _ => 0

/-- Go's run-time check of `p[lo:hi]` on a SLICE: 0 ≤ lo ≤ hi ≤ cap(p) (runtime.panicSlice*) -/
def sliceOk (cap lo hi : Nat) : Bool := lo ≤ hi && hi ≤ cap

/-- the width of Go's `int` -/
inductive IntW
  | i32     -- 386, arm, mips, …
  | i64     -- amd64, arm64, … (what the harness runs on)
  deriving DecidableEq, Repr

/-- `int(x)` for `x : uint32` -/
def toInt (w : IntW) (x : Nat) : Int :=
  match w with
  | .i64 => x
  | .i32 => if x < 2147483648 then x else (x : Int) - 4294967296

/-- a slice index of type uint32 must be representable in `int`, otherwise the slice expression panics -/
def indexFits (w : IntW) (x : Nat) : Bool :=
  match w with
  | .i64 => true
  | .i32 => x < 2147483648

inductive ExecOut
  | ignored            -- `continue`
  | extra (s : Str)    -- offered to extraPayloadCh
  | panic              -- runtime error: slice bounds out of range
  deriving DecidableEq, Repr

/-- pkg/ssh/server.go handleNewChannel, the loop body after the reply, for one request of type `typ` with payload `p`
    (`cap` = cap(req.Payload) ≥ len):

        if req.Type != "exec" || len(req.Payload) <= 4 { continue }
        end := 4 + binary.BigEndian.Uint32(req.Payload[:4])          // t = .u32: uint32 arithmetic
        if len(req.Payload) < int(end) { continue }
        extraPayload := string(req.Payload[4:end])

    and with the sum computed in a 64-bit type (t = .wide):

        end := 4 + uint64(binary.BigEndian.Uint32(req.Payload[:4]))
        if uint64(len(req.Payload)) < end { continue } -/
def handleReq (t : NumT) (w : IntW) (typ p : Str) (cap : Nat) : ExecOut :=
  if typ ≠ execType ∨ p.length ≤ 4 then .ignored
  else if !sliceOk cap 0 4 then .panic                              -- req.Payload[:4]
  else
    let n := be32 p
    match t with
    | .u32 =>
      let e := (4 + n) % 4294967296                                 -- wraps
      if (p.length : Int) < toInt w e then .ignored
      else if !(indexFits w e && sliceOk cap 4 e) then .panic       -- req.Payload[4:end]
      else .extra ((p.take e).drop 4)
    | .wide =>
      let e := 4 + n
      if p.length < e then .ignored
      else if !sliceOk cap 4 e then .panic
      else .extra ((p.take e).drop 4)

/-! ## ssh.Unmarshal(req.Payload, &tcpipForward{Host string; Port uint32}) — x/crypto/ssh messages.go -/

/-- `parseString`: `if len(in) < 4 {return}; length := BigEndian.Uint32(in); in = in[4:];
    if uint32(len(in)) < length {return}; out = in[:length]; rest = in[length:]` — the comparison is made in uint32 AFTER
    the four bytes were cut off: nothing is added to the peer's number -/
def parseStringG (inp : Str) : Go (Option (Str × Str)) :=
  if inp.length < 4 then .ok none
  else
    let length := be32 inp
    if !sliceOk inp.length 4 inp.length then .panic                 -- in[4:]
    else
      let rest := inp.drop 4
      if rest.length % 4294967296 < length then .ok none            -- uint32(len(in)) < length
      else if !(sliceOk rest.length 0 length && sliceOk rest.length length rest.length) then .panic   -- in[:length], in[length:]
      else .ok (some (rest.take length, rest.drop length))

/-- `parseUint32`: `if len(in) < 4 {return 0, nil, false}; return BigEndian.Uint32(in), in[4:], true` -/
def parseUint32G (inp : Str) : Go (Option (Nat × Str)) :=
  if inp.length < 4 then .ok none
  else if !sliceOk inp.length 4 inp.length then .panic
  else .ok (some (be32 inp, inp.drop 4))

/-- `Unmarshal` for a struct without an sshtype tag and the fields (string, uint32): empty input is an error, the
    fields in order, trailing bytes are an error; `none` = it returns an error -/
def unmarshalForwardG (data : Str) : Go (Option (Str × Nat)) :=
  if data.length = 0 then .ok none
  else
    match parseStringG data with
    | .panic => .panic
    | .ok none => .ok none
    | .ok (some (host, rest)) =>
      match parseUint32G rest with
      | .panic => .panic
      | .ok none => .ok none
      | .ok (some (port, rest')) => if rest'.length ≠ 0 then .ok none else .ok (some (host, port))

/-! ## one ssh connection after the handshake -/

/-- what the ssh client does (x/crypto/ssh delivers global requests on one Go channel, new channels on another, the
    requests of a channel in order on that channel's own) -/
inductive Ev
  | global (typ p : Str)                          -- global request
  | openCh (typ : Str)                            -- channel open of ANY type: handleNewChannel accepts it
  | chanReq (ch : Nat) (typ p : Str) (slack : Nat) -- request on the ch-th opened channel; cap(Payload) = len + slack
  | closeCh (ch : Nat)
  | disconnect
  deriving DecidableEq, Repr

structure Conn where
  up : Bool := true                 -- the connection is there
  chans : Nat := 0                  -- channels opened (= accepted) so far
  closed : List Nat := []
  reqLoop : Bool := true            -- the goroutine that reads global requests is still running
  addr : Option (Str × Nat) := none -- what went into addrCh
  extra : Option Str := none        -- what went into extraPayloadCh (capacity 1, non-blocking send)
  deriving DecidableEq, Repr

/-- waitForwardAddrAndExtraPayload's two goroutines + handleNewChannel, one event at a time -/
def step (t : NumT) (st : Conn × Outcome) (e : Ev) : Conn × Outcome :=
  let c := st.1
  if st.2 = .processDies ∨ !c.up then st
  else
    match e with
    | .disconnect => ({ c with up := false }, .alive)
    | .openCh _ => ({ c with chans := c.chans + 1 }, .alive)
    | .closeCh ch => ({ c with closed := ch :: c.closed }, .alive)
    | .global typ p =>
      if !c.reqLoop ∨ typ ≠ forwardType ∨ c.addr.isSome then (c, .alive)        -- answered, nothing else
      else
        match unmarshalForwardG p with
        | .panic => (c, .processDies)
        | .ok none => ({ c with reqLoop := false }, .alive)                       -- `return`: the goroutine ends
        | .ok (some a) => ({ c with addr := some a }, .alive)
    | .chanReq ch typ p slack =>
      if c.chans ≤ ch ∨ c.closed.contains ch then (c, .alive)                     -- no such channel: the client library refuses
      else
        match handleReq t .i64 typ p (p.length + slack) with
        | .panic => (c, .processDies)
        | .ignored => (c, .alive)
        | .extra s => (if c.extra.isNone then { c with extra := some s } else c, .alive)

def runConn (t : NumT) (c : Conn) (evs : List Ev) : Conn × Outcome :=
  evs.foldl (step t) (c, .alive)

/-- does a script contain a request that the wrapping arithmetic cannot survive -/
def wrapsReq : Ev → Bool
  | .chanReq _ typ p _ => typ = execType && 4 < p.length && 4294967292 ≤ be32 p
  | _ => false

end SshGw
end Frp
