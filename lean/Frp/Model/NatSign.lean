import Frp.Model.NatHole
import Frp.Model.Md5
/-
  The signature check of pkg/nathole/controller.go `HandleVisitor`, byte for byte:

      if !util.ConstantTimeEqString(m.SignKey, util.GetAuthKey(clientCfg.sk, m.Timestamp)) { … "auth failed" }

  pkg/util/util/util.go:
      GetAuthKey(token, ts)       = hex.EncodeToString(md5(token ++ strconv.FormatInt(ts, 10)))    (32 lower-case hex bytes)
      ConstantTimeEqString(a, b)  = subtle.ConstantTimeCompare([]byte(a), []byte(b)) == 1
  crypto/subtle:
      ConstantTimeCompare(x, y)   = 0 when len(x) != len(y); otherwise v |= x[i] ^ y[i] over all i, ConstantTimeByteEq(v, 0)

  Model/NatHole.lean keeps a signature abstractly (`VMsg.signed` = the byte string whose md5 the SignKey is, md5
  treated as injective).  Here the SignKey is the string the visitor SUPPLIES — any string: a prefix, an extension,
  another case, junk — and the expected one is computed with a real MD5 (Frp/Model/Md5.lean).  `visitorLookupW` is the
  critical section of HandleVisitor on such a wire-level message; `WVMsg.abs` maps it to the abstract message so that
  every theorem about `NatHole.step` carries over (C20.visitorLookupW_refines).

  The shape of the comparison (which function, which two operands) is REGENERATED from the source:
  Frp/Gen/NatClientFacts.lean `sigCompare`, pinned by C20.sig_compare_shape.
-/
namespace Frp
namespace NatSign
open NatHole

/-- what the condition guarding HandleVisitor's "auth failed" return compares — REGENERATED from controller.go by
    translate/gen_natclientfacts.go.  `whole a b`: the two strings as wholes (`a != b`, `!(a == b)`,
    `!util.ConstantTimeEqString(a, b)`, `subtle.ConstantTimeCompare([]byte(a), []byte(b)) != 1`). -/
inductive SigCmp
  | whole (supplied expected : String)
  | other (src : String)
  deriving DecidableEq, Repr

/-- `util.GetAuthKey(sk, ts)` -/
def authKey (sk : Str) (ts : Int) : Str := Md5.hexDigest (authInput sk ts)

/-- the loop of `subtle.ConstantTimeCompare` (entered with equal lengths): `v |= x[i] ^ y[i]` -/
def ctAcc : Str → Str → Nat → Nat
  | a :: x, b :: y, v => ctAcc x y (v ||| (a ^^^ b))
  | _, _, v => v

/-- `subtle.ConstantTimeCompare(x, y)`: 1 = equal, 0 = not; different lengths: 0 at once -/
def ctCompare (x y : Str) : Nat :=
  if x.length ≠ y.length then 0
  else if ctAcc x y 0 = 0 then 1 else 0

/-- `util.ConstantTimeEqString(a, b)` -/
def ctEqString (a b : Str) : Bool := ctCompare a b == 1

/-- the test of HandleVisitor: the supplied SignKey against the proxy's secret and the message's timestamp -/
def sigOk (signKey sk : Str) (ts : Int) : Bool := ctEqString signKey (authKey sk ts)

/-- msg.NatHoleVisitor as it arrives (non-pre-check fields) -/
structure WVMsg where
  tid : Str := []
  proxyName : Str := []
  protocol : Str := []
  signKey : Str := []              -- the SignKey string itself
  timestamp : Int := 0
  mapped : List Str := []
  assisted : List Str := []
  deriving DecidableEq, Repr

/-- the abstract message of Model/NatHole.lean: `signed` is the md5 input of the proxy's expected signature exactly
    when the supplied string IS that signature, and something else (one byte longer) otherwise -/
def WVMsg.abs (cfgs : List (Str × Cfg)) (m : WVMsg) : VMsg :=
  { tid := m.tid, proxyName := m.proxyName, protocol := m.protocol, timestamp := m.timestamp,
    mapped := m.mapped, assisted := m.assisted,
    signed := match aget cfgs m.proxyName with
      | some cfg => if m.signKey = authKey cfg.sk m.timestamp then authInput cfg.sk m.timestamp
                    else 0 :: authInput cfg.sk m.timestamp
      | none => m.signKey }

/-- the critical section of `HandleVisitor` (non-pre-check branch) on the message as it arrives; `none` = the sid is
    live already (assumption: GenSid does not repeat a live sid) -/
def visitorLookupW (s : State) (sid : Str) (m : WVMsg) (t : Nat) (user : Str) : Option (State × Out) :=
  match aget s.sessions sid with
  | some _ => none
  | none =>
    match aget s.cfgs m.proxyName with
    | none => some (s, [(t, errResp m.tid .noExist)])
    | some cfg =>
      if !sigOk m.signKey cfg.sk m.timestamp then some (s, [(t, errResp m.tid .authFailed)])
      else if !userAllowed cfg.allow user then some (s, [(t, errResp m.tid .notAllowed)])
      else some ({ s with sessions := aput s.sessions sid
                            { vmsg := m.abs s.cfgs, vT := t, phase := .notifying cfg.chan } }, [])

/-- a comparison that looks only at the OVERLAPPING part of the two strings (and refuses the empty one): what a
    "length-independent" variant of the check would compute.  Not the code's; kept for `C20.overlap_compare_witness`,
    which shows that the length test of ConstantTimeCompare is what the clause rests on. -/
def overlapOk (signKey expected : Str) : Bool :=
  signKey ≠ [] &&
    ctCompare (signKey.take (min signKey.length expected.length)) (expected.take (min signKey.length expected.length)) == 1

end NatSign
end Frp
