import Frp.Model.VhostReg
/-
  Sessions on top of the registration layer of http proxies (property C10, load-balancing groups):

    server/control.go      `Control.RegisterProxy`  Exist(name) | pxy.Run() | pxyManager.Add | ctl.proxies
                           `Control.CloseProxy`     looked up in the calling session's own table only
                           `Control.worker`         session end: every proxy of the session is closed
    server/proxy/http.go   `HTTPProxy.Run` / `Close`            (Frp/Model/VhostReg.lean `run` / `close`)
    server/group/http.go   `HTTPGroupController.Register/UnRegister`, `HTTPGroup.Register/UnRegister`
                           (Frp/Model/VhostReg.lean `groupRegister` / `groupUnRegister`: one critical
                           section of the controller's lock each — lookup, join / leave, removal of the
                           emptied group from the table)
    pkg/util/vhost/router.go  `Routers.Add/Del`                 (Frp/Model/Router.lean)

  The route table, the group table (with the group objects that stay behind after a refused first join)
  and the live proxy instances are VhostReg's; this file adds who owns which proxy.
-/
namespace Frp
namespace GroupRel
open Str Router VhostReg

/-- one entry of pxyManager.pxys / ctl.proxies: a live proxy, its session, its instance and the
    configuration it was registered with -/
structure Rec where
  name : Str
  sid  : Nat
  id   : Nat
  cfg  : Cfg
deriving DecidableEq, Repr

structure GState where
  st    : St            -- route table, group table, running proxy instances
  owner : List Rec      -- live proxies
  next  : Nat           -- number of the next proxy instance (`NewProxy` allocates a new object every time)

def GState.init : GState := { st := St.empty, owner := [], next := 0 }

inductive RegRes | ok | exists_ | err (e : Err)
deriving DecidableEq, Repr

def GState.isLive (s : GState) (name : Str) : Bool := s.owner.any (fun r => r.name = name)

/-- `Control.RegisterProxy` of an http proxy (`sh` = the server's subDomainHost) -/
def GState.register (sh : Str) (s : GState) (sid : Nat) (c : Cfg) : GState × RegRes :=
  if s.isLive c.name then (s, .exists_)
  else
    match run sh s.st s.next c with
    | (S', .ok) => ({ st := S', owner := { name := c.name, sid := sid, id := s.next, cfg := c } :: s.owner,
                      next := s.next + 1 }, .ok)
    | (S', .err e) => ({ s with st := S', next := s.next + 1 }, .err e)
    | (_, .busy) => (s, .exists_)      -- unreachable: the instance number is new

/-- `Control.CloseProxy` -/
def GState.close (s : GState) (sid : Nat) (name : Str) : GState :=
  match s.owner.find? (fun r => r.name = name ∧ r.sid = sid) with
  | some r => { s with st := VhostReg.close s.st r.id, owner := s.owner.filter (fun e => e.name ≠ name) }
  | none => s

/-- the names a session owns, in table order -/
def GState.namesOf (s : GState) (sid : Nat) : List Str :=
  (s.owner.filter (fun r => r.sid = sid)).map (·.name)

/-- `Control.worker` at session end: every proxy of the session is closed -/
def GState.sessionEnd (s : GState) (sid : Nat) : GState :=
  (s.namesOf sid).foldl (fun st n => st.close sid n) s

end GroupRel
end Frp
