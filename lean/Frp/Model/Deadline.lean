import Frp.Model.Str
/-
  C01 — the deadline discipline of the vhost sniff phase.

    pkg/util/vhost/vhost.go  (*Muxer).handle   `c.SetDeadline(time.Now().Add(v.timeout))` on accept (read AND write),
                                               sniff (vhostFunc), route lookup, success hook, auth check,
                                               `sConn.SetDeadline(time.Time{})`, then `l.accept <- c`
    net.Conn                                   SetDeadline = SetReadDeadline + SetWriteDeadline; the zero time disarms

  A connection that is handed to the proxy's listener lives as long as the user and the backend like; whatever
  deadline is still armed at the hand-off fires later on a healthy connection (reads / writes fail with a timeout,
  Join tears the tunnel down, bytes in flight are lost).
-/
namespace Frp
namespace Deadline

/-- one deadline call reaching the socket; `armed` = the argument is a real time, not `time.Time{}` -/
inductive Call
  | both (armed : Bool)     -- SetDeadline
  | rd (armed : Bool)       -- SetReadDeadline
  | wr (armed : Bool)       -- SetWriteDeadline
  deriving DecidableEq, Repr

/-- which of the socket's two deadlines are armed -/
structure St where
  rd : Bool := false
  wd : Bool := false
  deriving DecidableEq, Repr

def St.apply (s : St) : Call → St
  | .both a => { rd := a, wd := a }
  | .rd a => { s with rd := a }
  | .wr a => { s with wd := a }

/-- a fresh socket has no deadline -/
def run (cs : List Call) : St := cs.foldl St.apply {}

def St.cleared (s : St) : Bool := !s.rd && !s.wd

/-- how `(*Muxer).handle` ends -/
inductive Outcome
  | sniffErr      -- vhostFunc failed (timeout, garbage)
  | noRoute       -- no listener for host / user: failHook
  | hookErr       -- successHook failed (the 200 reply could not be written)
  | authFail      -- checkAuth refused
  | handedOn      -- `l.accept <- c`
  deriving DecidableEq, Repr

/-- the deadline calls `handle` makes on the way to each outcome -/
def handleCalls : Outcome → List Call
  | .handedOn => [.both true, .both false]
  | _ => [.both true]

/-- … and whether `handle` (or its fail hook) closes the connection -/
def handleCloses : Outcome → Bool
  | .handedOn => false
  | _ => true

/-- a recorded call as the harness prints it: `D+ D0 R+ R0 W+ W0` -/
def Call.ofTok (t : String) : Option Call :=
  if t = "D+" then some (.both true) else if t = "D0" then some (.both false)
  else if t = "R+" then some (.rd true) else if t = "R0" then some (.rd false)
  else if t = "W+" then some (.wr true) else if t = "W0" then some (.wr false) else none

def Call.tok : Call → String
  | .both a => if a then "D+" else "D0"
  | .rd a => if a then "R+" else "R0"
  | .wr a => if a then "W+" else "W0"

/-- a call as it stands in the source: method name and argument text (`time.Time{}` = the zero time) -/
def Call.ofSrc (method arg : String) : Option Call :=
  let armed := arg != "time.Time{}"
  if method = "SetDeadline" then some (.both armed)
  else if method = "SetReadDeadline" then some (.rd armed)
  else if method = "SetWriteDeadline" then some (.wr armed) else none

end Deadline
end Frp
