/-
  Model of the per-session work-connection pool of frps and of the vhost hand-off (C11).

    server/control.go    NewControl (poolCount, workConnCh capacity), Start (advance ReqWorkConn),
                         RegisterWorkConn (non-blocking send, recover), GetWorkConn (take | request; wait | timeout),
                         RegisterProxy / CloseProxy (the session's proxy map over its whole history: no request),
                         worker (close pool, drain, close proxies, done)
    server/service.go    RegisterWorkConn (GetByID, plugin, VerifyNewWorkConn), handleConnection (close on error),
                         RegisterControl (Del after WaitClosed)
    server/proxy/proxy.go GetWorkConnFromPool (retry loop, shadowed err), handleUserTCPConnection
    pkg/util/vhost/vhost.go Muxer.handle / Listener.Accept / Listener.Close   (namespace Handoff below)
    pkg/util/net/listener.go InternalListener PutConn / Accept / Close; server/visitor/visitor.go NewConn /
                         CloseListener; the accept loop of startCommonTCPListenersHandler   (namespace VListen below)

  ONE small-step transition system per session.  A label is one atomic action of the Go code (one
  channel operation, one critical section, or the stretch between two gate points).  `step` returns
  `none` when the label is not enabled.  The code is modelled AS IT IS (`pinned`); the proposed
  repairs are the switches of `Fix` (`repaired`); `current` is what the correspondence engine runs.

  Time: `tick` is one unit of `UserConnTimeout`'s clock.  Only the blocking wait of GetWorkConn takes
  time: `tick` is not enabled while some handler is between two non-blocking actions (`accepted`,
  `holding`) or while a waiting handler's timer has run out (the timeout is then due).
-/
namespace Frp
namespace Pool

/-! ### NewControl / Start arithmetic (Go `int`) -/

/-- `poolCount := loginMsg.PoolCount; if poolCount > MaxPoolCount { poolCount = MaxPoolCount }` -/
def newPoolCount (client serverMax : Int) : Int := if client > serverMax then serverMax else client

/-- proposed repair: negative values are clamped (`if poolCount < 0 { poolCount = 0 }`) -/
def clampPoolCount (clamp : Bool) (pc : Int) : Int := if clamp ∧ pc < 0 then 0 else pc

/-- `make(chan net.Conn, poolCount+10)` panics for a negative size; the goroutine handling the login has no recover -/
def newControlPanics (pc : Int) : Bool := decide (pc + 10 < 0)

/-- capacity of `workConnCh` -/
def capOf (pc : Int) : Nat := (pc + 10).toNat

/-- `for i := 0; i < ctl.poolCount; i++ { Send(ReqWorkConn) }` -/
def advance (pc : Int) : Nat := pc.toNat

/-- `for i := 0; i < pxy.poolCount+1; i++` in GetWorkConnFromPool -/
def tries (pc : Int) : Nat := (pc + 1).toNat

/-! ### association tables (newest binding first) -/

structure Tbl (α : Type) where
  l : List (Nat × α) := []
deriving Repr

def Tbl.get {α} (t : Tbl α) (k : Nat) : Option α := t.l.lookup k
def Tbl.set {α} (t : Tbl α) (k : Nat) (v : α) : Tbl α := ⟨(k, v) :: t.l⟩

theorem Tbl.get_set {α} (t : Tbl α) (k k' : Nat) (v : α) :
    (t.set k v).get k' = if k' = k then some v else t.get k' := by
  unfold Tbl.get Tbl.set
  by_cases h : k' = k
  · subst h; simp [List.lookup]
  · have : (k' == k) = false := by simp [h]
    simp [List.lookup, this, h]

theorem Tbl.get_empty {α} (k : Nat) : (({} : Tbl α)).get k = none := rfl

/-! ### states -/

/-- a work connection, seen from frps -/
inductive W
  | dialled            -- NewWorkConn read by handleConnection
  | lookedUp           -- session found, plugin + verifier passed
  | pooled             -- sitting in workConnCh
  | taken (u : Nat)    -- received by the handler of user connection u
  | closed
  | limbo              -- open, in no channel, held by no goroutine
deriving DecidableEq, Repr

/-- a user connection (handleUserTCPConnection); `k` = index of the GetWorkConnFromPool loop -/
inductive U
  | accepted (k : Nat)            -- about to call getWorkConnFn
  | waiting (k since : Nat)       -- ReqWorkConn sent, in the second select
  | holding (k c : Nat)           -- got c, about to write StartWorkConn
  | bridged (c : Nat)             -- libio.Join(workConn, userConn)
  | closed
deriving DecidableEq, Repr

/-- proposed repairs (hooks/C11-fix-*.patch); all off at the pinned tree -/
structure Fix where
  closeOnClosedPool : Bool    -- RegisterWorkConn returns an error when the pool has been closed ⇒ the caller closes
  clampPoolCount : Bool       -- NewControl clamps a negative poolCount to 0
  closeOnFailedHandoff : Bool -- Muxer.handle closes the connection whose hand-off send panicked
deriving DecidableEq, Repr

def pinned : Fix := ⟨false, false, false⟩
def repaired : Fix := ⟨true, true, true⟩

/-- THE SWITCH: the tree the correspondence engine is compared with.  Set to `repaired` once
    hooks/C11-fix-workconn-closed-pool.patch, C11-fix-negative-poolcount.patch and
    C11-fix-muxer-handoff-close.patch are committed to /repo. -/
def current : Fix := repaired

structure St where
  pc : Int := 0                 -- ctl.poolCount = pxy.poolCount
  T : Nat := 1                  -- UserConnTimeout, in ticks
  pool : List Nat := []         -- workConnCh, head = next to be received
  dispDone : Bool := false      -- msgDispatcher.Done() closed (control connection gone)
  poolClosed : Bool := false    -- close(ctl.workConnCh)
  drained : Bool := false       -- the `for range` of worker finished
  proxyOpen : Bool := false     -- ctl.proxies holds the tcp proxy the users dial (proxy 0): its listener accepts
  px : List Nat := []           -- the other entries of ctl.proxies (names > 0)
  pxClosed : Bool := false      -- worker closed every proxy of the session (after the drain)
  inManager : Bool := true      -- ctlManager.GetByID finds the session (Del runs after doneCh)
  w : Tbl W := {}
  u : Tbl U := {}
  reqs : Nat := 0               -- ReqWorkConn messages handed to the dispatcher before dispDone
  adv : Nat := 0                -- ghost: those of them sent in advance (on behalf of no user connection)
  ureq : Nat := 0               -- ghost: those sent by GetWorkConn for a user connection (replacement / empty pool)
  lateSend : Bool := false      -- ghost: some send met the closed pool
  panicked : Bool := false      -- unrecovered panic: frps is gone
deriving Repr

def St.cap (s : St) : Nat := capOf s.pc

/-- a session right after `Start()`: the advance requests are out, no proxy is registered yet -/
def init (pc : Int) (T : Nat) : St := { pc := pc, T := T, reqs := advance pc, adv := advance pc }

inductive Label
  | dial (c : Nat)
  | lookup (c : Nat) (authOk : Bool)
  | send (c : Nat)
  | accept (u : Nat)
  | take (u : Nat)
  | request (u : Nat) (ok : Bool)
  | recv (u : Nat)
  | timeout (u : Nat)
  | tick
  | startMsg (u : Nat) (ok : Bool)
  | joinEnd (u : Nat)
  | dispDone | closePool | drain | closeProxies | del
  | regProxy (p : Nat)       -- NewProxy handled: RegisterProxy succeeded (p = 0: the proxy the users dial)
  | closeProxy (p : Nat)     -- CloseProxy handled
deriving DecidableEq, Repr

inductive Res
  | none | pooled | refused | limbo | closed | got (c : Nat) | waiting | bridged (c : Nat) | retry | exhausted | crash
deriving DecidableEq, Repr

/-- all keys bound in a table satisfy p on their current value -/
def Tbl.allCur {α} (t : Tbl α) (p : α → Bool) : Bool :=
  t.l.all (fun e => match t.get e.1 with | some v => p v | none => true)

/-- `tick` is enabled: no handler is between two non-blocking actions, no timer is due -/
def tickOk (s : St) : Bool :=
  s.u.allCur (fun x => match x with
    | .accepted _ => false
    | .holding _ _ => false
    | .waiting _ t => decide (t < s.T)
    | _ => true)

def bumpU : U → U
  | .waiting k t => .waiting k (t + 1)
  | x => x

/-- receive from workConnCh on behalf of user u (loop index k): first select of GetWorkConn, or the second one -/
def recvFor (s : St) (u k : Nat) : Option (St × Res) :=
  match s.pool with
  | c :: rest =>
    -- `workConn, ok = <-ctl.workConnCh`; then `_ = ctl.msgDispatcher.Send(&msg.ReqWorkConn{})`
    some ({ s with pool := rest, w := s.w.set c (.taken u), u := s.u.set u (.holding k c),
                   reqs := if s.dispDone then s.reqs else s.reqs + 1,
                   ureq := if s.dispDone then s.ureq else s.ureq + 1 }, .got c)
  | [] =>
    if s.poolClosed then
      -- `!ok` ⇒ ErrCtlClosed ⇒ handleUserTCPConnection returns, deferred userConn.Close()
      some ({ s with u := s.u.set u .closed }, .closed)
    else none

def step (fx : Fix) (s : St) : Label → Option (St × Res)
  | .dial c =>
    if s.panicked ∨ (s.w.get c).isSome then none
    else some ({ s with w := s.w.set c .dialled }, .none)
  | .lookup c authOk =>
    if s.panicked ∨ s.w.get c ≠ some .dialled then none
    else if s.inManager = false ∨ authOk = false then
      -- "no client control found" / "invalid NewWorkConn": error ⇒ handleConnection closes
      some ({ s with w := s.w.set c .closed }, .closed)
    else some ({ s with w := s.w.set c .lookedUp }, .none)
  | .send c =>
    if s.panicked ∨ s.w.get c ≠ some .lookedUp then none
    else if s.poolClosed then
      -- send on a closed channel panics inside the select; the deferred recover swallows it and the
      -- function returns its zero result `nil` ⇒ the caller does not close (§7/11)
      if fx.closeOnClosedPool then some ({ s with w := s.w.set c .closed, lateSend := true }, .refused)
      else some ({ s with w := s.w.set c .limbo, lateSend := true }, .limbo)
    else if s.pool.length < s.cap then
      some ({ s with pool := s.pool ++ [c], w := s.w.set c .pooled }, .pooled)
    else
      -- `default:` "work connection pool is full, discarding" ⇒ error ⇒ handleConnection closes
      some ({ s with w := s.w.set c .closed }, .refused)
  | .accept u =>
    if s.panicked ∨ s.proxyOpen = false ∨ (s.u.get u).isSome then none
    else if tries s.pc = 0 then
      -- the loop body never runs: (nil, nil) is returned and `defer workConn.Close()` dereferences nil
      -- in a goroutine without recover
      some ({ s with panicked := true }, .crash)
    else some ({ s with u := s.u.set u (.accepted 0) }, .none)
  | .take u =>
    if s.panicked then none else
    match s.u.get u with
    | some (.accepted k) => recvFor s u k
    | _ => none
  | .request u ok =>
    if s.panicked then none else
    match s.u.get u with
    | some (.accepted k) =>
      if s.pool ≠ [] ∨ s.poolClosed then none
      else if ok then
        -- `msgDispatcher.Send(&msg.ReqWorkConn{})` accepted
        some ({ s with u := s.u.set u (.waiting k 0), reqs := if s.dispDone then s.reqs else s.reqs + 1,
                       ureq := if s.dispDone then s.ureq else s.ureq + 1 }, .waiting)
      else if s.dispDone then
        -- Send returned io.EOF ⇒ "control is already closed"
        some ({ s with u := s.u.set u .closed }, .closed)
      else none
    | _ => none
  | .recv u =>
    if s.panicked then none else
    match s.u.get u with
    | some (.waiting k _) => recvFor s u k
    | _ => none
  | .timeout u =>
    if s.panicked then none else
    match s.u.get u with
    | some (.waiting _ t) =>
      if s.T ≤ t then some ({ s with u := s.u.set u .closed }, .closed) else none
    | _ => none
  | .tick =>
    if s.panicked ∨ tickOk s = false then none
    else some ({ s with u := ⟨s.u.l.map (fun e => (e.1, bumpU e.2))⟩ }, .none)
  | .startMsg u ok =>
    if s.panicked then none else
    match s.u.get u with
    | some (.holding k c) =>
      if ok then some ({ s with u := s.u.set u (.bridged c) }, .bridged c)
      else
        -- write failed: `workConn.Close()`, next round of the loop
        let s1 := { s with w := s.w.set c .closed }
        if k + 1 < tries s.pc then some ({ s1 with u := s1.u.set u (.accepted (k + 1)) }, .retry)
        else
          -- loop exhausted: the shadowed `err` leaves the outer one nil, the CLOSED connection is
          -- returned as a success; Join on it returns at once and the deferred closes run
          some ({ s1 with u := s1.u.set u .closed }, .exhausted)
    | _ => none
  | .joinEnd u =>
    if s.panicked then none else
    match s.u.get u with
    | some (.bridged c) => some ({ s with u := s.u.set u .closed, w := s.w.set c .closed }, .closed)
    | _ => none
  | .dispDone =>
    if s.panicked ∨ s.dispDone then none else some ({ s with dispDone := true }, .none)
  | .closePool =>
    if s.panicked ∨ s.dispDone = false ∨ s.poolClosed then none else some ({ s with poolClosed := true }, .none)
  | .drain =>
    if s.panicked ∨ s.poolClosed = false ∨ s.drained then none
    else some ({ s with pool := [], drained := true,
                        w := s.pool.foldl (fun t c => t.set c .closed) s.w }, .none)
  | .closeProxies =>
    -- `for _, pxy := range ctl.proxies { pxy.Close() … }` under ctl.mu
    if s.panicked ∨ s.drained = false ∨ s.pxClosed then none
    else some ({ s with proxyOpen := false, px := [], pxClosed := true }, .none)
  | .del =>
    if s.panicked ∨ s.pxClosed = false ∨ s.inManager = false then none else some ({ s with inManager := false }, .none)
  | .regProxy p =>
    -- handleNewProxy runs inside the dispatcher's read loop: only while the control connection lives.
    -- RegisterProxy: pxy.Run(), `ctl.proxies[name] = pxy`.  It asks the client for NOTHING: the advance
    -- requests were sent once, by Start().
    if s.panicked ∨ s.dispDone then none
    else if p = 0 then (if s.proxyOpen then none else some ({ s with proxyOpen := true }, .none))
    else if p ∈ s.px then none else some ({ s with px := p :: s.px }, .none)
  | .closeProxy p =>
    -- CloseProxy: pxy.Close() (the listener; established bridges and waiting handlers go on), delete from the map
    if s.panicked ∨ s.dispDone then none
    else if p = 0 then (if s.proxyOpen then some ({ s with proxyOpen := false }, .none) else none)
    else if p ∈ s.px then some ({ s with px := s.px.erase p }, .none) else none

/-- run a label list; `none` if some label is not enabled -/
def run (fx : Fix) : St → List Label → Option St
  | s, [] => some s
  | s, l :: ls => match step fx s l with
    | none => none
    | some (s', _) => run fx s' ls

/-- reachable from a fresh session -/
inductive Reach (fx : Fix) (pc : Int) (T : Nat) : St → Prop
  | init : Reach fx pc T (init pc T)
  | step {s s' l r} : Reach fx pc T s → step fx s l = some (s', r) → Reach fx pc T s'

end Pool

/-! ## vhost hand-off (pkg/util/vhost/vhost.go) -/
namespace Handoff
open Pool (Tbl Fix)

/-- a connection accepted by `Muxer.run` -/
inductive H
  | parsed               -- vhostFunc read the host name
  | routed (l : Nat)     -- getListener found l; about to `l.accept <- c` (deadline cleared)
  | delivered (l : Nat)  -- received by l.Accept()
  | closed
  | limbo                -- open, deadline cleared, held by nobody
deriving DecidableEq, Repr

structure St where
  lsn : Tbl Bool := {}    -- listener ↦ still registered / channel open
  c : Tbl H := {}
deriving Repr

inductive Label
  | listen (l : Nat)           -- Muxer.Listen: routers.Add
  | conn (c : Nat)             -- accepted + host parsed
  | route (c l : Nat)          -- getListener → l (enabled iff l is registered)
  | noRoute (c : Nat)          -- getListener → not found: failHook closes
  | closeListener (l : Nat)    -- Listener.Close: routers.Del; close(l.accept)
  | handoff (c : Nat)          -- the send inside PanicToError completes (received or panicked)
deriving DecidableEq, Repr

def step (fx : Fix) (s : St) : Label → Option St
  | .listen l => if (s.lsn.get l).isSome then none else some { s with lsn := s.lsn.set l true }
  | .conn c => if (s.c.get c).isSome then none else some { s with c := s.c.set c .parsed }
  | .route c l =>
    if s.c.get c = some .parsed ∧ s.lsn.get l = some true then some { s with c := s.c.set c (.routed l) } else none
  | .noRoute c =>
    if s.c.get c = some .parsed then some { s with c := s.c.set c .closed } else none
  | .closeListener l =>
    if s.lsn.get l = some true then some { s with lsn := s.lsn.set l false } else none
  | .handoff c =>
    match s.c.get c with
    | some (.routed l) =>
      if s.lsn.get l = some true then some { s with c := s.c.set c (.delivered l) }
      else
        -- send on the closed channel: PanicToError returns an error, a warning is logged, `c` is
        -- not closed and its deadline was already cleared (§7/10)
        some { s with c := s.c.set c (if fx.closeOnFailedHandoff then .closed else .limbo) }
    | _ => none

def run (fx : Fix) : St → List Label → Option St
  | s, [] => some s
  | s, l :: ls => match step fx s l with
    | none => none
    | some s' => run fx s' ls

inductive Reach (fx : Fix) : St → Prop
  | init : Reach fx {}
  | step {s s' l} : Reach fx s → step fx s l = some s' → Reach fx s'

end Handoff

/-! ## visitor-listener accept path (pkg/util/net/listener.go, server/visitor/visitor.go, server/proxy/proxy.go)

  One stcp / sudp / xtcp proxy: its `InternalListener` (buffered `acceptCh`), the visitor manager's entry
  for it, and the accept goroutine of `startCommonTCPListenersHandler`.  A label is one call of
  `Manager.NewConn` (→ `PutConn`), one `Accept()` of the loop, `listener.Close()` (BaseProxy.Close) or
  `VisitorManager.CloseListener` (STCPProxy.Close, after BaseProxy.Close). -/
namespace VListen
open Pool (Tbl)

/-- a visitor connection, seen from frps -/
inductive V
  | queued      -- sitting in acceptCh
  | accepted    -- returned by Accept: `go handleUserTCPConnection(c)` owns it (bridged or closed: Pool model)
  | closed      -- closed by PutConn (queue full) or by the caller of NewConn (error returned)
deriving DecidableEq, Repr

structure St where
  cap : Nat := 128               -- `make(chan net.Conn, 128)`
  q : List Nat := []             -- acceptCh, head = next to be received
  chClosed : Bool := false       -- `close(l.acceptCh)`
  registered : Bool := true      -- visitor.Manager.listeners holds the name
  loopExit : Bool := false       -- the accept goroutine has returned ("listener is closed")
  c : Tbl V := {}
deriving Repr

inductive Label
  | put (c : Nat)     -- Manager.NewConn for this name
  | accept            -- one round of the accept loop
  | closeL            -- InternalListener.Close (idempotent)
  | unregister        -- Manager.CloseListener
deriving DecidableEq, Repr

inductive Res
  | none | queued | full | err | got (c : Nat) | exit
deriving DecidableEq, Repr

def step (s : St) : Label → Option (St × Res)
  | .put c =>
    if (s.c.get c).isSome then none
    else if s.registered = false then
      -- "custom listener for [name] doesn't exist": RegisterVisitorConn fails, handleConnection closes
      some ({ s with c := s.c.set c .closed }, .err)
    else if s.chClosed then
      -- the send case of the select panics on the closed channel; PanicToError turns it into
      -- "put conn error: listener is closed"; NewConn returns it and handleConnection closes
      some ({ s with c := s.c.set c .closed }, .err)
    else if s.q.length < s.cap then
      some ({ s with q := s.q ++ [c], c := s.c.set c .queued }, .queued)
    else
      -- `default: conn.Close()`, nil is returned
      some ({ s with c := s.c.set c .closed }, .full)
  | .accept =>
    if s.loopExit then none else
    match s.q with
    | c :: rest =>
      -- `conn, ok := <-l.acceptCh` yields the buffered connections first, also after close(acceptCh)
      some ({ s with q := rest, c := s.c.set c .accepted }, .got c)
    | [] =>
      -- `!ok`: "listener closed" ⇒ the loop logs and returns;  open and empty: Accept blocks
      if s.chClosed then some ({ s with loopExit := true }, .exit) else none
  | .closeL => some ({ s with chClosed := true }, .none)
  | .unregister =>
    if s.chClosed ∧ s.registered then some ({ s with registered := false }, .none) else none

def run : St → List Label → Option St
  | s, [] => some s
  | s, l :: ls => match step s l with
    | none => none
    | some (s', _) => run s' ls

inductive Reach (cap : Nat) : St → Prop
  | init : Reach cap { cap := cap }
  | step {s s' l r} : Reach cap s → step s l = some (s', r) → Reach cap s'

end VListen

/-! ## group-listener accept path (server/group/tcp.go; tcpmux.go has the same shape)

  One load-balancing group: the shared real listener (kernel accept queue), the group worker that
  takes one connection at a time and sits in the UNBUFFERED send `tg.acceptCh <- c`, the members'
  `Accept`, and `CloseListener` of the last member (`close(acceptCh)`, `tcpLn.Close()`).
  (The join / leave protocol with its two locks is C13's `Frp.Group`; here only who owns a user
  connection.) -/
namespace GroupAccept
open Pool (Tbl)

inductive G
  | backlog     -- completed handshake, in the kernel queue of tcpLn
  | held        -- returned by tcpLn.Accept(), the worker is in the send
  | delivered   -- received by a member's Accept: the proxy's handler owns it
  | closed      -- refused, reset with the listener, or closed by the worker after the failed send
deriving DecidableEq, Repr

structure St where
  members : Nat := 0
  backlog : List Nat := []
  hold : Option Nat := none
  c : Tbl G := {}
deriving Repr

inductive Label
  | listen            -- a member joins (the first one listens and starts the worker)
  | conn (c : Nat)    -- a user connects to the group's port
  | workerAccept      -- the worker takes the next connection and enters the send
  | recv              -- some member's Accept receives the held connection
  | leave             -- a member's Close; the last one closes channel and listener
deriving DecidableEq, Repr

def step (s : St) : Label → Option St
  | .listen => some { s with members := s.members + 1 }
  | .conn c =>
    if (s.c.get c).isSome then none
    else if s.members = 0 then some { s with c := s.c.set c .closed }       -- nobody listens: refused
    else some { s with backlog := s.backlog ++ [c], c := s.c.set c .backlog }
  | .workerAccept =>
    match s.hold, s.backlog with
    | none, c :: rest => if s.members = 0 then none else some { s with backlog := rest, hold := some c, c := s.c.set c .held }
    | _, _ => none
  | .recv =>
    match s.hold with
    | some c => if s.members = 0 then none else some { s with hold := none, c := s.c.set c .delivered }
    | none => none
  | .leave =>
    if s.members = 0 then none
    else if s.members = 1 then
      -- close(acceptCh): the worker's send panics, PanicToError, `c.Close()`; tcpLn.Close(): the kernel
      -- resets every connection still in the accept queue
      let t := match s.hold with
        | some c => s.c.set c .closed
        | none => s.c
      some { members := 0, backlog := [], hold := none, c := s.backlog.foldl (fun t c => t.set c .closed) t }
    else some { s with members := s.members - 1 }

def run : St → List Label → Option St
  | s, [] => some s
  | s, l :: ls => match step s l with
    | none => none
    | some s' => run s' ls

inductive Reach : St → Prop
  | init : Reach {}
  | step {s s' l} : Reach s → step s l = some s' → Reach s'

end GroupAccept
end Frp
