import Frp.Gen.TypedConf
/-
  Configuration loads that overlap in time, as far as the strict switch goes.

  Go sources mirrored here:
    pkg/config/load.go        LoadConfigure(b, c, strict): the events on `v1.DisallowUnknownFieldsMu` /
                              `v1.DisallowUnknownFields` are *regenerated* (`Gen.TypedConf.loadConfigureEvents`);
                              the top level of the document is decoded by a decoder that gets
                              `DisallowUnknownFields()` from the LOCAL `strict` argument
    pkg/config/v1/proxy.go, visitor.go, proxy_plugin.go, visitor_plugin.go
                              Typed…​.UnmarshalJSON: `if DisallowUnknownFields { decoder.DisallowUnknownFields() }`
                              — every nested element reads the package-level switch at the moment it is decoded
                              (`Gen.TypedConf.proxyUnmarshalJSON` carries `.strictSwitch` before `.decode`)
    sync.Mutex                Lock blocks while the mutex is held; Unlock releases it

  Threads = goroutines each performing one load; a schedule is the list of thread indices in the order in
  which they take their next step (a blocked Lock is a step that changes nothing).
-/
namespace Frp
namespace StrictLoad
open Gen.TypedConf

/-- one load: its own strictness and where its document has unknown keys -/
structure Load where
  strict : Bool
  top : Bool            -- an unknown key at the top level
  nested : List Bool    -- per nested element (proxy, visitor, plugin block) in document order: has an unknown key
  deriving DecidableEq, Repr

/-- the verdict of the load taken on its own: rejected exactly when it is strict and some level of its
    document carries an unknown key -/
def rejects (l : Load) : Bool := l.strict && (l.top || l.nested.any id)

inductive Instr
  | lock
  | setFlag (s : Bool)
  | top (unknown strict : Bool)   -- the outer decoder: the local `strict`
  | elem (unknown : Bool)         -- a nested UnmarshalJSON: reads the package-level switch
  | unlock
  deriving DecidableEq, Repr

def instrsOf (l : Load) : LEv → List Instr
  | .lock => [.lock]
  | .setFlag => [.setFlag l.strict]
  | .decode => .top l.top l.strict :: l.nested.map .elem
  | .unlock => [.unlock]

/-- the instruction sequence of one `LoadConfigure` call -/
def program (evs : List LEv) (l : Load) : List Instr := evs.flatMap (instrsOf l)

structure Thread where
  load : Load
  rest : List Instr
  rejected : Bool
  deriving DecidableEq, Repr

structure St where
  flag : Bool                 -- v1.DisallowUnknownFields
  lockedBy : Option Nat       -- v1.DisallowUnknownFieldsMu
  threads : List Thread
  deriving DecidableEq, Repr

def init (evs : List LEv) (flag0 : Bool) (loads : List Load) : St :=
  { flag := flag0, lockedBy := none, threads := loads.map fun l => { load := l, rest := program evs l, rejected := false } }

/-- thread `i` (whose record is `t`) executes instruction `x`, `r` being what remains afterwards -/
def stepInstr (st : St) (i : Nat) (t : Thread) (r : List Instr) : Instr → St
  | .lock =>
    if st.lockedBy.isSome then st      -- blocked
    else { st with lockedBy := some i, threads := st.threads.set i { t with rest := r } }
  | .setFlag s => { st with flag := s, threads := st.threads.set i { t with rest := r } }
  | .top u s => { st with threads := st.threads.set i { t with rest := r, rejected := t.rejected || (s && u) } }
  | .elem u => { st with threads := st.threads.set i { t with rest := r, rejected := t.rejected || (st.flag && u) } }
  | .unlock => { st with lockedBy := none, threads := st.threads.set i { t with rest := r } }

/-- thread `i` takes its next step -/
def stepThread (st : St) (i : Nat) : St :=
  match st.threads[i]? with
  | none => st
  | some t =>
    match t.rest with
    | [] => st
    | x :: r => stepInstr st i t r x

def run (st : St) (sched : List Nat) : St := sched.foldl stepThread st

/-- the critical section the property needs: the mutex is taken before the switch is written and released
    only after the document has been decoded -/
def heldEvents : List LEv := [.lock, .setFlag, .decode, .unlock]

/-- the switch written under the mutex, the document decoded outside it -/
def unheldEvents : List LEv := [.lock, .setFlag, .unlock, .decode]

end StrictLoad
end Frp
