/-
  End of a client-side session: does `Control.worker()` get to `close(ctl.doneCh)`?
  (`Service.keepControllerWorking` waits on `<-svr.ctl.Done()` before it logs in again: a teardown that
  never finishes is a client that never reconnects.)   Small-step, all interleavings.

  client/control.go
    worker          : <-msgDispatcher.Done(); closeSession(); ctl.pm.Close(); ctl.vm.Close(); close(ctl.doneCh)
  client/proxy/proxy_manager.go
    Close           : pm.mu.Lock(); for _, pxy := range pm.proxies { pxy.Stop() }
  client/proxy/proxy_wrapper.go
    Stop            : pw.mu.Lock(); close(closeCh); close(healthNotifyCh); pxy.Close(); monitor.Stop();
                      Phase = Closed; pw.close(); pw.mu.Unlock()
    close           : pw.handler(CloseProxy{name})  =  pm.HandleEvent  =  msgTransporter.Send(m)
    checkWorker     : if monitor != nil { time.Sleep(500ms) }
                      for { pw.mu.Lock(); (phase / health conditions) ⇒ pw.handler(NewProxy | CloseProxy); pw.mu.Unlock()
                            select { <-closeCh: return; <-time.After(3s); <-healthNotifyCh } }
  pkg/transport/message.go
    Send            : impl.sendCh <- m            -- a bare send on the dispatcher's channel: blocks while it is full
  pkg/msg/handler.go
    NewDispatcher   : sendCh = make(chan Message, 100)
    sendLoop        : select { <-doneCh: return; m := <-sendCh: WriteMsg }    -- gone once the read loop has failed
    readLoop        : ReadMsg error ⇒ close(doneCh)

  So when `worker()` runs `pm.Close()` nobody receives from `sendCh` any more, and every wrapper still pushes one
  CloseProxy into it while `pw.mu` (and `pm.mu`) are held.

  Parameters (read from the source by translate/gen_sessfacts_clock.go):
    cap        capacity of the send channel (100)
    stopWaits  `Stop` waits, with `pw.mu` held, for its check goroutine to exit (frp: false)
    drains     somebody receives from the send channel while `pm.Close()` runs (frp: false — THE SWITCH: the
               repair `hooks/C14-fix-teardown-drain.patch` makes `worker()` discard what is queued, `true`)
-/
namespace Frp
namespace Teardown

structure Cfg where
  cap       : Nat
  stopWaits : Bool
  drains    : Bool
deriving Repr, DecidableEq

/-- where one wrapper's `checkWorker` goroutine is -/
inductive Wk
  | sleep                 -- the initial 500 ms sleep (wrappers with a health monitor)
  | top                   -- about to take pw.mu
  | crit (send : Bool)    -- holds pw.mu; `send` = the phase conditions make it push one message
  | sel                   -- in the select
  | gone                  -- returned
deriving Repr, DecidableEq

structure Wr where
  wk      : Wk
  closeCh : Bool := false   -- closed by Stop
  held    : Bool := false   -- pw.mu is held by Stop
  stopped : Bool := false   -- Phase = Closed (Stop has returned)
deriving Repr, DecidableEq

/-- where `Stop()` of the current wrapper is -/
inductive Ph
  | lock          -- waiting for pw.mu
  | waitWorker    -- (only with `stopWaits`) pw.mu held, closeCh closed, waiting for the check goroutine
  | send          -- pw.mu held, in pw.close(): pushing CloseProxy
deriving Repr, DecidableEq

structure St where
  buf  : Nat                -- messages sitting in the send channel
  pre  : List Wr := []      -- wrappers already stopped
  todo : List Wr            -- wrappers still to stop; the head is the one `Stop()` is working on
  ph   : Ph := .lock
  fin  : Bool := false      -- close(ctl.doneCh)
deriving Repr, DecidableEq

inductive Lbl
  | closer                      -- the goroutine running worker() → pm.Close() → Stop() takes its next step
  | worker (j : Nat) (b : Bool) -- the check goroutine of wrapper j (index in pre ++ todo) takes its next step;
                                --   at the lock: b = the phase conditions ask for a message;
                                --   in the select: b = the timer / health notification fired
  | drain                       -- a receiver takes one message out of the send channel
deriving Repr, DecidableEq

/-- one step of a check goroutine; `none` = it cannot move -/
def wkStep (c : Cfg) (buf : Nat) (w : Wr) (b : Bool) : Option (Nat × Wr) :=
  match w.wk with
  | .sleep => some (buf, { w with wk := .top })
  | .top => if w.held then none else some (buf, { w with wk := .crit (b && !w.stopped) })
  | .crit true => if buf < c.cap then some (buf + 1, { w with wk := .sel }) else none
  | .crit false => some (buf, { w with wk := .sel })
  | .sel => if b then some (buf, { w with wk := .top })
            else if w.closeCh then some (buf, { w with wk := .gone }) else none
  | .gone => none

/-- a receiver on the send channel takes one message, if there is a receiver and a message -/
def drainBuf (c : Cfg) (buf : Nat) : Nat := if c.drains && decide (0 < buf) then buf - 1 else buf

def isCrit : Wk → Bool
  | .crit _ => true
  | _ => false

/-- one step; a label that is not enabled leaves the state as it is -/
def step (c : Cfg) (s : St) : Lbl → St
  | .closer =>
    if s.fin then s else
    match s.todo, s.ph with
    | [], _ => { s with fin := true }
    | w :: rest, .lock =>
      if isCrit w.wk then s      -- pw.mu is held by the check goroutine
      else { s with todo := { w with held := true, closeCh := true } :: rest,
                    ph := if c.stopWaits then .waitWorker else .send }
    | w :: _, .waitWorker => if w.wk = .gone then { s with ph := .send } else s
    | w :: rest, .send =>
      if s.buf < c.cap then
        { s with buf := s.buf + 1, pre := s.pre ++ [{ w with held := false, stopped := true }], todo := rest, ph := .lock }
      else s
  | .worker j b =>
    if j < s.pre.length then
      match s.pre[j]? with
      | some w =>
        match wkStep c s.buf w b with
        | some (buf', w') => { s with buf := buf', pre := s.pre.set j w' }
        | none => s
      | none => s
    else
      match s.todo[j - s.pre.length]? with
      | some w =>
        match wkStep c s.buf w b with
        | some (buf', w') => { s with buf := buf', todo := s.todo.set (j - s.pre.length) w' }
        | none => s
      | none => s
  | .drain => { s with buf := drainBuf c s.buf }

def run (c : Cfg) : St → List Lbl → St
  | s, [] => s
  | s, l :: ls => run c (step c s l) ls

/-- the state in which `worker()` enters `pm.Close()`: `buf` messages are still queued -/
def init (buf : Nat) (ws : List Wr) : St := { buf := buf, todo := ws }

/-- what the driver predicts for a session of `n` wrappers whose check goroutines are parked in their
    select, `buf` messages queued: the closer alone walks the list -/
def closerAlone (c : Cfg) (buf : Nat) (ws : List Wr) : St :=
  run c (init buf ws) (List.replicate (3 * ws.length + 1) .closer)

end Teardown
end Frp
