import Frp.Model.Pool
/-
  The control-message send path of one session (C11): `msg.Dispatcher.Send`, `sendLoop` and the end of
  the session, as far as a goroutine that calls `Send` can be held up by it.

    pkg/msg/handler.go   NewDispatcher (`sendCh = make(chan Message, 100)`, `doneCh`), Send, sendLoop,
                         readLoop (`close(d.doneCh)` on the first read error)
    server/control.go    GetWorkConn (`Send(&msg.ReqWorkConn{})` on behalf of a user connection: before the
                         wait on an empty pool, and as replacement after a take), Start (advance requests),
                         handlePing / handleNewProxy (answers), worker (`<-Done(); ctl.conn.Close()`)

  ```
  func (d *Dispatcher) Send(m Message) error {
      select {
      case <-d.doneCh:   return io.EOF
      case d.sendCh <- m: return nil
      }
  }
  func (d *Dispatcher) sendLoop() {
      for {
          select {
          case <-d.doneCh: return
          case m := <-d.sendCh: _ = WriteMsg(d.rw, m)
          }
      }
  }
  ```

  `Frp.Pool` treats `request u ok` (GetWorkConn's Send) as one label that is always enabled.  It is not:
  `WriteMsg` blocks while the client does not read its control connection, the queue (100) fills, and
  every further sender parks inside `Send`.  This transition system splits the label into
  "Send entered | the send arm fires | the done arm fires", with the send loop, the write, the read
  loop's failure and the worker's `conn.Close()` as the other actors.  A label is one channel operation
  or one return of a blocking call; `step` returns `none` when the label is not enabled.  A client that
  has stopped reading is a schedule in which `written true` does not occur.

  `plain` is NOT the code of the tree: it is the variant "non-blocking `doneCh` check, then a plain
  `d.sendCh <- m`" (one arm only), kept to show that the release theorem depends on the `doneCh` arm of
  the blocking statement (Props/C11: `releasedOnEnd_plainSend_false`).

  The read loop's own senders (handlePing, handleNewProxy run inside it) are senders like any other.
  That the read loop cannot fail while it is itself parked in `Send` is not modelled (`readFail` is
  always enabled: more schedules, the theorems hold for all of them); that starvation is C14's.

  (C17's `Frp.Dispatcher` models the same two loops with `Send` as ONE atomic op carrying its observed
  return; it has no parked senders, which are the point here.)
-/
namespace Frp
namespace SendPath
open Pool (Tbl)

/-- a goroutine that has called `Send` (absent from the table = has not called) -/
inductive P
  | parked     -- inside the blocking statement: proceeds as soon as one of its arms is ready
  | sent       -- `case d.sendCh <- m: return nil`
  | eof        -- `case <-d.doneCh: return io.EOF`
deriving DecidableEq, Repr

structure St where
  cap : Nat := 100              -- `make(chan Message, 100)`
  q : List Nat := []            -- sendCh (a message is named by its sender), head = next to be received
  wr : Option Nat := none       -- the message the send loop has received and is writing (inside WriteMsg)
  wire : List Nat := []         -- messages written to the connection, in order
  done : Bool := false          -- `close(d.doneCh)`
  connClosed : Bool := false    -- the control connection is closed (worker after `<-Done()`, heartbeat, Replaced) or broken
  loopExit : Bool := false      -- sendLoop has returned
  p : Tbl P := {}
deriving Repr

def init (cap : Nat) : St := { cap := cap }

inductive Label
  | call (u : Nat)        -- `Send(m)` entered by goroutine u
  | enq (u : Nat)         -- the send arm of u's blocking statement fires
  | wake (u : Nat)        -- the `<-d.doneCh` arm of u's select fires
  | loopRecv              -- sendLoop: `case m := <-d.sendCh`
  | loopDone              -- sendLoop: `case <-d.doneCh: return`
  | written (ok : Bool)   -- WriteMsg returns (its error is ignored)
  | readFail              -- readLoop: ReadMsg failed ⇒ `close(d.doneCh)`
  | connClose             -- `ctl.conn.Close()`
deriving DecidableEq, Repr

def step (plain : Bool) (s : St) : Label → Option St
  | .call u =>
    if (s.p.get u).isSome then none
    -- variant: `select { case <-d.doneCh: return io.EOF; default: }` first
    else if plain ∧ s.done then some { s with p := s.p.set u .eof }
    else some { s with p := s.p.set u .parked }
  | .enq u =>
    -- a send on a buffered channel proceeds iff the buffer has room (a receiver that is waiting found it empty)
    if s.p.get u = some .parked ∧ s.q.length < s.cap then
      some { s with q := s.q ++ [u], p := s.p.set u .sent }
    else none
  | .wake u =>
    if plain = false ∧ s.p.get u = some .parked ∧ s.done then some { s with p := s.p.set u .eof } else none
  | .loopRecv =>
    -- enabled also when doneCh is closed: with both cases ready the runtime picks either
    match s.loopExit, s.wr, s.q with
    | false, none, m :: rest => some { s with wr := some m, q := rest }
    | _, _, _ => none
  | .loopDone =>
    if s.loopExit = false ∧ s.wr = none ∧ s.done then some { s with loopExit := true } else none
  | .written ok =>
    match s.wr with
    | some m =>
      if ok then (if s.connClosed then none else some { s with wr := none, wire := s.wire ++ [m] })
      else (if s.connClosed then some { s with wr := none } else none)
    | none => none
  | .readFail => if s.done then none else some { s with done := true }
  | .connClose => if s.connClosed then none else some { s with connClosed := true }

def run (plain : Bool) : St → List Label → Option St
  | s, [] => some s
  | s, l :: ls => match step plain s l with
    | none => none
    | some s' => run plain s' ls

inductive Reach (plain : Bool) (cap : Nat) : St → Prop
  | init : Reach plain cap (init cap)
  | step {s s' l} : Reach plain cap s → step plain s l = some s' → Reach plain cap s'

/-- goroutines currently parked inside `Send`, oldest first (ids grow with time) -/
def parkedOf (s : St) : List Nat :=
  let ks := (s.p.l.map (·.1)).eraseDups
  (ks.filter (fun k => s.p.get k == some .parked)).reverse

end SendPath
end Frp
