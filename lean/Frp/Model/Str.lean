/-
  Byte strings as the Go code sees them.

  Go's `string` is a byte sequence; `strings.HasPrefix`, `==`, `cmp.Compare` are bytewise.
  The model uses `List Nat` (one `Nat < 256` per byte).  `strings.ToLower` is Unicode aware in Go;
  the model is ASCII-only and the driver answers `unsupported` for any line that carries a byte
  ≥ 128 where case folding matters (those lines are counted, never compared).
-/
namespace Frp

abbrev Str := List Nat

namespace Str

def lowerB (c : Nat) : Nat := if 65 ≤ c ∧ c ≤ 90 then c + 32 else c

def toLower (s : Str) : Str := s.map lowerB

def isAscii (s : Str) : Bool := s.all (· < 128)

/-- `strings.HasPrefix s p` -/
def hasPrefix (s p : Str) : Bool := p.isPrefixOf s

/-- bytewise lexicographic strict order, as Go's `<` on strings / `cmp.Compare … < 0`
    (core's lexicographic order on `List Nat`) -/
def lt (a b : Str) : Bool := decide (a < b)

def dot : Nat := 46
def star : Nat := 42
def colon : Nat := 58

/-- `strings.Split s "."` (always returns at least one element) -/
def splitOn (sep : Nat) : Str → List Str
  | [] => [[]]
  | c :: cs =>
    if c = sep then [] :: splitOn sep cs
    else match splitOn sep cs with
      | [] => [[c]]          -- unreachable, splitOn never returns []
      | h :: t => (c :: h) :: t

/-- `strings.Join parts "."` -/
def joinWith (sep : Nat) : List Str → Str
  | [] => []
  | [a] => a
  | a :: b :: rest => a ++ sep :: joinWith sep (b :: rest)

def ofString (s : String) : Str := s.toUTF8.toList.map (·.toNat)

def toString (s : Str) : String :=
  match String.fromUTF8? (ByteArray.mk (s.map (·.toUInt8)).toArray) with
  | some x => x
  | none => "?"

theorem toLower_idem (s : Str) : toLower (toLower s) = toLower s := by
  simp only [toLower, List.map_map]
  apply List.map_congr_left
  intro c _
  simp only [Function.comp, lowerB]
  split <;> (try split) <;> omega

theorem lowerB_dot : lowerB dot = dot := by decide
theorem lowerB_star : lowerB star = star := by decide

end Str
end Frp
