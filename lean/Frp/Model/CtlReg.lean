import Frp.Model.Reconcile
/-
  The client's Control as the glue between the control connection and the proxy manager, and the
  server at the other end of that connection — client/control.go `handleNewProxyResp`,
  client/proxy/proxy_manager.go `StartProxy` / `HandleEvent`, server/control.go `handleNewProxy` /
  `handleCloseProxy`.

  ```
  func (ctl *Control) handleNewProxyResp(m msg.Message) {          // registered with the dispatcher, synchronous
      inMsg := m.(*msg.NewProxyResp)
      err := ctl.pm.StartProxy(inMsg.ProxyName, inMsg.RemoteAddr, inMsg.Error)
      if err != nil { xl.Warnf("[%s] start error: %v", …) }       // error ⇒ LOG ONLY, nothing is sent
      else          { xl.Infof("[%s] start proxy success", …) } }

  func (pm *Manager) StartProxy(name, remoteAddr, serverRespErr string) error {
      pxy, ok := pm.proxies[name]
      if !ok { return fmt.Errorf("proxy [%s] not found", name) }
      err := pxy.SetRunningStatus(remoteAddr, serverRespErr) … }
  ```
  A NewProxyResp carries nothing but the proxy NAME: a reply is applied to whatever wrapper is
  registered under that name when it arrives.  `onStartResult` is what the handler itself hands to
  the dispatcher for each outcome of StartProxy (`none` = "not found"): nothing.

  The server (one control, messages processed in arrival order): NewProxy for a name it already
  holds is refused ("proxy already exists", the registration stays), for a free name it is accepted
  or refused (port taken, not allowed, plugin veto …: the environment's choice `acc`); every NewProxy
  is answered by one NewProxyResp; CloseProxy releases the name, no answer.
-/
namespace Frp
namespace CtlReg
open Wrapper Reconcile

/-- what `handleNewProxyResp` sends for an outcome of `pm.StartProxy` (error ⇒ log only) -/
def onStartResult : Option Res → List Msg := fun _ => []

/-- a handler that "makes sure the server keeps nothing" whenever StartProxy returned an error
    (NOT the code: kept for the witness `C19.closing_glue_witness`) -/
def onStartResultClosing : Option Res → List Msg
  | some .ok => []
  | _ => [.closeProxy]

/-- `handleNewProxyResp` on the manager: new manager, messages for that name in wire order,
    StartProxy's outcome -/
def handleResp (glue : Option Res → List Msg) (m : Mgr) (n now : Nat) (respErr : Bool) :
    Mgr × List Msg × Option Res :=
  match deliver m n (.startResp now respErr) with
  | none => (m, glue none, none)
  | some (m', ms, r) => (m', ms ++ glue (some r), some r)

/-- a pending NewProxyResp: proxy name, Error == "" -/
abbrev Reply := Nat × Bool

/-- the server takes one message (decision `acc` for a free name): held names, answers -/
def srvRecv (acc : Bool) (held : List Nat) : Nat × Msg → List Nat × List Reply
  | (n, .newProxy) =>
    if held.contains n then (held, [(n, false)])
    else if acc then (n :: held, [(n, true)]) else (held, [(n, false)])
  | (n, .closeProxy) => (held.filter (· != n), [])

def srvRecvAll (acc : Bool) : List Nat → List (Nat × Msg) → List Nat × List Reply
  | held, [] => (held, [])
  | held, x :: xs =>
    let r := srvRecv acc held x
    let rest := srvRecvAll acc r.1 xs
    (rest.1, r.2 ++ rest.2)

/-! ### one name: wrapper registered under it, the server's view, every reply schedule

  Everything above is per proxy name (the manager's map, the server's table, the reply's only key).
  `Reg` is the projection to one name; an `Act` is anything that can happen to it, with the
  server's decision for a NewProxy the action may put on the wire.  Replies are actions of the
  environment: ANY reply at ANY time (late, duplicated, reordered, for a name that is gone). -/

structure Reg where
  w : Option W := none          -- pm.proxies[name]
  held : Bool := false          -- the server holds a proxy of that name
  last : Option Msg := none     -- the last message about the name on the wire
  deriving DecidableEq, Repr

/-- what reaches a registered wrapper from its own goroutines: a worker iteration, the monitor's
    callbacks, a work connection (replies come through the handler, Stop through the reload) -/
inductive WEv
  | tick (now : Nat) | healthUp | healthDown | inWorkConn
  deriving DecidableEq, Repr

def WEv.toEvent : WEv → Event
  | .tick now => .tick now | .healthUp => .healthUp | .healthDown => .healthDown | .inWorkConn => .inWorkConn

inductive Act
  | ev (e : WEv)                          -- worker iteration / monitor callback / work connection on the registered wrapper
  | reply (now : Nat) (respErr : Bool)    -- a NewProxyResp through the dispatcher's handler
  | remove                                -- reload: delete(pm.proxies, name); pxy.Stop()
  | add (c : Cfg) (id now : Nat)          -- reload: NewWrapper; Start() (the worker's first iteration)
  deriving DecidableEq, Repr

/-- the server's table entry after the messages of one action (decision `acc`) -/
def srv1 (acc : Bool) : Bool → List Msg → Bool
  | held, [] => held
  | held, .newProxy :: ms => srv1 acc (held || acc) ms
  | _, .closeProxy :: ms => srv1 acc false ms

def lastMsg (prev : Option Msg) : List Msg → Option Msg
  | [] => prev
  | m :: ms => lastMsg (some m) ms

/-- messages an action puts on the wire, and the wrapper registered afterwards -/
def actOut (glue : Option Res → List Msg) (w : Option W) : Act → Option W × List Msg
  | .reply now respErr =>
    match w with
    | none => (none, glue none)
    | some w => let r := step w (.startResp now respErr); (some r.1, r.2.1 ++ glue (some r.2.2))
  | .remove =>
    match w with
    | none => (none, [])
    | some w => (none, (step w .stop).2.1)
  | .ev e =>
    match w with
    | none => (none, [])
    | some w => let r := step w e.toEvent; (some r.1, r.2.1)
  | .add c id now =>
    match w with
    | some w => (some w, [])              -- the add loop skips a name that is in the map
    | none => let r := start (mk c id) now; (some r.1, r.2)

def regStepG (glue : Option Res → List Msg) (s : Reg) (a : Act) (acc : Bool) : Reg :=
  let r := actOut glue s.w a
  { w := r.1, held := srv1 acc s.held r.2, last := lastMsg s.last r.2 }

/-- the code as it is -/
def regStep : Reg → Act → Bool → Reg := regStepG onStartResult

def regRunG (glue : Option Res → List Msg) : Reg → List (Act × Bool) → Reg
  | s, [] => s
  | s, (a, acc) :: rest => regRunG glue (regStepG glue s a acc) rest

def regRun : Reg → List (Act × Bool) → Reg := regRunG onStartResult

end CtlReg
end Frp
