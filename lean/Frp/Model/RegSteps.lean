import Frp.Model.Release
/-
  Small-step model of `Control.RegisterProxy` / `CloseProxy` / `Control.worker` (server/control.go) for
  SEVERAL SESSIONS WHOSE REGISTRATIONS RUN CONCURRENTLY (property C10: "a registration that fails
  part-way … name taken concurrently"; "quota" among the resources that must be given back).

  One `RegisterProxy` call is a sequence of critical sections; between them the calls of other sessions
  may run (within one session the dispatcher handles NewProxy / CloseProxy one at a time):

      A  quota check-and-charge (ctl.mu, `portsUsedNum += n`, deferred `-= n` if err != nil)
         pxyManager.Exist(name)                                   → "already exists"
         ── gate reg.checked ──
      B  pxy.Run(): claims its keys one after the other; on a conflict gives back what it claimed
         ── gate reg.ran ──     (deferred `pxy.Close()` if err != nil from here on)
      C  pxyManager.Add(name): name taken meanwhile                → "proxy name is already in use"
         ctl.proxies[name] = pxy

  (A is session-local apart from the read of the name table; `Add` and the store into `ctl.proxies`
  are one step here because only the session's own, sequential, handlers read `ctl.proxies`.)

  Resources are exclusive keys as in Frp/Model/Release.lean, plus the tables `tcp` / `udp` whose key is
  an explicitly requested port of the allowed range (ports.Manager.Acquire with port ≠ 0 on a machine
  where nobody else binds the port: in freePorts ⇒ taken, in usedPorts ⇒ ErrPortAlreadyUsed).
  A key is held by a proxy OBJECT (session, name): during a name race two objects of the same name
  hold resources at the same time.
-/
namespace Frp
namespace RegSteps
open Release

/-- a proxy object, created by one `RegisterProxy` call of session `sid` -/
structure Inst where
  sid  : Nat
  name : Str
deriving DecidableEq, Repr

inductive Pc
  | checked     -- parked at gate reg.checked: quota charged, name was absent
  | ran         -- parked at gate reg.ran: Run succeeded, all keys claimed
deriving DecidableEq, Repr

/-- a `RegisterProxy` call in progress -/
structure Flight where
  sid  : Nat
  name : Str
  keys : List Key
  n    : Nat          -- pxy.GetUsedPortsNum()
  pc   : Pc
deriving DecidableEq, Repr

/-- an entry of `ctl.proxies` of session `sid` -/
structure Own where
  sid  : Nat
  name : Str
  n    : Nat
deriving DecidableEq, Repr

structure CState where
  maxPorts : Nat                     -- serverCfg.MaxPortsPerClient (0 = unlimited: the counter is not kept)
  held     : List (Key × Inst)       -- every exclusive-key table of the server: key ↦ holder
  names    : List (Str × Nat)        -- pxyManager.pxys: name ↦ session of the proxy stored there
  own      : List Own                -- ctl.proxies of all sessions
  quota    : List (Nat × Nat)        -- sid ↦ ctl.portsUsedNum
  flights  : List Flight             -- RegisterProxy calls in progress (at most one per session)
deriving Repr

def CState.init (maxPorts : Nat) : CState :=
  { maxPorts := maxPorts, held := [], names := [], own := [], quota := [], flights := [] }

def CState.quotaOf (s : CState) (sid : Nat) : Nat := (s.quota.lookup sid).getD 0

def CState.setQuota (s : CState) (sid v : Nat) : CState :=
  { s with quota := (sid, v) :: s.quota.filter (fun e => e.1 ≠ sid) }

/-- `if MaxPortsPerClient > 0 { ctl.portsUsedNum += n }` -/
def CState.charge (s : CState) (sid n : Nat) : CState :=
  if s.maxPorts > 0 then s.setQuota sid (s.quotaOf sid + n) else s

/-- `if MaxPortsPerClient > 0 { ctl.portsUsedNum -= n }` -/
def CState.refund (s : CState) (sid n : Nat) : CState :=
  if s.maxPorts > 0 then s.setQuota sid (s.quotaOf sid - n) else s

def CState.busy (s : CState) (sid : Nat) : Bool := s.flights.any (fun f => f.sid = sid)

def CState.nameTaken (s : CState) (name : Str) : Bool := s.names.any (fun e => e.1 = name)

/-- the claims of `Run`, left to right; `none` = all claimed, `some k` = conflict at `k` -/
def claim (held : List (Key × Inst)) (who : Inst) : List Key → List (Key × Inst) × Option Key
  | [] => (held, none)
  | k :: ks =>
    if (held.lookup k).isSome then (held, some k)
    else claim ((k, who) :: held) who ks

/-- `pxy.Close()` (and the rollback inside `Run`): everything the object holds is given back -/
def releaseAll (held : List (Key × Inst)) (who : Inst) : List (Key × Inst) :=
  held.filter (fun e => e.2 ≠ who)

inductive Res
  | parked (pc : Pc)        -- the call reached the next gate
  | ok                      -- RegisterProxy returned nil
  | quota                   -- "exceed the max_ports_per_client"
  | exists_                 -- "proxy [..] already exists"           (pxyManager.Exist)
  | conflict (k : Key)      -- Run failed at key k
  | inuse                   -- "proxy name [..] is already in use"   (pxyManager.Add)
  | busy                    -- the session is inside RegisterProxy: its next message is not handled yet
  | noflight
  | done
deriving DecidableEq, Repr

def CState.dropFlight (s : CState) (sid : Nat) : CState :=
  { s with flights := s.flights.filter (fun f => f.sid ≠ sid) }

/-- section A of `RegisterProxy` -/
def CState.begin (s : CState) (sid : Nat) (name : Str) (keys : List Key) (n : Nat) : CState × Res :=
  if s.busy sid then (s, .busy)
  else if s.maxPorts > 0 ∧ s.quotaOf sid + n > s.maxPorts then (s, .quota)
  else
    let s1 := s.charge sid n
    if s1.nameTaken name then (s1.refund sid n, .exists_)        -- deferred rollback of the charge
    else ({ s1 with flights := { sid := sid, name := name, keys := keys, n := n, pc := .checked } :: s1.flights },
          .parked .checked)

/-- the next section (B or C) of the session's in-flight `RegisterProxy` -/
def CState.step (s : CState) (sid : Nat) : CState × Res :=
  match s.flights.find? (fun f => f.sid = sid) with
  | none => (s, .noflight)
  | some f =>
    match f.pc with
    | .checked =>
      -- pxy.Run()
      match claim s.held ⟨sid, f.name⟩ f.keys with
      | (held', some k) =>
        ((({ s with held := releaseAll held' ⟨sid, f.name⟩ } : CState).dropFlight sid).refund sid f.n, .conflict k)
      | (held', none) =>
        ({ s with held := held',
                  flights := { f with pc := .ran } :: s.flights.filter (fun g => g.sid ≠ sid) }, .parked .ran)
    | .ran =>
      -- pxyManager.Add(name, pxy)
      if s.nameTaken f.name then
        -- deferred pxy.Close() and deferred rollback of the charge
        ((({ s with held := releaseAll s.held ⟨sid, f.name⟩ } : CState).dropFlight sid).refund sid f.n, .inuse)
      else
        (({ s with names := (f.name, sid) :: s.names,
                   own := { sid := sid, name := f.name, n := f.n } :: s.own } : CState).dropFlight sid, .ok)

/-- `pxy.Close(); pxyManager.Del(name); delete(ctl.proxies, name)` -/
def CState.dropProxy (s : CState) (sid : Nat) (name : Str) : CState :=
  { s with held := releaseAll s.held ⟨sid, name⟩
           names := s.names.filter (fun e => e.1 ≠ name)
           own := s.own.filter (fun o => ¬ (o.sid = sid ∧ o.name = name)) }

/-- `Control.CloseProxy`: only proxies in the calling session's own table -/
def CState.close (s : CState) (sid : Nat) (name : Str) : CState × Res :=
  if s.busy sid then (s, .busy)
  else
    match s.own.find? (fun o => o.sid = sid ∧ o.name = name) with
    | none => (s, .done)
    | some o => ((s.refund sid o.n).dropProxy sid name, .done)

def CState.namesOf (s : CState) (sid : Nat) : List Str :=
  (s.own.filter (fun o => o.sid = sid)).map (·.name)

/-- `Control.worker` at session end: every proxy of `ctl.proxies` is closed and removed from the name
    table; the Control (with its counter) is discarded — a later session starts from 0 -/
def CState.sessionEnd (s : CState) (sid : Nat) : CState × Res :=
  if s.busy sid then (s, .busy)
  else
    let s1 := (s.namesOf sid).foldl (fun st n => st.dropProxy sid n) s
    ({ s1 with quota := s1.quota.filter (fun e => e.1 ≠ sid) }, .done)

/-- ports charged for what the session owns / has in flight -/
def ownSum (l : List Own) (sid : Nat) : Nat :=
  match l with
  | [] => 0
  | o :: os => (if o.sid = sid then o.n else 0) + ownSum os sid

def flightSum (l : List Flight) (sid : Nat) : Nat :=
  match l with
  | [] => 0
  | f :: fs => (if f.sid = sid then f.n else 0) + flightSum fs sid

/-- what the counter adds up (nothing when unlimited) -/
def CState.amt (s : CState) (x : Nat) : Nat := if s.maxPorts > 0 then x else 0

end RegSteps
end Frp
