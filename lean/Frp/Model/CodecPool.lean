/-
  C02 / C01 — the pooled snappy reader / writer of a compressed work connection as a RESOURCE.

  Hand-written mirror of

    golib io/io.go          WithCompressionFromPool     sr := pool.GetSnappyReader(rwc); sw := pool.GetSnappyWriter(rwc);
                                                        recycle = { PutSnappyReader(sr); PutSnappyWriter(sw) }
    golib pool/snappy.go    GetSnappyReader / Writer    x := sync.Pool.Get(); nil ⇒ snappy.NewReader(r), else x.Reset(r)
                            PutSnappyReader / Writer    sync.Pool.Put(x)          (ONE process-wide pool for all proxies)
    client/proxy/proxy.go   HandleTCPWorkConnection     where `compressionResourceRecycleFn` is called:
        plain path     after `libio.Join(localConn, remote)` returned (both copy directions ended), once
        plugin path    `pxy.proxyPlugin.Handle(ctx, &connInfo); return` — NEVER (the objects are left to the GC).
                       Handle of http2http / http2https / https2http / https2https (and http_proxy, socks5, static_file,
                       tls2raw) only queues the connection on the plugin's listener: the plugin's http.Server goes on
                       reading and writing through the wrapper AFTER HandleTCPWorkConnection has returned
        error returns  (dial of the local service failed, proxy-protocol header not written) — never; workConn is closed

  The reader and the writer travel together (taken together, put back together): one object id stands for the
  pair.  `sync.Pool.Get` may hand out ANY pooled object or none at all (per-P caches, GC): the choice is a
  parameter of the `start` event, so every theorem below holds for every choice.  An object is bound to the
  stream it was last `Reset` onto; whoever reads / writes through it afterwards works on THAT stream.
-/
namespace Frp
namespace CodecPool

/-- where HandleTCPWorkConnection recycles -/
structure Disc where
  plainRel : Nat               -- calls of the recycle function once Join has returned (plain path)
  pluginRelAtReturn : Bool     -- recycle when the function returns on the plugin path (a `defer`)
  errRel : Bool                -- recycle on the error returns of the plain path
  deriving DecidableEq, Repr

/-- client/proxy/proxy.go as it is -/
def frpDisc : Disc := { plainRel := 1, pluginRelAtReturn := false, errRel := false }

structure Conn where
  id : Nat
  obj : Nat
  plugin : Bool
  deriving DecidableEq, Repr

structure St where
  free : List Nat            -- objects lying in the sync.Pool (a multiset: Put does not check for duplicates)
  next : Nat                 -- objects made by snappy.NewReader / NewWriter so far
  owner : List (Nat × Nat)   -- object ↦ connection whose stream it was last Reset onto (first entry wins)
  live : List Conn           -- connections whose wrapper is still read / written by somebody
  deriving DecidableEq, Repr

def St.init : St := { free := [], next := 0, owner := [], live := [] }

inductive Ev
  /-- HandleTCPWorkConnection wraps work connection `c` (`WithCompressionFromPool`); `pick` = what `sync.Pool.Get`
      returns (an object that is not in the pool, or `none` ⇒ a new one is made) -/
  | start (c : Nat) (plugin : Bool) (pick : Option Nat)
  /-- a Read / Write through the wrapper of `c` (by `libio.Join`'s copiers, or by the plugin's http.Server) -/
  | io (c : Nat)
  /-- HandleTCPWorkConnection returns for `c`: plain path ⇒ Join has returned, nobody uses the wrapper any more;
      plugin path ⇒ right after `Handle` queued the connection, which stays in use -/
  | ret (c : Nat)
  /-- plain path, error return before Join (local service unreachable): workConn closed, wrapper never used -/
  | fail (c : Nat)
  /-- the plugin's server is done with `c` (connection closed) -/
  | done (c : Nat)
  deriving DecidableEq, Repr

def ownerOf (st : St) (o : Nat) : Option Nat := st.owner.lookup o

def findConn (st : St) (c : Nat) : Option Conn := st.live.find? (·.id == c)

def dropConn (st : St) (c : Nat) : List Conn := st.live.filter (·.id != c)

/-- what a step shows: for `io c` the stream the wrapper of `c` really works on -/
def step (d : Disc) (st : St) : Ev → St × Option Nat
  | .start c plugin pick =>
    match findConn st c with
    | some _ => (st, none)                       -- (connection names are not re-used while alive)
    | none =>
      match pick with
      | some o =>
        if o ∈ st.free then
          ({ st with free := st.free.erase o, owner := (o, c) :: st.owner, live := ⟨c, o, plugin⟩ :: st.live }, none)
        else
          ({ st with next := st.next + 1, owner := (st.next, c) :: st.owner, live := ⟨c, st.next, plugin⟩ :: st.live }, none)
      | none =>
        ({ st with next := st.next + 1, owner := (st.next, c) :: st.owner, live := ⟨c, st.next, plugin⟩ :: st.live }, none)
  | .io c =>
    match findConn st c with
    | some k => (st, ownerOf st k.obj)
    | none => (st, none)
  | .ret c =>
    match findConn st c with
    | some k =>
      if k.plugin then
        (if d.pluginRelAtReturn then { st with free := k.obj :: st.free } else st, none)
      else
        ({ st with free := List.replicate d.plainRel k.obj ++ st.free, live := dropConn st c }, none)
    | none => (st, none)
  | .fail c =>
    match findConn st c with
    | some k =>
      if k.plugin then (st, none)
      else ({ st with free := (if d.errRel then [k.obj] else []) ++ st.free, live := dropConn st c }, none)
    | none => (st, none)
  | .done c =>
    match findConn st c with
    | some k => if k.plugin then ({ st with live := dropConn st c }, none) else (st, none)
    | none => (st, none)

/-- a whole schedule: final state and, per event, what it showed -/
def run (d : Disc) : St → List Ev → St × List (Ev × Option Nat)
  | st, [] => (st, [])
  | st, e :: es =>
    let (st', o) := step d st e
    let (st'', os) := run d st' es
    (st'', (e, o) :: os)

/-- every Read / Write of the schedule went to the stream of its own connection -/
def ownStream : List (Ev × Option Nat) → Bool
  | [] => true
  | (.io c, some s) :: r => s == c && ownStream r
  | _ :: r => ownStream r

/-- no two live connections hold the same object -/
def exclusive (st : St) : Bool :=
  st.live.all fun a => st.live.all fun b => a.id == b.id || a.obj != b.obj

end CodecPool
end Frp
