import Frp.Model.Str
/-
  Model of resource ownership across proxy registration / closure / session end (property C10) for
  the exclusive-key tables of the server:

    http     vhost.Routers of the HTTP reverse proxy        key = (lower domain, location, routeUser)
    https    VhostHTTPSMuxer.registryRouter                 key = (lower domain, "", "")
    tcpmux   TCPMuxHTTPConnectMuxer.registryRouter          key = (lower domain, "", routeUser)
    visitor  visitor.Manager.listeners (stcp, sudp)         key = proxy name
    nathole  nathole.Controller.clientCfgs (xtcp)           key = proxy name
    name     proxy.Manager.pxys                             key = proxy name

  `Control.RegisterProxy` (server/control.go): Exist(name) | pxy.Run() — claims its keys one after the
  other; on a conflict the deferred `pxy.Close()` / `closeFuncs` give back what was claimed — |
  pxyManager.Add(name) | ctl.proxies[name].  `CloseProxy` looks the proxy up in the calling session's
  own table only.  `Control.worker` at session end closes every proxy of the session.
  Ports (tcp, udp) are handled by Frp/Model/Ports.lean (property C09).
-/
namespace Frp
namespace Release

/-- `tcp` / `udp`: an explicitly requested port of ports.Manager seen as an exclusive key (used by
    Frp/Model/RegSteps.lean; the full port manager is Frp/Model/Ports.lean) -/
inductive Tbl | http | https | tcpmux | visitor | nathole | tcp | udp
deriving DecidableEq, Repr

structure Key where
  tbl : Tbl
  k   : Str
deriving DecidableEq, Repr

structure RState where
  held  : List (Key × Str)      -- key ↦ name of the proxy holding it
  owner : List (Str × Nat)      -- pxyManager.pxys / ctl.proxies: live proxy name ↦ session
deriving Repr

def RState.init : RState := { held := [], owner := [] }

def RState.holder (s : RState) (k : Key) : Option Str := s.held.lookup k

def RState.isLive (s : RState) (name : Str) : Bool := s.owner.any (·.1 = name)

/-- the claims of `Run`, left to right; `none` = all claimed, `some k` = conflict at `k` -/
def claim (held : List (Key × Str)) (name : Str) : List Key → List (Key × Str) × Option Key
  | [] => (held, none)
  | k :: ks =>
    if (held.lookup k).isSome then (held, some k)
    else claim ((k, name) :: held) name ks

/-- everything `name` holds is given back (`pxy.Close()`: closeFuncs, listeners, CloseListener, CloseClient) -/
def releaseAll (held : List (Key × Str)) (name : Str) : List (Key × Str) :=
  held.filter (fun e => e.2 ≠ name)

inductive RegRes
  | ok | exists_ | conflict (k : Key)
deriving DecidableEq, Repr

/-- `Control.RegisterProxy` for a proxy claiming `keys` -/
def RState.register (s : RState) (sid : Nat) (name : Str) (keys : List Key) : RState × RegRes :=
  if s.isLive name then (s, .exists_)
  else
    match claim s.held name keys with
    | (_, some k) => ({ s with held := releaseAll (claim s.held name keys).1 name }, .conflict k)
    | (held', none) => ({ held := held', owner := (name, sid) :: s.owner }, .ok)

/-- `Control.CloseProxy` -/
def RState.close (s : RState) (sid : Nat) (name : Str) : RState :=
  if s.owner.any (fun e => e.1 = name ∧ e.2 = sid) then
    { held := releaseAll s.held name, owner := s.owner.filter (fun e => e.1 ≠ name) }
  else s

/-- the names a session owns, in table order -/
def RState.namesOf (s : RState) (sid : Nat) : List Str :=
  (s.owner.filter (fun e => e.2 = sid)).map (·.1)

/-- `Control.worker` at session end: every proxy of the session is closed -/
def RState.sessionEnd (s : RState) (sid : Nat) : RState :=
  (s.namesOf sid).foldl (fun st n => st.close sid n) s

end Release
end Frp
