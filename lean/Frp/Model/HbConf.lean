import Frp.Model.Watchdog
/-
  The heartbeat settings between the configuration TEXT and the watchdog.

  pkg/config/load.go       LoadClientConfig / LoadServerConfig : unmarshal the text, then cfg.Complete()
  pkg/config/v1/client.go  (*ClientTransportConfig).Complete : … if lo.FromPtr(c.TCPMux) { c.HeartbeatInterval = util.EmptyOr(c.HeartbeatInterval, -1)
                                                                                            c.HeartbeatTimeout  = util.EmptyOr(c.HeartbeatTimeout, -1) }
                                                                 else { … 30 … 90 }
  pkg/config/v1/server.go  (*ServerTransportConfig).Complete : the same for HeartbeatTimeout (-1 / 90)
  pkg/util/util            EmptyOr(v, fallback) = if v is the zero value then fallback else v
  pkg/config/v1/validation ValidateClientCommonConfig : timeout > 0 ∧ interval > 0 ∧ timeout < interval ⇒ error

  `Watchdog.clientComplete` / `serverComplete` are the hand-written model of the two methods.  Here the statements that
  the translator (translate/gen_sessfacts_live.go) finds in the two method bodies are INTERPRETED: `interp` runs the
  extracted assignments in source order; a statement of any other shape, or under any other condition, has no
  interpretation (`none`).  Frp/Props/C14Live.lean proves that the interpretation of the extracted statements is the
  hand-written model, for all inputs.
-/
namespace Frp
namespace HbConf

/-- one assignment to a heartbeat field found in a Complete method (as extracted: field, guard, shape, default) -/
abbrev Asg := String × String × String × Int

/-- is the statement executed?  "mux" / "nomux" = then / else branch of `if lo.FromPtr(c.TCPMux)`, "-" = unconditional -/
def guardOn (g : String) (mux : Bool) : Option Bool :=
  if g = "-" then some true else if g = "mux" then some mux else if g = "nomux" then some (!mux) else none

/-- `util.EmptyOr` on an int64 -/
def emptyOr (v d : Int) : Int := if v = 0 then d else v

def applyAsg (a : Asg) (mux : Bool) (v : Int × Int) : Option (Int × Int) :=
  if a.2.2.1 ≠ "emptyOr" then none else
  match guardOn a.2.1 mux with
  | none => none
  | some false => some v
  | some true =>
    if a.1 = "HeartbeatInterval" then some (emptyOr v.1 a.2.2.2, v.2)
    else if a.1 = "HeartbeatTimeout" then some (v.1, emptyOr v.2 a.2.2.2)
    else none

/-- the extracted statements, in source order, on (interval, timeout) -/
def interp : List Asg → Bool → Int × Int → Option (Int × Int)
  | [], _, v => some v
  | a :: as, mux, v =>
    match applyAsg a mux v with
    | some v' => interp as mux v'
    | none => none

/-- ValidateClientCommonConfig, heartbeat part (on the completed values) -/
def clientValid (interval timeout : Int) : Bool :=
  !(decide (0 < timeout) && decide (0 < interval) && decide (timeout < interval))

/-- the timeout (in units) a client configured with the WRITTEN values (0 = not written) is promised to apply:
    none = no liveness check (a non-positive interval or timeout; the default with tcpMux) -/
def clientPromise (mux : Bool) (interval timeout : Int) (unitsPerSec : Nat) : Option Nat :=
  let i := if interval = 0 then (if mux then -1 else 30) else interval
  let t := if timeout = 0 then (if mux then -1 else 90) else timeout
  if 0 < i ∧ 0 < t then some (t.toNat * unitsPerSec) else none

def serverPromise (mux : Bool) (timeout : Int) (unitsPerSec : Nat) : Option Nat :=
  let t := if timeout = 0 then (if mux then -1 else 90) else timeout
  if 0 < t then some (t.toNat * unitsPerSec) else none

end HbConf
end Frp
