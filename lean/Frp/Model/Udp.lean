import Frp.Model.Base64
/-
  UDP tunnel model (udp and sudp proxies share this code path).

  Go anchors
    pkg/msg/msg.go               UDPPacket{Content `c`, LocalAddr `l`, RemoteAddr `r`} (all omitempty)
    pkg/proto/udp/udp.go         NewUDPPacket, GetContent, ForwardUserConn, Forwarder
    golib msg/json pack.go       Pack: typeByte ‖ int64 big-endian length ‖ json.Marshal(msg)
    golib msg/json process.go    readMsg: `length > maxMsgLength (10240)` ⇒ ErrMaxMsgLength
    server/proxy/udp.go          sendCh/readCh (1024), workConnSenderFn / workConnReaderFn
    client/proxy/udp.go          readCh/sendCh (1024), workConnReaderFn / workConnSenderFn, InWorkConn

  Part 1: the codec (packet, JSON body, frame, 10240 limit).
  Part 2: the forwarding state machine (labels = atomic actions of the goroutines).
-/
namespace Frp
namespace Udp

/-! ## Part 1 — codec -/

/-- `net.UDPAddr` as it travels: `IP` as text (`net.IP.MarshalText`), `Port`, `Zone`. -/
structure Addr where
  ip : Str
  port : Nat
  zone : Str
  deriving DecidableEq, Repr

/-- `msg.UDPPacket` -/
structure Packet where
  content : Str
  laddr : Option Addr
  raddr : Option Addr
  deriving DecidableEq, Repr

/-- `udp.NewUDPPacket(buf, laddr, raddr)` -/
def packetOf (buf : Str) (l r : Option Addr) : Packet :=
  { content := Base64.encode buf, laddr := l, raddr := r }

/-- `udp.GetContent(m)` (`none` = error; the callers `continue`) -/
def contentOf (p : Packet) : Option Str := Base64.decode p.content

/-- decimal rendering of a non-negative int (`strconv.AppendInt`) -/
def digits (n : Nat) : Str :=
  if n < 10 then [48 + n] else digits (n / 10) ++ [48 + n % 10]

/-- `{"IP":"` -/
def kIP : Str := [123, 34, 73, 80, 34, 58, 34]
/-- `","Port":` -/
def kPort : Str := [34, 44, 34, 80, 111, 114, 116, 34, 58]
/-- `,"Zone":"` -/
def kZone : Str := [44, 34, 90, 111, 110, 101, 34, 58, 34]
/-- `"}` -/
def kEnd : Str := [34, 125]

/-- `json.Marshal(net.UDPAddr)` = `{"IP":"<ip>","Port":<port>,"Zone":"<zone>"}` (ip and zone free
    of characters that JSON escapes — checked by the driver before comparing) -/
def jsonAddr (a : Addr) : Str := kIP ++ a.ip ++ kPort ++ digits a.port ++ kZone ++ a.zone ++ kEnd

/-- `"c":"<content>"`; omitted when the content is empty (omitempty) -/
def fieldC (c : Str) : List Str := if c = [] then [] else [[34, 99, 34, 58, 34] ++ c ++ [34]]
/-- `"l":{…}` / `"r":{…}`; omitted when nil -/
def fieldA (key : Nat) : Option Addr → List Str
  | none => []
  | some a => [[34, key, 34, 58] ++ jsonAddr a]

/-- `json.Marshal(&UDPPacket{…})`: the message body -/
def body (p : Packet) : Str :=
  [123] ++ Str.joinWith 44 (fieldC p.content ++ fieldA 108 p.laddr ++ fieldA 114 p.raddr) ++ [125]

/-- golib `maxMsgLength` -/
def maxMsgLength : Nat := 10240

/-- big-endian 8 bytes -/
def be64 (n : Nat) : Str :=
  [n / 2^56 % 256, n / 2^48 % 256, n / 2^40 % 256, n / 2^32 % 256,
   n / 2^24 % 256, n / 2^16 % 256, n / 2^8 % 256, n % 256]

/-- `Pack`: 'u' ‖ length ‖ body -/
def frame (p : Packet) : Str := 117 :: be64 (body p).length ++ body p

/-- the reader's admission test `!(length > maxMsgLength)` -/
def fits (p : Packet) : Bool := decide ((body p).length ≤ maxMsgLength)

/-- body length on the tunnel path (content non-empty, LocalAddr nil, RemoteAddr set) as a
    function of the payload length `n` and of the three variable parts of the address -/
def frameBodyLen (n ipLen portDigits zoneLen : Nat) : Nat :=
  40 + 4 * ((n + 2) / 3) + ipLen + portDigits + zoneLen

/-! ## Part 2 — forwarding state machine -/

/-- what an observer sees of a packet: where it must go back to / came from, and its payload -/
abbrev View := Option Addr × Option Str

def view (p : Packet) : View := (p.raddr, contentOf p)

/-- the only places where the code lets a datagram go -/
inductive Drop
  | sendFull        -- ForwardUserConn: `select { case sendCh <- m: default: }` with 1024 queued
  | replyFull       -- Forwarder.writerFn: same on the client's sendCh
  | frameTooLong    -- reader: ErrMaxMsgLength
  | readerDead      -- client workConnReaderFn has returned; nobody reads the work connection
  | connDown        -- WriteMsg on a dead work connection
  | reconnect       -- InWorkConn: pxy.Close() discards the old channels
  | decodeErr       -- GetContent error ⇒ continue
  | writeErr        -- udpConn.Write to the backend failed (socket closed)
  | nilAddr         -- WriteToUDP(buf, nil)
  deriving DecidableEq, Repr

structure St where
  sbs : Nat := 1500                     -- server udpPacketSize (ForwardUserConn bufSize)
  cbs : Nat := 1500                     -- client udpPacketSize (Forwarder bufSize)
  cap : Nat := 1024                     -- capacity of every queue
  -- server proxy
  sSend : List Packet := []             -- pxy.sendCh
  sRead : List Packet := []             -- pxy.readCh
  -- work connection
  up : Bool := true                     -- a live work connection exists
  cReader : Bool := true                -- client workConnReaderFn still running
  -- client proxy
  cRead : List Packet := []             -- pxy.readCh
  cSend : List Packet := []             -- pxy.sendCh
  cmap : List (Option Addr × Nat) := [] -- udpConnMap: RemoteAddr.String() ↦ socket
  closed : List Nat := []               -- sockets closed after a failed Write, still in the map
  nextSock : Nat := 0
  -- ghost state (logs; never read by the transitions)
  socks : List (Nat × Option Addr) := []      -- every socket dialled, with the raddr its writerFn captured
  sent : List (Addr × Str) := []              -- datagrams that arrived at the public socket
  sentV : List View := []                     -- … as packets
  backendLog : List (Nat × View) := []        -- udpConn.Write(buf) on socket k
  dropUp : List (Drop × View) := []
  replyLog : List (Nat × View) := []          -- datagrams read by writerFn of socket k
  userLog : List (Addr × Str) := []           -- udpConn.WriteToUDP(buf, addr) on the public socket
  dropDown : List (Drop × View) := []
  deriving Repr

inductive Label
  | userSend (a : Addr) (p : Str)     -- ForwardUserConn main loop: ReadFromUDP → NewUDPPacket → try-send
  | s2c                               -- server workConnSenderFn → wire → client workConnReaderFn
  | cfwd (writeOk : Bool)             -- Forwarder reader goroutine: one message of readCh
  | backendReply (k : Nat) (q : Str)  -- writerFn of socket k: ReadFromUDP → NewUDPPacket → try-send
  | c2s                               -- client workConnSenderFn → wire → server workConnReaderFn
  | sback                             -- ForwardUserConn reader goroutine: one message of readCh
  | sockExit (k : Nat)                -- writerFn of socket k returns (30 s idle or read error)
  | connDie                           -- the work connection breaks
  | reconnect                         -- new work connection: client InWorkConn
  deriving Repr

def isBytes (s : Str) : Bool := s.all (· < 256)

def lookup (m : List (Option Addr × Nat)) (a : Option Addr) : Option Nat :=
  (m.find? (fun e => e.1 = a)).map (·.2)

def ownerOf (socks : List (Nat × Option Addr)) (k : Nat) : Option (Option Addr) :=
  (socks.find? (fun e => e.1 = k)).map (·.2)

/-- `ReadFromUDP(buf)` with `len(buf) = bufSize`: a longer datagram is cut (Linux: silently) -/
def rd (bufSize : Nat) (p : Str) : Str := p.take bufSize

def stepUserSend (s : St) (a : Addr) (p : Str) : St :=
  if !isBytes p then s else
  let m := packetOf (rd s.sbs p) none (some a)
  let s := { s with sent := s.sent ++ [(a, p)], sentV := s.sentV ++ [view m] }
  if s.sSend.length < s.cap then { s with sSend := s.sSend ++ [m] }
  else { s with dropUp := s.dropUp ++ [(.sendFull, view m)] }

def stepS2C (s : St) : St :=
  match s.sSend with
  | [] => s
  | m :: rest =>
    if !s.up then { s with sSend := rest, dropUp := s.dropUp ++ [(.connDown, view m)] }
    else if !fits m then
      -- client: ReadMsgInto fails, workConnReaderFn returns; the connection is NOT closed
      { s with sSend := rest, cReader := false, dropUp := s.dropUp ++ [(.frameTooLong, view m)] }
    else if !s.cReader then { s with sSend := rest, dropUp := s.dropUp ++ [(.readerDead, view m)] }
    else if s.cRead.length < s.cap then { s with sSend := rest, cRead := s.cRead ++ [m] }
    else s      -- `readCh <- &udpMsg` blocks

def stepCfwd (s : St) (writeOk : Bool) : St :=
  match s.cRead with
  | [] => s
  | m :: rest =>
    let s := { s with cRead := rest }
    match contentOf m with
    | none => { s with dropUp := s.dropUp ++ [(.decodeErr, view m)] }
    | some _ =>
      match lookup s.cmap m.raddr with
      | some k =>
        if writeOk && !s.closed.contains k then { s with backendLog := s.backendLog ++ [(k, view m)] }
        else { s with closed := k :: s.closed, dropUp := s.dropUp ++ [(.writeErr, view m)] }
      | none =>
        let k := s.nextSock
        let s := { s with nextSock := k + 1, cmap := (m.raddr, k) :: s.cmap, socks := (k, m.raddr) :: s.socks }
        if writeOk then { s with backendLog := s.backendLog ++ [(k, view m)] }
        else { s with closed := k :: s.closed, dropUp := s.dropUp ++ [(.writeErr, view m)] }

def stepBackendReply (s : St) (k : Nat) (q : Str) : St :=
  if !isBytes q then s else
  match ownerOf s.socks k with
  | none => s
  | some a =>
    -- writerFn of k is alive iff k is the map entry of its captured address and k is open
    if lookup s.cmap a = some k && !s.closed.contains k then
      let m := packetOf (rd s.cbs q) none a
      let s := { s with replyLog := s.replyLog ++ [(k, view m)] }
      if s.cSend.length < s.cap then { s with cSend := s.cSend ++ [m] }
      else { s with dropDown := s.dropDown ++ [(.replyFull, view m)] }
    else s

def stepC2S (s : St) : St :=
  match s.cSend with
  | [] => s
  | m :: rest =>
    if !s.up then { s with cSend := rest, dropDown := s.dropDown ++ [(.connDown, view m)] }
    else if !fits m then
      -- server: ReadMsg fails ⇒ conn.Close(), checkCloseCh <- 1 (a new work connection is requested)
      { s with cSend := rest, up := false, dropDown := s.dropDown ++ [(.frameTooLong, view m)] }
    else if s.sRead.length < s.cap then { s with cSend := rest, sRead := s.sRead ++ [m] }
    else s      -- `pxy.readCh <- m` blocks

def stepSback (s : St) : St :=
  match s.sRead with
  | [] => s
  | m :: rest =>
    let s := { s with sRead := rest }
    match contentOf m, m.raddr with
    | some buf, some a => { s with userLog := s.userLog ++ [(a, buf)] }
    | none, _ => { s with dropDown := s.dropDown ++ [(.decodeErr, view m)] }
    | some _, none => { s with dropDown := s.dropDown ++ [(.nilAddr, view m)] }

def stepSockExit (s : St) (k : Nat) : St :=
  match ownerOf s.socks k with
  | none => s
  | some a =>
    if lookup s.cmap a = some k then
      -- `delete(udpConnMap, addr); udpConn.Close()`
      { s with cmap := s.cmap.filter (fun e => e.1 ≠ a), closed := k :: s.closed }
    else s

def stepReconnect (s : St) : St :=
  { s with up := true, cReader := true, cRead := [], cSend := [], cmap := [],
           dropUp := s.dropUp ++ s.cRead.map (fun m => (Drop.reconnect, view m)),
           dropDown := s.dropDown ++ s.cSend.map (fun m => (Drop.reconnect, view m)) }

def step (s : St) : Label → St
  | .userSend a p => stepUserSend s a p
  | .s2c => stepS2C s
  | .cfwd ok => stepCfwd s ok
  | .backendReply k q => stepBackendReply s k q
  | .c2s => stepC2S s
  | .sback => stepSback s
  | .sockExit k => stepSockExit s k
  | .connDie => { s with up := false }
  | .reconnect => stepReconnect s

/-- initial state for given packet sizes / queue capacity -/
def init (sbs cbs cap : Nat) : St := { sbs := sbs, cbs := cbs, cap := cap }

def run (s : St) (ls : List Label) : St := ls.foldl step s

end Udp
end Frp
