import Frp.Model.Frame
import Frp.Model.Layers
/-
  C08, client side — the handshake of a stream visitor and what it leaves on the connection.  Hand-written mirror of

    client/visitor/stcp.go   (*STCPVisitor).handleConn          ConnectServer; WriteMsg(NewVisitorConn);
    client/visitor/sudp.go   (*SUDPVisitor).getNewVisitorConn   ReadMsgInto(visitorConn, &NewVisitorConnResp); Error != "" ⇒ give up;
                                                                remote = visitorConn; WithEncryption; WithCompression; Join / worker
    golib msg/json/process.go  readFrame                          c.Read(1 byte); binary.Read (io.ReadFull 8); io.ReadFull(length)
    bufio.Reader (size k)      Read                             buffered bytes first; an empty buffer is filled by ONE Read of the
                                                                underlying reader (k bytes asked for), reads ≥ k bypass the buffer

  A connection is what is still to arrive on it, as the list of segments in which it arrives (`Wire`): one `Read` never
  crosses a segment boundary and returns at most the asked number of bytes.  ALL segmentations are quantified over in
  Frp/Props/C08Hand.lean — a relay / TCP that coalesces the response frame with the first payload bytes is the
  one-segment wire, the usual quiet case is the wire cut exactly behind the frame.

  `Reader` abstracts what `msg.ReadMsgInto` is given: the connection itself (`direct`) or a buffered reader on top of it
  that is dropped afterwards (`buffered k`): `conn` is what the caller hands on to the wrappers, `content` is everything the
  reader would still deliver.  frp reads from the connection itself (regenerated fact `Gen.VisitorFacts.msgReads`).
-/
namespace Frp
namespace VisitorHandshake
open Frame

abbrev Wire := List Str

/-- `net.Conn.Read(buf)`, `len(buf) = n`: the next non-empty segment, at most n bytes of it; `[]` = EOF -/
def cread (n : Nat) : Wire → Str × Wire
  | [] => ([], [])
  | s :: rest =>
    if s.isEmpty then cread n rest
    else (s.take n, if (s.drop n).isEmpty then rest else s.drop n :: rest)

structure Reader where
  σ : Type
  /-- `Read(buf)` with `len(buf) = n` -/
  rd : Nat → σ → Str × σ
  /-- every byte this reader will still deliver -/
  content : σ → Str
  /-- what is left on the connection underneath — the thing the visitor hands on -/
  conn : σ → Wire

/-- `msg.ReadMsgInto(visitorConn, …)` -/
def direct : Reader := { σ := Wire, rd := cread, content := List.flatten, conn := id }

/-- `msg.ReadMsgInto(bufio.NewReaderSize(visitorConn, k), …)`: state = (buffered, connection) -/
def bread (k n : Nat) (s : Str × Wire) : Str × (Str × Wire) :=
  if !s.1.isEmpty then (s.1.take n, (s.1.drop n, s.2))
  else if k ≤ n then ((cread n s.2).1, ([], (cread n s.2).2))
  else (((cread k s.2).1).take n, (((cread k s.2).1).drop n, (cread k s.2).2))

def buffered (k : Nat) : Reader :=
  { σ := Str × Wire, rd := bread k, content := fun s => s.1 ++ s.2.flatten, conn := fun s => s.2 }

/-- what a reader has to satisfy (io.Reader contract, no bytes invented / lost / reordered, progress) -/
structure Reader.Ok (R : Reader) : Prop where
  split : ∀ n s, (R.rd n s).1 ++ R.content (R.rd n s).2 = R.content s
  le : ∀ n s, (R.rd n s).1.length ≤ n
  progress : ∀ n s, 0 < n → R.content s ≠ [] → (R.rd n s).1 ≠ []

/-- `io.ReadFull(c, buf)`, `len(buf) = n`: Read until n bytes are there or nothing comes any more (fuel = n: every
    successful Read delivers at least one byte) -/
def readFullAux (R : Reader) : Nat → Nat → R.σ → Str × R.σ
  | 0, _, s => ([], s)
  | fuel + 1, n, s =>
    if n = 0 then ([], s)
    else if (R.rd n s).1.isEmpty then ([], (R.rd n s).2)
    else ((R.rd n s).1 ++ (readFullAux R fuel (n - (R.rd n s).1.length) (R.rd n s).2).1,
          (readFullAux R fuel (n - (R.rd n s).1.length) (R.rd n s).2).2)

def readFull (R : Reader) (n : Nat) (s : R.σ) : Str × R.σ := readFullAux R n n s

inductive HsRes
  | ok (t : Nat) (body : Str)
  | err (e : Err)
  deriving DecidableEq, Repr

def shortErr (got : Str) : Err := if got.isEmpty then .eof else .unexpectedEOF

/-- after the length is known: process.go (4), (5) -/
def readBody (R : Reader) (max : Nat) (t : Nat) (hdr : Str) (s : R.σ) : HsRes × R.σ :=
  if toInt64 (unbe64 hdr) > (max : Int) then (.err .maxLen, s)
  else if toInt64 (unbe64 hdr) < 0 then (.err .negLen, s)
  else if (readFull R (toInt64 (unbe64 hdr)).toNat s).1.length < (toInt64 (unbe64 hdr)).toNat then
    (.err (shortErr (readFull R (toInt64 (unbe64 hdr)).toNat s).1), (readFull R (toInt64 (unbe64 hdr)).toNat s).2)
  else (.ok t (readFull R (toInt64 (unbe64 hdr)).toNat s).1, (readFull R (toInt64 (unbe64 hdr)).toNat s).2)

/-- after the type byte: process.go (2), (3) -/
def readHeader (R : Reader) (max : Nat) (known : Nat → Bool) (t : Nat) (s : R.σ) : HsRes × R.σ :=
  if !known t then (.err .msgType, s)
  else if (readFull R 8 s).1.length < 8 then (.err (shortErr (readFull R 8 s).1), (readFull R 8 s).2)
  else readBody R max t (readFull R 8 s).1 (readFull R 8 s).2

/-- golib process.go `readFrame` on any reader: result and the reader's state afterwards -/
def readFrame (R : Reader) (max : Nat) (known : Nat → Bool) (s : R.σ) : HsRes × R.σ :=
  match (R.rd 1 s).1 with
  | [] => (.err .eof, (R.rd 1 s).2)
  | t :: _ => readHeader R max known t (R.rd 1 s).2

/-- what the visitor's user can read, given the handshake's outcome: stcp.go handleConn / sudp.go getNewVisitorConn —
    read error or `Error != ""` ⇒ the user connection is closed without a byte (`none`); otherwise the connection — NOT
    the reader — is wrapped (`remote = visitorConn`) and joined with the user: the user reads what the visitor's stack
    `Lv` decodes from what is left on the connection -/
def userSees (R : Reader) (Lv : Layers.Layer) (out : HsRes × R.σ) (errFieldEmpty : Bool) : Option Str :=
  match out.1 with
  | .ok _ _ => if errFieldEmpty then some (Lv.Dout (R.conn out.2)) else none
  | .err _ => none

/-- message types a visitor connection can carry (pkg/msg/msg.go): all registered type bytes -/
def knownType (t : Nat) : Bool :=
  [111, 49, 112, 50, 99, 114, 115, 119, 118, 51, 104, 52, 117, 105, 110, 109, 53, 54].contains t

/-- `TypeNewVisitorConnResp = '3'` -/
def respType : Nat := 51

/-- cut a byte string at the absolute offsets `abs` (ascending): the segments a relay delivers -/
def segment (w : Str) (abs : List Nat) : Wire :=
  (abs.foldr (fun a (acc : Str × Wire) => (acc.1.take a, acc.1.drop a :: acc.2)) (w, [])).1 ::
  (abs.foldr (fun a (acc : Str × Wire) => (acc.1.take a, acc.1.drop a :: acc.2)) (w, [])).2

end VisitorHandshake
end Frp
