/-
  pkg/nathole/analysis.go: `type RecommandBehavior struct` — the row type of the behaviour tables.
  (Separate tiny file so that the REGENERATED `Frp/Gen/NatTables.lean` can import it.)
-/
namespace Frp
namespace NatBeh

/-- `Role string`: "" | "sender" | "receiver" (nathole.go: DetectRoleSender / DetectRoleReceiver).
    The translator refuses any other string. -/
inductive Role
  | none | sender | receiver
  deriving DecidableEq, Repr, Inhabited

structure Beh where
  role : Role := .none
  ttl : Nat := 0
  sendDelayMs : Nat := 0
  portsRangeNumber : Nat := 0
  portsRandomNumber : Nat := 0
  listenRandomPorts : Nat := 0
  deriving DecidableEq, Repr, Inhabited

end NatBeh
end Frp
