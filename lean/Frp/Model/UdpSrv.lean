import Frp.Model.Udp
/-
  Server side of a udp proxy: the life cycle of its work connections (server/proxy/udp.go, `UDPProxy.Run`).

  Go anchors
    server/proxy/udp.go  Run   pxy.sendCh / pxy.readCh (1024) and pxy.checkCloseCh (unbuffered) are made ONCE per
                               proxy and are shared by all work connections the proxy ever has.
                               work-connection goroutine:
                                 for { workConn, err := pxy.GetWorkConnFromPool(nil, nil)
                                       if err != nil { sleep 1 s; select { case _, ok := <-checkCloseCh: …; default: }; continue }
                                       if pxy.workConn != nil { pxy.workConn.Close() }
                                       pxy.workConn = wrap(workConn)
                                       ctx, cancel := context.WithCancel(context.Background())
                                       go workConnReaderFn(pxy.workConn); go workConnSenderFn(pxy.workConn, ctx)
                                       _, ok := <-pxy.checkCloseCh; cancel(); if !ok { return } }
                               workConnReaderFn(conn): for { ReadMsg(conn) → error: conn.Close(); checkCloseCh <- 1; return
                                                                              Ping: continue;  UDPPacket: readCh <- m }
                               workConnSenderFn(conn, ctx): for { select {
                                                               case m := <-pxy.sendCh: WriteMsg(conn, m) → error: conn.Close(); return
                                                               case <-ctx.Done(): return } }
    pkg/proto/udp/udp.go ForwardUserConn  public socket → sendCh (try-send), readCh → public socket

  Work connections are numbered 1, 2, … in the order the proxy obtains them; `gen` is the current one.
  A goroutine is identified by the number of the connection it was started for.  Labels are the atomic
  actions of the goroutines; `UDPProxy.Close` (which closes the three channels) is not a label.
-/
namespace Frp
namespace UdpSrv
open Udp

/-- where the work-connection goroutine of `Run` stands -/
inductive Loop
  | get     -- inside `GetWorkConnFromPool` (or the 1 s sleep after it failed)
  | watch   -- reader and sender started; blocked in `_, ok := <-pxy.checkCloseCh`
  | woken   -- the receive returned; `cancel()` not yet executed
  deriving DecidableEq, Repr

/-- the only places where the server side lets a datagram go -/
inductive SDrop
  | sendFull   -- ForwardUserConn: `select { case sendCh <- m: default: }` with 1024 queued
  | connDown   -- workConnSenderFn: `msg.WriteMsg(conn, m)` failed ⇒ conn.Close(); return
  | decodeErr  -- ForwardUserConn reader: GetContent error ⇒ continue
  | nilAddr    -- ForwardUserConn reader: WriteToUDP(buf, nil) (error ignored)
  deriving DecidableEq, Repr

structure St where
  bs : Nat := 1500                    -- serverCfg.UDPPacketSize (ForwardUserConn bufSize)
  cap : Nat := 1024                   -- capacity of sendCh / readCh
  sendCh : List Packet := []          -- pxy.sendCh
  readCh : List Packet := []          -- pxy.readCh
  loop : Loop := .get
  gen : Nat := 0                      -- work connections obtained so far; pxy.workConn is number `gen`
  readers : List Nat := []            -- workConnReaderFn goroutines inside their ReadMsg loop
  signal : List Nat := []             -- … that have closed their connection and block in `pxy.checkCloseCh <- 1`
  senders : List Nat := []            -- workConnSenderFn goroutines alive
  cancelled : List Nat := []          -- connections whose `cancel()` has been called (ctx.Done() is ready)
  dead : List Nat := []               -- connections closed on the server side (`conn.Close()`)
  -- ghost state (logs; never read by the transitions)
  sent : List (Addr × Str) := []      -- datagrams that arrived at the public socket
  sentV : List View := []             -- … as packets
  wire : List (Nat × View) := []      -- WriteMsg(conn_g, m) succeeded: (g, view m)
  dropUp : List (SDrop × View) := []
  inLog : List (Nat × View) := []     -- UDPPackets read from connection g by workConnReaderFn
  userLog : List (Addr × Str) := []   -- udpConn.WriteToUDP(buf, addr) on the public socket
  dropDown : List (SDrop × View) := []
  deriving Repr

inductive Label
  | userSend (a : Addr) (p : Str)     -- ForwardUserConn main loop: ReadFromUDP → NewUDPPacket → try-send
  | loopGet (ok : Bool)               -- GetWorkConnFromPool returned (connection | error)
  | readerDie (g : Nat)               -- reader g: ReadMsg error (peer closed, 60 s silence, bad frame, closed locally) ⇒ conn.Close()
  | loopWake                          -- rendezvous on checkCloseCh: a blocked reader's send meets the loop's receive; the reader returns
  | loopCancel                        -- `cancel()`; back to the top of the loop
  | senderTake (g : Nat) (ok : Bool)  -- sender g: `case udpMsg := <-pxy.sendCh` + WriteMsg (ok = the transport took it)
  | senderExit (g : Nat)              -- sender g: `case <-ctx.Done(): return`
  | connRecv (g : Nat) (m : Packet)   -- reader g: ReadMsg gave a UDPPacket; `pxy.readCh <- m`
  | connPing (g : Nat)                -- reader g: ReadMsg gave a Ping; continue
  | sback                             -- ForwardUserConn reader goroutine: one message of readCh
  deriving Repr

def stepUserSend (s : St) (a : Addr) (p : Str) : St :=
  if !isBytes p then s else
  let m := packetOf (rd s.bs p) none (some a)
  let s := { s with sent := s.sent ++ [(a, p)], sentV := s.sentV ++ [view m] }
  if s.sendCh.length < s.cap then { s with sendCh := s.sendCh ++ [m] }
  else { s with dropUp := s.dropUp ++ [(.sendFull, view m)] }

def stepLoopGet (s : St) (ok : Bool) : St :=
  match s.loop with
  | .get =>
    if ok then
      -- `if pxy.workConn != nil { pxy.workConn.Close() }`, then a reader and a sender for the new connection
      { s with dead := if s.gen = 0 then s.dead else s.gen :: s.dead,
               gen := s.gen + 1, readers := s.readers ++ [s.gen + 1], senders := s.senders ++ [s.gen + 1],
               loop := .watch }
    else
      -- sleep 1 s; `select { case _, ok := <-pxy.checkCloseCh: …; default: }` takes a pending signal; continue
      { s with signal := s.signal.drop 1 }
  | _ => s

def stepReaderDie (s : St) (g : Nat) : St :=
  if g ∈ s.readers then
    { s with readers := s.readers.filter (· ≠ g), dead := g :: s.dead, signal := s.signal ++ [g] }
  else s

def stepLoopWake (s : St) : St :=
  match s.loop, s.signal with
  | .watch, _ :: rest => { s with loop := .woken, signal := rest }
  | _, _ => s

def stepLoopCancel (s : St) : St :=
  match s.loop with
  | .woken => { s with loop := .get, cancelled := s.gen :: s.cancelled }
  | _ => s

def stepSenderTake (s : St) (g : Nat) (ok : Bool) : St :=
  match s.sendCh with
  | [] => s
  | m :: rest =>
    if g ∈ s.senders then
      -- a write on a connection that was closed locally always fails
      if ok = true ∧ g ∉ s.dead then { s with sendCh := rest, wire := s.wire ++ [(g, view m)] }
      else { s with sendCh := rest, senders := s.senders.filter (· ≠ g), dead := g :: s.dead,
                    dropUp := s.dropUp ++ [(.connDown, view m)] }
    else s

def stepSenderExit (s : St) (g : Nat) : St :=
  if g ∈ s.senders ∧ g ∈ s.cancelled then { s with senders := s.senders.filter (· ≠ g) } else s

def stepConnRecv (s : St) (g : Nat) (m : Packet) : St :=
  -- a full readCh blocks `pxy.readCh <- m`; nothing can be read from a connection closed locally
  if g ∈ s.readers ∧ g ∉ s.dead ∧ s.readCh.length < s.cap then
    { s with readCh := s.readCh ++ [m], inLog := s.inLog ++ [(g, view m)] }
  else s

def stepSback (s : St) : St :=
  match s.readCh with
  | [] => s
  | m :: rest =>
    let s := { s with readCh := rest }
    match contentOf m, m.raddr with
    | some buf, some a => { s with userLog := s.userLog ++ [(a, buf)] }
    | none, _ => { s with dropDown := s.dropDown ++ [(.decodeErr, view m)] }
    | some _, none => { s with dropDown := s.dropDown ++ [(.nilAddr, view m)] }

def step (s : St) : Label → St
  | .userSend a p => stepUserSend s a p
  | .loopGet ok => stepLoopGet s ok
  | .readerDie g => stepReaderDie s g
  | .loopWake => stepLoopWake s
  | .loopCancel => stepLoopCancel s
  | .senderTake g ok => stepSenderTake s g ok
  | .senderExit g => stepSenderExit s g
  | .connRecv g m => stepConnRecv s g m
  | .connPing _ => s
  | .sback => stepSback s

def init (bs cap : Nat) : St := { bs := bs, cap := cap }

def run (s : St) (ls : List Label) : St := ls.foldl step s

/-- the senders whose `ctx.Done()` is ready: they leave without any further event -/
def exits (s : St) : List Label := (s.senders.filter (fun g => decide (g ∈ s.cancelled))).map .senderExit

/-- all cancelled senders have taken their `case <-ctx.Done(): return` -/
def quiesce (s : St) : St := run s (exits s)

/-- the current work connection is lost while nothing is in flight and is replaced: the reader fails and
    signals, the loop wakes, cancels the sender, which leaves; the loop obtains the next connection -/
def replaceIdle (g : Nat) : List Label :=
  [.readerDie g, .loopWake, .loopCancel, .senderExit g, .loopGet true]

/-- `k` such replacements in a row -/
def replaceIdleN : Nat → St → St
  | 0, s => s
  | k + 1, s => replaceIdleN k (run s (replaceIdle s.gen))

end UdpSrv
end Frp
