import Frp.Model.SessEnd
/-
  End of a server-side session WITH LIVE TRAFFIC: the session-end model (Frp/Model/SessEnd.lean) plus the
  user connections that are being served through the session's proxies when it dies.

  server/proxy/proxy.go
    startCommonTCPListenersHandler : for { c := l.Accept(); go pxy.handleUserTCPConnection(c) }
    handleUserTCPConnection        : workConn := pxy.GetWorkConnFromPool(..); libio.Join(workConn, userConn)
                                     -- returns when one of the two connections ends: the user closes, or the peer
                                     -- (frpc) closes the work connection.  A peer that went SILENT (no FIN / RST) does
                                     -- neither: the handler stays in Join for as long as the user stays.
    BaseProxy.Close                : for l in pxy.listeners { l.Close() }          -- and nothing else (frp as it is)
  server/control.go
    worker : <-Done(); conn.Close(); ctl.mu.Lock(); for pxy in ctl.proxies { pxy.Close(); pxyManager.Del(name) };
             close(doneCh)                                       -- then: ctlManager.Del (server/service.go)

  `closeWaits` says whether `pxy.Close()` (any `Close` method of server/proxy/*.go, or worker()'s walk itself) waits
  for something that only the END of a user connection provides (a WaitGroup over the handlers, a channel the handler
  closes …); it is read from the source by translate/gen_sessfacts_live.go on every run (frp: false).  With
  `closeWaits` the walk of `worker()` cannot pass a proxy that still has a live user connection; the model then keeps
  the whole walk disabled (what the real walk released before it got stuck is not modelled: Go's map order decides it;
  the proxy it is stuck at keeps its name and its port in either case).

  The user connections themselves are not touched by the teardown (`live` is unchanged by every step of the session):
  nothing in worker() / Close() ends them -- see `live_conns_survive_witness` in Frp/Props/C14Live.lean.

  Not refined: `Control.CloseProxy` (the CloseProxy message) also calls `pxy.Close()`; under `closeWaits` it would block
  the read loop instead of releasing at once.
-/
namespace Frp
namespace SessLive

structure St where
  closeWaits : Bool
  base : SessEnd.St
  live : List Nat := []        -- one entry per user connection inside libio.Join: the proxy (name = port) it came in by
deriving Repr, DecidableEq

def init (closeWaits async : Bool) : St := { closeWaits := closeWaits, base := SessEnd.init async }

inductive Lbl
  | base (l : SessEnd.Lbl)     -- a step of the session (peer, read loop, handler, watchdog / cut, worker)
  | userConn (p : Nat)         -- a user connects to the remote port of proxy p and is bridged to a work connection
  | userEnd (i : Nat)          -- the i-th live user connection ends (the user, or the peer, closed its side)
deriving Repr, DecidableEq

/-- `worker()` is stuck inside a `pxy.Close()` that waits for the handlers of a proxy it has to close -/
def walkBlocked (s : St) : Bool :=
  s.closeWaits && s.live.any (fun p => s.base.res.ctlPx.contains p)

def step (s : St) : Lbl → St
  | .base .teardown =>
    if s.base.dispDone && !s.base.torn && walkBlocked s then s
    else { s with base := SessEnd.step s.base .teardown }
  | .base l => { s with base := SessEnd.step s.base l }
  | .userConn p =>
    -- the listener exists from pxy.Run() on (the port is bound) until Close()
    if s.base.res.bound.contains p then { s with live := s.live ++ [p] } else s
  | .userEnd i => { s with live := s.live.eraseIdx i }

def run (s : St) : List Lbl → St
  | [] => s
  | l :: ls => run (step s l) ls

/-- the schedule of the base model inside a schedule with user connections -/
def lower : List Lbl → List SessEnd.Lbl
  | [] => []
  | .base l :: ls => l :: lower ls
  | _ :: ls => lower ls

/-- no user connection ends in this schedule (the peer is silent, the users stay) -/
def noUserEnd : List Lbl → Bool
  | [] => true
  | .userEnd _ :: _ => false
  | _ :: ls => noUserEnd ls

end SessLive
end Frp
