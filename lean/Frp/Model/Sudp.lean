import Frp.Model.Udp
/-
  sudp visitor model (client/visitor/sudp.go): the user-facing half of a sudp tunnel.

  Go anchors
    client/visitor/sudp.go   SUDPVisitor.Run         sendCh/readCh (1024), `go dispatcher()`,
                                                     `go udp.ForwardUserConn(udpConn, readCh, sendCh, ps)`
                             SUDPVisitor.dispatcher  for { firstPacket = <-sendCh; conn, err = getNewVisitorConn();
                                                           if err != nil { continue }; worker(conn, firstPacket) }
                             SUDPVisitor.worker      workConnSenderFn: writes firstPacket, then `for { select {
                                                       case m := <-sendCh: WriteMsg(conn, m); case <-closeCh: return } }`
                                                     workConnReaderFn: ReadMsg(conn) → Ping: continue,
                                                       UDPPacket: `readCh <- m`; on error conn.Close(), close(closeCh)
    pkg/proto/udp/udp.go     ForwardUserConn         (shared with the udp proxy of the server; Frp/Model/Udp.lean)
    server/proxy/sudp.go + client/proxy/sudp.go      every visitor connection is joined with one work
                                                     connection that gets its own `udp.Forwarder`

  One visitor connection = one work connection = one Forwarder generation, so whatever the visitor
  writes on connection `g` is what the backend is handed through the sockets of generation `g`.
  Labels are the atomic actions of the three goroutines (ForwardUserConn main loop / reader,
  dispatcher, worker sender, worker reader).
-/
namespace Frp
namespace Sudp
open Udp

/-- where the dispatcher goroutine stands -/
inductive Phase
  | wait      -- blocked in `select { case firstPacket = <-sv.sendCh … }`
  | connect   -- inside `getNewVisitorConn()`
  | work      -- inside `sv.worker(visitorConn, firstPacket)` (`wg.Wait()`)
  deriving DecidableEq, Repr

/-- the only places where the visitor lets a datagram go -/
inductive VDrop
  | sendFull   -- ForwardUserConn: `select { case sendCh <- m: default: }` with 1024 queued
  | connFail   -- dispatcher: `getNewVisitorConn` failed ⇒ `continue`; the next receive overwrites firstPacket
  | connDown   -- worker sender: `msg.WriteMsg(conn, m)` failed ⇒ return
  | decodeErr  -- ForwardUserConn reader: GetContent error ⇒ continue
  | nilAddr    -- ForwardUserConn reader: WriteToUDP(buf, nil)
  deriving DecidableEq, Repr

structure St where
  bs : Nat := 1500                       -- clientCfg.UDPPacketSize (ForwardUserConn bufSize)
  cap : Nat := 1024                      -- capacity of sendCh / readCh
  sendCh : List Packet := []             -- sv.sendCh
  readCh : List Packet := []             -- sv.readCh
  phase : Phase := .wait
  dFirst : Option Packet := none         -- dispatcher's local `firstPacket` (keeps its value between iterations)
  wFirst : Option Packet := none         -- worker's parameter `firstPacket`, captured by workConnSenderFn
  firstDone : Bool := true               -- the sender is past its `if firstPacket != nil { … }` block
  sender : Bool := false                 -- workConnSenderFn is running
  reader : Bool := false                 -- workConnReaderFn is running
  gen : Nat := 0                         -- visitor connections established so far; the current one is `gen`
  -- ghost state (logs; never read by the transitions)
  sent : List (Addr × Str) := []         -- datagrams that arrived at the visitor's UDP socket
  sentV : List View := []                -- … as packets
  wire : List (Nat × View) := []         -- WriteMsg(conn_g, m) succeeded: (g, view m)
  dropUp : List (VDrop × View) := []
  inLog : List (Nat × View) := []        -- UDPPackets read from connection g by workConnReaderFn
  userLog : List (Addr × Str) := []      -- udpConn.WriteToUDP(buf, addr) on the visitor's UDP socket
  dropDown : List (VDrop × View) := []
  deriving Repr

inductive Label
  | userSend (a : Addr) (p : Str)   -- ForwardUserConn main loop: ReadFromUDP → NewUDPPacket → try-send
  | dispTake                        -- dispatcher: `firstPacket = <-sv.sendCh`
  | connect (ok : Bool)             -- dispatcher: getNewVisitorConn returned (conn | error)
  | sendFirst (ok : Bool)           -- worker sender: the `if firstPacket != nil` block
  | sendNext (ok : Bool)            -- worker sender: `case udpMsg := <-sv.sendCh` + WriteMsg
  | senderExit                      -- worker sender: `case <-closeCh: return`
  | connRecv (m : Packet)           -- worker reader: ReadMsg gave a UDPPacket; `sv.readCh <- m`
  | connPing                        -- worker reader: ReadMsg gave a Ping; continue
  | readerDie                       -- worker reader: ReadMsg error (peer closed, 60 s silence, bad frame)
  | workerEnd                       -- `wg.Wait()` returns; the dispatcher loops
  | sback                           -- ForwardUserConn reader goroutine: one message of readCh
  deriving Repr

/-- the datagram (if any) that is held in a local variable: taken from sendCh, not yet written -/
def held (s : St) : List Packet :=
  match s.phase with
  | .wait => []
  | .connect => s.dFirst.toList
  | .work => if s.firstDone then [] else s.wFirst.toList

def stepUserSend (s : St) (a : Addr) (p : Str) : St :=
  if !isBytes p then s else
  let m := packetOf (rd s.bs p) none (some a)
  let s := { s with sent := s.sent ++ [(a, p)], sentV := s.sentV ++ [view m] }
  if s.sendCh.length < s.cap then { s with sendCh := s.sendCh ++ [m] }
  else { s with dropUp := s.dropUp ++ [(.sendFull, view m)] }

def stepDispTake (s : St) : St :=
  match s.phase, s.sendCh with
  | .wait, m :: rest => { s with sendCh := rest, dFirst := some m, phase := .connect }
  | _, _ => s

def stepConnect (s : St) (ok : Bool) : St :=
  match s.phase with
  | .connect =>
    if ok then
      { s with phase := .work, gen := s.gen + 1, wFirst := s.dFirst, firstDone := false,
               sender := true, reader := true }
    else
      -- `continue`: back to the select; the variable still holds the packet but the next receive overwrites it
      { s with phase := .wait, dropUp := s.dropUp ++ s.dFirst.toList.map (fun m => (VDrop.connFail, view m)) }
  | _ => s

def stepSendFirst (s : St) (ok : Bool) : St :=
  match s.phase with
  | .work =>
    if s.sender && !s.firstDone then
      match s.wFirst with
      | none => { s with firstDone := true }
      | some m =>
        if ok then { s with firstDone := true, wire := s.wire ++ [(s.gen, view m)] }
        else { s with firstDone := true, sender := false, dropUp := s.dropUp ++ [(.connDown, view m)] }
    else s
  | _ => s

def stepSendNext (s : St) (ok : Bool) : St :=
  match s.phase, s.sendCh with
  | .work, m :: rest =>
    if s.sender && s.firstDone then
      if ok then { s with sendCh := rest, wire := s.wire ++ [(s.gen, view m)] }
      else { s with sendCh := rest, sender := false, dropUp := s.dropUp ++ [(.connDown, view m)] }
    else s
  | _, _ => s

def stepSenderExit (s : St) : St :=
  match s.phase with
  | .work => if s.sender && s.firstDone && !s.reader then { s with sender := false } else s
  | _ => s

def stepConnRecv (s : St) (m : Packet) : St :=
  match s.phase with
  | .work =>
    if s.reader && decide (s.readCh.length < s.cap) then      -- full: `sv.readCh <- m` blocks
      { s with readCh := s.readCh ++ [m], inLog := s.inLog ++ [(s.gen, view m)] }
    else s
  | _ => s

def stepReaderDie (s : St) : St :=
  match s.phase with
  | .work => { s with reader := false }
  | _ => s

def stepWorkerEnd (s : St) : St :=
  match s.phase with
  | .work => if !s.sender && !s.reader then { s with phase := .wait } else s
  | _ => s

def stepSback (s : St) : St :=
  match s.readCh with
  | [] => s
  | m :: rest =>
    let s := { s with readCh := rest }
    match contentOf m, m.raddr with
    | some buf, some a => { s with userLog := s.userLog ++ [(a, buf)] }
    | none, _ => { s with dropDown := s.dropDown ++ [(.decodeErr, view m)] }
    | some _, none => { s with dropDown := s.dropDown ++ [(.nilAddr, view m)] }

def step (s : St) : Label → St
  | .userSend a p => stepUserSend s a p
  | .dispTake => stepDispTake s
  | .connect ok => stepConnect s ok
  | .sendFirst ok => stepSendFirst s ok
  | .sendNext ok => stepSendNext s ok
  | .senderExit => stepSenderExit s
  | .connRecv m => stepConnRecv s m
  | .connPing => s
  | .readerDie => stepReaderDie s
  | .workerEnd => stepWorkerEnd s
  | .sback => stepSback s

def init (bs cap : Nat) : St := { bs := bs, cap := cap }

def run (s : St) (ls : List Label) : St := ls.foldl step s

end Sudp
end Frp
