import Frp.Model.Udp
/-
  C03 — the stream on a connection that carries UDPPackets as a sequence of TYPED messages, in both directions.

  Go anchors
    golib msg/json  Pack: type byte ‖ length ‖ JSON body;  UnPack (ReadMsg): the type byte selects the struct;
                    UnPackInto (ReadMsgInto): the type byte is NOT looked at, the body is unmarshalled into the
                    struct the caller passes
    server/proxy/udp.go  Run: workConnReaderFn = msg.ReadMsg + `switch { case *msg.Ping: continue; case *msg.UDPPacket: readCh <- m }`;
                         workConnSenderFn writes what it takes from sendCh (UDPPackets made by ForwardUserConn)
    client/proxy/udp.go  InWorkConn: workConnReaderFn = `var udpMsg msg.UDPPacket; msg.ReadMsgInto(conn, &udpMsg); readCh <- &udpMsg`;
                         workConnSenderFn writes what it takes from sendCh (UDPPackets made by Forwarder, `&msg.Ping{}` of heartbeatFn)
    client/proxy/sudp.go InWorkConn: the same two loops;  client/visitor/sudp.go worker: typed reader, writes UDPPackets

  WHICH types each end writes and WHICH kind of reader it has is not written here: it is a `Cfg`, and the instance the
  theorems are about is regenerated from the source (Frp/Gen/UdpWire.lean).
-/
namespace Frp
namespace UdpWire
open Udp

/-- a message on the wire, as far as a reader of this connection can tell -/
inductive WMsg
  | udp (p : Packet)      -- type byte 'u'
  | ctl (ty : String)     -- any other registered type (Ping, Pong, NatHole…): its JSON object has none of the keys c / l / r
  deriving DecidableEq, Repr

def tyOf : WMsg → String
  | .udp _ => "UDPPacket"
  | .ctl t => t

/-- `json.Unmarshal(body, &msg.UDPPacket{})` of an object without the keys c, l, r -/
def emptyPacket : Packet := { content := [], laddr := none, raddr := none }

/-- one end of the connection -/
structure End where
  writes : List String            -- message types it passes to msg.WriteMsg
  untyped : Option String         -- `some T`: reads with ReadMsgInto into a msg.T;  `none`: ReadMsg + type switch
  handles : List String           -- cases of the type switch
  deriving Repr

/-- what the reader of end `e` hands on for an arriving message (`none` = nothing: ignored / no case) -/
def reads (e : End) (m : WMsg) : Option Packet :=
  match e.untyped with
  | some _ =>
    match m with
    | .udp p => some p
    | .ctl _ => some emptyPacket              -- the type byte is not looked at
  | none =>
    match m with
    | .udp p => if "UDPPacket" ∈ e.handles then some p else none
    | .ctl _ => none                          -- `case *msg.Ping: continue`; every other type: no case

structure Cfg where
  srv : End
  cli : End
  deriving Repr

/-- the forwarding machine of `Model/Udp` plus control messages on the work connection -/
inductive Label
  | core (l : Udp.Label)
  | srvCtl (ty : String)    -- frps' sender writes a message of type `ty` that is not a queued datagram
  | cliCtl (ty : String)    -- frpc's sender writes a message of type `ty` that is not a queued reply (its heartbeat)
  deriving Repr

def step (c : Cfg) (s : St) : Label → St
  | .core l => Udp.step s l
  | .srvCtl ty =>
    -- possible only for a type the server end really writes; a UDPPacket is `core .s2c`
    if ty ∈ c.srv.writes ∧ ty ≠ "UDPPacket" then
      match reads c.cli (.ctl ty) with
      | some p => if s.up && s.cReader && decide (s.cRead.length < s.cap) then { s with cRead := s.cRead ++ [p] } else s
      | none => s
    else s
  | .cliCtl ty =>
    if ty ∈ c.cli.writes ∧ ty ≠ "UDPPacket" then
      match reads c.srv (.ctl ty) with
      | some p => if s.up && decide (s.sRead.length < s.cap) then { s with sRead := s.sRead ++ [p] } else s
      | none => s
    else s

def run (c : Cfg) (s : St) (ls : List Label) : St := ls.foldl (step c) s

/-- an end may face a peer: an untyped reader is sound only if the peer writes nothing but the type it reads into;
    a typed reader must have a case for everything the peer writes -/
def endOK (reader peer : End) : Bool :=
  match reader.untyped with
  | some t => peer.writes.all (· == t)
  | none => peer.writes.all (fun w => reader.handles.contains w)

end UdpWire
end Frp
