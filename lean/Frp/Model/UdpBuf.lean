import Frp.Model.Udp
/-
  The read loops of pkg/proto/udp/udp.go and the queue behind them, with the READ BUFFER as explicit state.

  Go anchors
    pkg/proto/udp/udp.go ForwardUserConn
        buf := pool.GetBuf(bufSize)                        -- ONE buffer for the life of the loop
        for { n, remoteAddr, err := udpConn.ReadFromUDP(buf)
              udpMsg := NewUDPPacket(buf[:n], nil, remoteAddr)
              select { case sendCh <- udpMsg: default: } }
    pkg/proto/udp/udp.go Forwarder.writerFn               -- the same loop per backend-side socket (buffer per socket)
    pkg/proto/udp/udp.go NewUDPPacket                     -- Content: base64.StdEncoding.EncodeToString(buf): a NEW string
    server/proxy/udp.go workConnSenderFn, client/proxy/udp.go workConnSenderFn,
    client/visitor/sudp.go workConnSenderFn, client/proxy/sudp.go workConnSenderFn
        for udpMsg := range sendCh { msg.WriteMsg(conn, udpMsg) }   -- LATER, in another goroutine: any number of
                                                                       further reads may lie in between

  `Udp.stepUserSend` / `Udp.stepBackendReply` enqueue the VALUE `packetOf (rd bufSize p) …`.  This file says what
  that stands for in memory: the message that waits in the queue either owns its bytes (the string made by
  EncodeToString at enqueue time — the code as it is) or points into the read buffer (`buf[:n]` kept as a slice and
  encoded when the message is serialised).  `Props/C03` proves that the first refines the value semantics for every
  schedule and exhibits a schedule on which the second does not.
-/
namespace Frp
namespace UdpBuf
open Udp

/-- what a queued message holds of its payload -/
inductive Payload
  | owned (content : Str)   -- a string of its own: the base64 text made when the datagram was read
  | slice (n : Nat)         -- `buf[:n]`: the first `n` bytes of the read buffer, whatever they are when looked at
  deriving DecidableEq, Repr

structure QMsg where
  pl : Payload
  raddr : Option Addr
  deriving DecidableEq, Repr

structure St where
  bufSize : Nat
  cap : Nat
  buf : Str := []                 -- what the read buffer holds (bytes beyond its length: never written yet)
  q : List QMsg := []             -- sendCh
  -- ghost state
  accepted : List Packet := []    -- per datagram that found room in the queue: the packet it was when it was read
  dropped : List Packet := []     -- … that found the queue full
  wire : List Packet := []        -- what msg.WriteMsg serialised, in order
  deriving Repr

inductive Label
  | read (a : Addr) (p : Str)     -- one turn of the read loop: ReadFromUDP, NewUDPPacket, try-send
  | send                          -- one turn of the sender goroutine: receive from sendCh, msg.WriteMsg
  deriving Repr

/-- `ReadFromUDP(buf)`: the datagram, cut to the buffer, overwrites the front of the buffer; the rest stays -/
def readInto (bufSize : Nat) (buf p : Str) : Str := rd bufSize p ++ buf.drop (rd bufSize p).length

/-- the packet a queued message is serialised as when the buffer holds `buf` -/
def materialise (buf : Str) (m : QMsg) : Packet :=
  match m.pl with
  | .owned c => { content := c, laddr := none, raddr := m.raddr }
  | .slice n => packetOf (buf.take n) none m.raddr

/-- `byRef = false`: the code as it is (EncodeToString copies); `byRef = true`: the message keeps `buf[:n]` -/
def step (byRef : Bool) (s : St) : Label → St
  | .read a p =>
    let buf' := readInto s.bufSize s.buf p
    let n := (rd s.bufSize p).length
    let now := packetOf (buf'.take n) none (some a)       -- NewUDPPacket(buf[:n], nil, remoteAddr)
    let m : QMsg := { pl := if byRef then .slice n else .owned now.content, raddr := some a }
    if s.q.length < s.cap then { s with buf := buf', q := s.q ++ [m], accepted := s.accepted ++ [now] }
    else { s with buf := buf', dropped := s.dropped ++ [now] }
  | .send =>
    match s.q with
    | [] => s
    | m :: rest => { s with q := rest, wire := s.wire ++ [materialise s.buf m] }

def init (bufSize cap : Nat) : St := { bufSize := bufSize, cap := cap }

def run (byRef : Bool) (s : St) (ls : List Label) : St := ls.foldl (step byRef) s

/-- request / reply traffic: every datagram is serialised before the next one is read -/
def pingPong (ds : List (Addr × Str)) : List Label := ds.flatMap (fun d => [.read d.1 d.2, .send])

/-- a burst: all datagrams are read before the first one is serialised -/
def burst (ds : List (Addr × Str)) : List Label := ds.map (fun d => .read d.1 d.2) ++ ds.map (fun _ => .send)

end UdpBuf
end Frp
