import Frp.Model.Wire
/-
  C05 — from the proxy configuration AS WRITTEN BY THE OPERATOR to the encryption setting in force.

  Hand-written mirror of

    pkg/config/load.go         LoadClientConfig            → the loader hands every parsed proxy to `Complete(user)`
    pkg/config/v1/proxy.go     ProxyBaseConfig.Complete    → `complete`  (the ONLY Complete of the proxy configurers)
    pkg/config/v1/proxy_plugin.go  <X>PluginOptions.Complete → `completePlugin`
    pkg/config/v1/proxy.go     ProxyBaseConfig.MarshalToMsg / UnmarshalFromMsg → `marshal`, `unmarshal`
    pkg/config/load.go         NewProxyConfigurerFromMsg   → `serverCfgOf` (`UnmarshalFromMsg(m); Complete("")`)
    client/proxy/proxy.go      HandleTCPWorkConnection (`if baseCfg.Transport.UseEncryption`)      → `clientEnc`
    server/proxy/proxy.go      handleUserTCPConnection (`if cfg.Transport.UseEncryption`)         → `serverEnc`

  The parsers (TOML / YAML / JSON, the legacy ini conversion) are NOT modelled: the engine drives them
  (op `cfgload`, the rigs of `wstart` / `rstart`) and compares what they deliver with what was written.
-/
namespace Frp
namespace WireConfig
open Wire

/-- `v1.ProxyType…` constants -/
inductive PxType | tcp | udp | tcpmux | http | https | stcp | xtcp | sudp
  deriving DecidableEq, Repr

def PxType.all : List PxType := [.tcp, .udp, .tcpmux, .http, .https, .stcp, .xtcp, .sudp]

def PxType.name : PxType → String
  | .tcp => "tcp" | .udp => "udp" | .tcpmux => "tcpmux" | .http => "http" | .https => "https"
  | .stcp => "stcp" | .xtcp => "xtcp" | .sudp => "sudp"

/-- `v1.Plugin…` constants; `none`: no `[proxies.plugin]` table -/
inductive Plugin
  | none | http2https | httpProxy | https2http | https2https | http2http | socks5 | staticFile
  | unixDomainSocket | tls2raw | virtualNet
  deriving DecidableEq, Repr

def Plugin.all : List Plugin :=
  [.none, .http2https, .httpProxy, .https2http, .https2https, .http2http, .socks5, .staticFile,
   .unixDomainSocket, .tls2raw, .virtualNet]

def Plugin.name : Plugin → String
  | .none => "none" | .http2https => "http2https" | .httpProxy => "http_proxy" | .https2http => "https2http"
  | .https2https => "https2https" | .http2http => "http2http" | .socks5 => "socks5"
  | .staticFile => "static_file" | .unixDomainSocket => "unix_domain_socket" | .tls2raw => "tls2raw"
  | .virtualNet => "virtual_net"

/-- the part of `v1.ProxyBaseConfig` (with its plugin options) that `Complete` reads or writes, plus the two
    transport flags the wire depends on -/
structure Base where
  name : Str                     -- Name
  type : PxType                  -- Type
  localIP : Str                  -- ProxyBackend.LocalIP
  limitMode : Str                -- Transport.BandwidthLimitMode
  enc : Bool                     -- Transport.UseEncryption
  comp : Bool                    -- Transport.UseCompression
  plugin : Plugin                -- Plugin.Type / the dynamic type of Plugin.ClientPluginOptions
  enableHTTP2 : Option Bool      -- HTTPS2HTTP(S)PluginOptions.EnableHTTP2 (*bool; `none` = nil)
  deriving DecidableEq, Repr

/-- `o.EnableHTTP2 = util.EmptyOr(o.EnableHTTP2, lo.ToPtr(true))` for https2http / https2https; every
    other plugin option type has an empty `Complete()` -/
def completePlugin (b : Base) : Base :=
  match b.plugin with
  | .https2http => { b with enableHTTP2 := some (b.enableHTTP2.getD true) }
  | .https2https => { b with enableHTTP2 := some (b.enableHTTP2.getD true) }
  | _ => b

def dotSep : Str := [46]
def defaultLocalIP : Str := Str.ofString "127.0.0.1"
def modeClient : Str := Str.ofString "client"
def modeServer : Str := Str.ofString "server"

/-- `ProxyBaseConfig.Complete(namePrefix)`:
    ```
    c.Name = lo.Ternary(namePrefix == "", "", namePrefix+".") + c.Name
    c.LocalIP = util.EmptyOr(c.LocalIP, "127.0.0.1")
    c.Transport.BandwidthLimitMode = util.EmptyOr(c.Transport.BandwidthLimitMode, types.BandwidthLimitModeClient)
    if c.Plugin.ClientPluginOptions != nil { c.Plugin.ClientPluginOptions.Complete() }
    ``` -/
def complete (pfx : Str) (b : Base) : Base :=
  completePlugin
    { b with name := (if pfx = [] then [] else pfx ++ dotSep) ++ b.name
           , localIP := if b.localIP = [] then defaultLocalIP else b.localIP
           , limitMode := if b.limitMode = [] then modeClient else b.limitMode }

/-- the fields of `msg.NewProxy` filled by `ProxyBaseConfig.MarshalToMsg` that matter here -/
structure NewProxyMsg where
  proxyName : Str
  proxyType : PxType
  useEncryption : Bool
  useCompression : Bool
  limitMode : Str
  deriving DecidableEq, Repr

/-- `m.UseEncryption = c.Transport.UseEncryption; m.UseCompression = c.Transport.UseCompression;
    if c.Transport.BandwidthLimitMode != "client" { m.BandwidthLimitMode = … }` -/
def marshal (b : Base) : NewProxyMsg :=
  { proxyName := b.name, proxyType := b.type, useEncryption := b.enc, useCompression := b.comp
  , limitMode := if b.limitMode = modeClient then [] else b.limitMode }

/-- `UnmarshalFromMsg` on a fresh configurer of the message's type (no plugin, no local address on the
    server side): `c.Transport.UseEncryption = m.UseEncryption` … -/
def unmarshal (m : NewProxyMsg) : Base :=
  { name := m.proxyName, type := m.proxyType, localIP := [], limitMode := m.limitMode
  , enc := m.useEncryption, comp := m.useCompression, plugin := .none, enableHTTP2 := none }

/-- `NewProxyConfigurerFromMsg`: `configurer.UnmarshalFromMsg(m); configurer.Complete("")` -/
def serverCfgOf (m : NewProxyMsg) : Base := complete [] (unmarshal m)

/-- the configurer the frpc proxy object is built from: the loader's `c.Complete(cliCfg.User)` on what
    the operator wrote -/
def loaded (user : Str) (w : Base) : Base := complete user w

/-- frpc wraps its end of a work connection iff its configurer says so -/
def clientEnc (user : Str) (w : Base) : Bool := (loaded user w).enc

/-- frps wraps its end iff the configurer it made from the NewProxy message says so -/
def serverEnc (user : Str) (w : Base) : Bool := (serverCfgOf (marshal (loaded user w))).enc

/-- the path configuration of the work connections of a proxy written as `w`: the cipher covers the
    payload in both directions iff BOTH ends wrap -/
def pathOfWritten (tls : Bool) (user : Str) (w : Base) : PathCfg :=
  { tls := tls, internal := false, useEncryption := clientEnc user w && serverEnc user w }

end WireConfig
end Frp
