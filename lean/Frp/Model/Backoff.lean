/-
  Model of /repo/pkg/util/wait/backoff.go  (fastBackoffImpl.Backoff, Jitter, BackoffUntil)
  and of the concrete option sets used by client/service.go and client/control.go.

  Durations and times are integer nanoseconds (`Nat`: the model's domain is non-negative options
  and durations).  `Factor`, `Jitter`, `FastRetryJitter` are rationals num/den (the Go code uses
  float64; for dyadic rationals and durations < 2^50 ns the float computation is exact).
  Random jitter is modelled relationally: a step returns the closed interval `[lo, hi]` of delays
  the code may return; a run is valid when every observed delay lies in the interval of its step and
  the next step is taken from the observed delay (as `BackoffUntil` does).
-/
namespace Frp
namespace Backoff

/-- util.EmptyOr on durations -/
def emptyOr (v fallback : Nat) : Nat := if v = 0 then fallback else v

/-- time.Second in ns -/
def second : Nat := 1000000000
def milli : Nat := 1000000

/-- wait.FastBackoffOptions -/
structure Opts where
  duration    : Nat
  facNum      : Nat        -- Factor = facNum / facDen ; `Factor != 0` ⇔ facNum ≠ 0
  facDen      : Nat
  jitNum      : Nat        -- Jitter = jitNum / jitDen ; `Jitter > 0` ⇔ jitNum ≠ 0
  jitDen      : Nat
  maxDuration : Nat        -- `MaxDuration > 0` ⇔ ≠ 0
  initIfFail  : Nat
  frCount     : Nat
  frDelay     : Nat
  frJitNum    : Nat        -- FastRetryJitter
  frJitDen    : Nat
  frWindow    : Nat
deriving Repr, DecidableEq

/-- fastBackoffImpl (without `options`).  `called = false` ⇔ `lastCalledTime.IsZero()`;
    `cutoff = none` ⇔ `fastRetryCutoffTime` is the zero `time.Time` (every `now` is After it). -/
structure St where
  called : Bool := false
  consec : Nat := 0
  cutoff : Option Nat := none
  counts : Nat := 1                      -- NewFastBackoffManager: countsInFastRetryWindow: 1
deriving Repr, DecidableEq

def init : St := {}

inductive Kind | first | fast | slow | base
deriving Repr, DecidableEq

/-- what one call may return: any `d` with `lo ≤ d ≤ hi`; `reset` = the window was re-armed -/
structure Out where
  kind  : Kind
  lo    : Nat
  hi    : Nat
  reset : Bool := false
deriving Repr, DecidableEq

/-- `Jitter(d, maxFactor)`: `d + Duration(rand.Float64()*maxFactor*float64(d))`, rand ∈ [0,1);
    `maxFactor <= 0` ⇒ 1.0.  Lower end `d`, upper end (inclusive over-approximation) below. -/
def jitterHi (d jn jd : Nat) : Nat := if jn = 0 then d + d else d + d * jn / jd

/-- `if Factor != 0 { duration = Duration(float64(duration) * Factor) }` -/
def mulFactor (o : Opts) (d : Nat) : Nat := if o.facNum = 0 then d else d * o.facNum / o.facDen

/-- `if MaxDuration > 0 && duration > MaxDuration { duration = MaxDuration }` -/
def cap (o : Opts) (d : Nat) : Nat := if o.maxDuration ≠ 0 ∧ d > o.maxDuration then o.maxDuration else d

/-- the duration the slow path starts from -/
def slowBase (o : Opts) (consec prev : Nat) : Nat :=
  emptyOr (if consec = 1 then emptyOr o.initIfFail prev else prev) second

def slowOut (o : Opts) (consec prev : Nat) (reset : Bool) : Out :=
  let m := mulFactor o (slowBase o consec prev)
  { kind := .slow, lo := cap o m,
    hi := cap o (if o.jitNum ≠ 0 then jitterHi m o.jitNum o.jitDen else m), reset := reset }

def fastOut (o : Opts) : Out :=
  { kind := .fast, lo := o.frDelay, hi := jitterHi o.frDelay o.frJitNum o.frJitDen }

def baseOut (o : Opts) (k : Kind) : Out := { kind := k, lo := o.duration, hi := o.duration }

/-- `now.After(f.fastRetryCutoffTime)` -/
def afterCutoff (now : Nat) : Option Nat → Bool
  | none => true
  | some c => decide (c < now)

/-- which path of `fastBackoffImpl.Backoff` is taken (the control flow of the Go function, in order):
    first call | fast retry | slow after re-arming the window | slow, window not re-armed |
    slow (fast retries off) | success -/
inductive Branch | first | fast | slowReset | slowNoReset | slowPlain | base
deriving Repr, DecidableEq

def branch (o : Opts) (s : St) (now : Nat) (err : Bool) : Branch :=
  if s.called = false then .first                       -- if f.lastCalledTime.IsZero() { …; return Duration }
  else if o.frCount ≠ 0 ∧ err = true then               -- if FastRetryCount > 0 && previousConditionError
    if s.counts + 1 ≤ o.frCount then .fast              --   counts++; if counts <= FastRetryCount { return Jitter(FastRetryDelay, …) }
    else if afterCutoff now s.cutoff then .slowReset    --   if now.After(cutoff) { cutoff = now+Window; counts = 0 }
    else .slowNoReset
  else if err = true then .slowPlain                    -- if previousConditionError { … }
  else .base                                            -- return Duration

/-- `if previousConditionError { consecutiveErrCount++ } else { consecutiveErrCount = 0 }` -/
def consecOf (s : St) (err : Bool) : Nat := if err then s.consec + 1 else 0

/-- fastBackoffImpl.Backoff(previousDuration, previousConditionError) at time `now` -/
def step (o : Opts) (s : St) (now prev : Nat) (err : Bool) : St × Out :=
  match branch o s now err with
  | .first       => ({ s with called := true }, baseOut o .first)
  | .fast        => ({ s with consec := consecOf s err, counts := s.counts + 1 }, fastOut o)
  | .slowReset   => ({ s with consec := consecOf s err, cutoff := some (now + o.frWindow), counts := 0 },
                     slowOut o (consecOf s err) prev true)
  | .slowNoReset => ({ s with consec := consecOf s err, counts := s.counts + 1 },
                     slowOut o (consecOf s err) prev false)
  | .slowPlain   => ({ s with consec := consecOf s err }, slowOut o (consecOf s err) prev false)
  | .base        => ({ s with consec := consecOf s err }, baseOut o .base)

/-- one observed call: time, error flag passed in, delay that came back -/
structure Call where
  now : Nat
  err : Bool
  d   : Nat
deriving Repr, DecidableEq

/-- a sequence of calls chained as `BackoffUntil` (sliding) chains them: the delay returned by
    one call is the `previousDuration` of the next; every delay lies in its step's interval -/
def runOk (o : Opts) : St → Nat → List Call → Bool
  | _, _, [] => true
  | s, prev, c :: cs =>
    let r := step o s c.now prev c.err
    decide (r.2.lo ≤ c.d) && decide (c.d ≤ r.2.hi) && runOk o r.1 c.d cs

/-- state after a chained run -/
def runSt (o : Opts) : St → List Call → St
  | s, [] => s
  | s, c :: cs => runSt o (step o s c.now 0 c.err).1 cs

/-- kinds along a chained run -/
def runKinds (o : Opts) : St → Nat → List Call → List Out
  | _, _, [] => []
  | s, prev, c :: cs =>
    let r := step o s c.now prev c.err
    r.2 :: runKinds o r.1 c.d cs

/-- `BackoffUntil`: `ticker := NewTicker(backoff.Backoff(0, false))` is the first call; afterwards
    (sliding = true, the only mode frp uses) each iteration is `f(); delay = Backoff(delay, err); wait delay`. -/
def loopStart (o : Opts) (now : Nat) : St := (step o init now 0 false).1

/-- number of fast delays in a run (independent of the observed delays) -/
def fastCount (o : Opts) : St → List Call → Nat
  | _, [] => 0
  | s, c :: cs =>
    let r := step o s c.now 0 c.err
    (if r.2.kind = .fast then 1 else 0) + fastCount o r.1 cs

/-! ### concrete option sets -/

/-- client/service.go keepControllerWorking -/
def outerOpts : Opts :=
  { duration := second, facNum := 2, facDen := 1, jitNum := 1, jitDen := 10,
    maxDuration := 20 * second, initIfFail := 0, frCount := 3, frDelay := 200 * milli,
    frJitNum := 1, frJitDen := 2, frWindow := 60 * second }

/-- client/service.go loopLoginUntilSuccess(maxInterval) -/
def loginOpts (maxInterval : Nat) : Opts :=
  { duration := second, facNum := 2, facDen := 1, jitNum := 1, jitDen := 10,
    maxDuration := maxInterval, initIfFail := 0, frCount := 0, frDelay := 0,
    frJitNum := 0, frJitDen := 1, frWindow := 0 }

/-- client/control.go heartbeatWorker (ping sender), interval in seconds -/
def pingOpts (interval : Nat) : Opts :=
  { duration := interval * second, facNum := 2, facDen := 1, jitNum := 1, jitDen := 10,
    maxDuration := interval * second, initIfFail := second, frCount := 0, frDelay := 0,
    frJitNum := 0, frJitDen := 1, frWindow := 0 }

end Backoff
end Frp
