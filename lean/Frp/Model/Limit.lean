import Frp.Model.Str
/-
  C01 — bandwidth limiter.  Hand-written mirror of

    pkg/util/limit/writer.go   Writer.Write    → `chunks`, `writerTrace`
    pkg/util/limit/reader.go   Reader.Read     → `readerAsk`, `readerCharge`
    golang.org/x/time/rate     Limiter.reserveN/advance (explicit-time API) → `Res.reserve`
    token bucket (specification side)          → `valid`, `sumN`, `span`

  The limiter is created in server/proxy/proxy.go:NewProxy and client/proxy/proxy.go:NewProxy as
  `rate.NewLimiter(rate.Limit(float64(limitBytes)), int(limitBytes))` and ONLY when
  `limitBytes > 0`, so burst > 0 wherever a Writer/Reader exists (`Writer.Write` with burst 0 and a
  non-empty `p` would spin for ever: `end = 0`, `p = p[0:]`).
-/
namespace Frp

/-- a byte string / one Write's payload -/
abbrev C01Bytes := List Nat

namespace Limit

/-! ## limit.Writer.Write -/

/-- the loop of `Writer.Write`:
    `for { end := len(p); if end == 0 {break}; if b < len(p) {end = b}; WaitN(end); w.Write(p[:end]); p = p[end:] }`.
    Fuel = `len(p)` iterations are enough when `b > 0`. -/
def chunksAux (b : Nat) : Nat → C01Bytes → List C01Bytes
  | 0, _ => []
  | fuel + 1, p =>
    if p.length = 0 then []
    else
      let e := if b < p.length then b else p.length
      p.take e :: chunksAux b fuel (p.drop e)

/-- the sequence of `w.w.Write` calls one `Writer.Write(p)` makes (no error from below) -/
def chunks (b : Nat) (p : C01Bytes) : List C01Bytes := chunksAux b p.length p

/-- `(tokens requested by WaitN, bytes written)` per loop iteration -/
def writerTrace (b : Nat) (p : C01Bytes) : List (Nat × C01Bytes) := (chunks b p).map fun c => (c.length, c)

/-- the `n` `Writer.Write` returns: the sum of the `nn` -/
def writerN (b : Nat) (p : C01Bytes) : Nat := ((chunks b p).map List.length).sum

/-! ## limit.Reader.Read -/

/-- `if b < len(p) { p = p[:b] }` : size of the slice handed to the reader below -/
def readerAsk (b plen : Nat) : Nat := if b < plen then b else plen

/-- `n, err = r.r.Read(p); if err != nil { if n > 0 { WaitN(n) }; return }; WaitN(n)`: tokens charged for a read below
    that returned `got` bytes — the bytes that come with an error are charged as well (fix c863bec) -/
def readerCharge (got : Nat) (_err : Bool) : Nat := got

/-- reader.go before c863bec: `if err != nil { return }` came before `WaitN` (`err = true`: nothing is charged, the
    bytes are still returned) — kept as a sensitivity witness only -/
def readerChargeOld (got : Nat) (err : Bool) : Nat := if err then 0 else got

/-! ## `Writer.Write` / `Reader.Read` against the limiter's admission check and a sink that can fail

  golang.org/x/time/rate `Limiter.wait` (what `WaitN(context.Background(), n)` runs) begins with
  `if n > burst && limit != Inf { return fmt.Errorf("rate: Wait(n=%d) exceeds limiter's burst %d") }`;
  with a background context nothing else can fail: the call returns nil after the reservation's delay.
  frp only ever builds FINITE limiters (`rate.NewLimiter(rate.Limit(float64(limitBytes)), int(limitBytes))`),
  so a request above one burst makes `Write` / `Read` return that error at once and the tunnel is torn down. -/

/-- `WaitN(ctx, n)` returns nil: `inf` = the limiter's rate is `rate.Inf` -/
def waitOk (inf : Bool) (b n : Nat) : Bool := inf || decide (n ≤ b)

/-- what `Writer.Write` returned in `err` -/
inductive WErr where
  | none   -- nil
  | wait   -- the error of `limiter.WaitN`
  | sink   -- the error of `w.w.Write`
  deriving DecidableEq, Repr

/-- one `Writer.Write(p)` observed from outside -/
structure WOut where
  n : Nat                    -- the returned count: the sum of the `nn`
  err : WErr
  reqs : List Nat            -- the arguments of the `WaitN` calls, in order (a refused one included)
  offered : List C01Bytes    -- the arguments of the `w.w.Write` calls, in order
  room : Nat                 -- bytes the sink below still accepts afterwards
  deriving DecidableEq, Repr

/-- `Writer.Write` line for line, over a contract-abiding `io.Writer` below that accepts `room` more bytes:
    `Write(c)` returns `(len(c), nil)` while `len(c) ≤ room`, otherwise `(room, err)`:

      for { end := len(p); if end == 0 {break}; if b < len(p) {end = b}
            err = w.limiter.WaitN(ctx, end);  if err != nil {return}
            nn, err = w.w.Write(p[:end]); n += nn;  if err != nil {return}
            p = p[end:] } -/
def writeAux (inf : Bool) (b : Nat) : Nat → Nat → C01Bytes → WOut
  | 0, room, _ => { n := 0, err := .none, reqs := [], offered := [], room := room }
  | fuel + 1, room, p =>
    if p.length = 0 then { n := 0, err := .none, reqs := [], offered := [], room := room }
    else
      let e := if b < p.length then b else p.length
      if waitOk inf b e then
        if e ≤ room then
          let o := writeAux inf b fuel (room - e) (p.drop e)
          { n := e + o.n, err := o.err, reqs := e :: o.reqs, offered := p.take e :: o.offered, room := o.room }
        else { n := room, err := .sink, reqs := [e], offered := [p.take e], room := 0 }
      else { n := 0, err := .wait, reqs := [e], offered := [], room := room }

def write (inf : Bool) (b room : Nat) (p : C01Bytes) : WOut := writeAux inf b p.length room p

/-- the bytes the sink accepted during one `Write` -/
def WOut.accepted (o : WOut) : C01Bytes := o.offered.flatten.take o.n

/-- successive `Write` calls on one `limit.Writer` (same limiter, same sink) -/
def writeMany (inf : Bool) (b : Nat) : Nat → List C01Bytes → List WOut
  | _, [] => []
  | room, p :: ps =>
    let o := write inf b room p
    o :: writeMany inf b o.room ps

/-- what `Reader.Read` returned in `err` -/
inductive RErr where
  | none | eof | wait
  deriving DecidableEq, Repr

/-- one `Reader.Read(p)` observed from outside -/
structure ROut where
  got : C01Bytes          -- `p[:n]`
  req : Option Nat        -- the argument of `WaitN` if it was called
  err : RErr
  deriving DecidableEq, Repr

/-- `Reader.Read` over a stream below that hands out at most `per` bytes per call and `(0, EOF)` once it
    is exhausted (a `bytes.Reader` / a socket delivering segments):
    `if b < len(p) {p = p[:b]}; n, err = r.r.Read(p); if err != nil {return}; err = WaitN(ctx, n)`.
    Returns the observation and what is left of the stream. -/
def readOnce (inf : Bool) (b plen per : Nat) (src : C01Bytes) : ROut × C01Bytes :=
  if src.length = 0 then ({ got := [], req := none, err := .eof }, src)
  else
    let k := min (readerAsk b plen) per
    let got := src.take k
    ({ got := got, req := some got.length, err := if waitOk inf b got.length then .none else .wait }, src.drop k)

/-- `Read` with a `plen`-byte buffer until an error (end-of-stream included) -/
def readAll (inf : Bool) (b plen per : Nat) : Nat → C01Bytes → List ROut
  | 0, _ => []
  | fuel + 1, src =>
    let x := readOnce inf b plen per src
    if x.1.err = .none then x.1 :: readAll inf b plen per fuel x.2 else [x.1]

/-! ## The io.Reader / io.Writer CONTRACT: scripted sources and sinks

  An `io.Reader` may return `(n > 0, io.EOF)` (quic-go ends a stream that way: the read that consumes the frame
  carrying FIN returns its bytes together with EOF), `(n > 0, some other error)`, `(0, nil)`, a single byte, or fewer
  bytes than asked for; tcp / yamux / websocket return `(n, nil)` and then `(0, EOF)`.  A wrapper on the byte path
  has to be transparent for ALL of them.  A source is a script of answers; the wrappers are mirrored line for line
  with the `(n, err)` PAIR the reader below returned:

    pkg/util/limit/reader.go  Reader.Read:
        b := Burst(); if b < len(p) { p = p[:b] }
        n, err = r.r.Read(p)
        if err != nil {                                       -- named results: n AND err go to the caller;
          if n > 0 { if werr := WaitN(ctx, n); werr != nil { err = werr } }   -- the bytes are charged first (c863bec)
          return }
        err = r.limiter.WaitN(ctx, n); return                -- n is returned also when WaitN refuses
    pkg/util/net/conn.go      StatsConn.Read: n, err = Conn.Read(p); totalRead += int64(n); return
                              CloseNotifyConn / ContextConn (embedded net.Conn), WrapReadWriteCloserConn (embedded
                              io.ReadWriteCloser) and golib io.ReadWriteCloser.Read (`return rwc.r.Read(p)`): the
                              embedded / wrapped Read itself -/

/-- the error half of the `(n, err)` pair of the reader below -/
inductive SErr where
  | none | eof | other
  deriving DecidableEq, Repr

/-- one scripted answer: `data` is handed out (over as many calls as the caller's buffers need) and `err` comes
    TOGETHER WITH its last byte.  `⟨d, .none⟩, ⟨[], .eof⟩` is a tcp / yamux stream's end, `⟨d, .eof⟩` a quic
    stream's, `⟨[], .none⟩` a `(0, nil)` read, `⟨[x], .none⟩` a one-byte read -/
structure Seg where
  data : C01Bytes
  err : SErr
  deriving DecidableEq, Repr

/-- `Read(p)` with `len(p) = k` on a scripted source: `(p[:n], err)` and the source afterwards.  An exhausted
    script answers `(0, EOF)`; an error is sticky (every later call returns `(0, err)`) -/
def srcRead (k : Nat) : List Seg → (C01Bytes × SErr) × List Seg
  | [] => (([], .eof), [])
  | s :: rest =>
    if s.data.length ≤ k then
      ((s.data, s.err), if s.err = .none then rest else [{ data := [], err := s.err }])
    else ((s.data.take k, .none), { s with data := s.data.drop k } :: rest)

/-- the bytes a source delivers: everything up to and INCLUDING the bytes that come with its first error -/
def delivered : List Seg → C01Bytes
  | [] => []
  | s :: rest => if s.err = .none then s.data ++ delivered rest else s.data

/-- the error that ends the source (`(0, EOF)` after the script) -/
def finalErr : List Seg → SErr
  | [] => .eof
  | s :: rest => if s.err = .none then finalErr rest else s.err

/-- number of reads after which any drain with non-empty buffers has reached the source's error -/
def srcFuel : List Seg → Nat
  | [] => 1
  | s :: rest => s.data.length + 1 + srcFuel rest

/-- what a wrapper's `Read` returned in `err` -/
inductive PErr where
  | none | eof | src | wait
  deriving DecidableEq, Repr

def PErr.ofS : SErr → PErr
  | .none => .none
  | .eof => .eof
  | .other => .src

/-- the wrappers of the byte path (reading side) -/
inductive RW where
  | limit (inf : Bool) (b : Nat)   -- limit.Reader over a limiter with burst `b`
  | pass                           -- CloseNotifyConn, ContextConn, WrapReadWriteCloserConn, golib io.ReadWriteCloser
  | stats                          -- StatsConn
  deriving DecidableEq, Repr

/-- one `Read(p)` of a wrapper stack observed from outside -/
structure RRes where
  got : C01Bytes        -- `p[:n]`
  err : PErr
  reqs : List Nat       -- the arguments of the `WaitN` calls this `Read` made (limiters of the stack, innermost first)
  deriving DecidableEq, Repr

/-- `Read(p)`, `len(p) = k`, on a stack of wrappers (outermost first) over a scripted source -/
def readW : List RW → Nat → List Seg → RRes × List Seg
  | [], k, src =>
    let x := srcRead k src
    ({ got := x.1.1, err := PErr.ofS x.1.2, reqs := [] }, x.2)
  | .limit inf b :: ws, k, src =>
    let x := readW ws (readerAsk b k) src           -- `if b < len(p) { p = p[:b] }; n, err = r.r.Read(p)`
    if x.1.err = .none then                          -- `err = r.limiter.WaitN(ctx, n); return`
      ({ got := x.1.got, err := if waitOk inf b x.1.got.length then .none else .wait,
         reqs := x.1.reqs ++ [x.1.got.length] }, x.2)
    else if x.1.got.length = 0 then x                -- `if err != nil { if n > 0 {…}; return }` : n and err as they came
    else                                             -- `if werr := WaitN(ctx, n); werr != nil { err = werr }`
      ({ got := x.1.got, err := if waitOk inf b x.1.got.length then x.1.err else .wait,
         reqs := x.1.reqs ++ [x.1.got.length] }, x.2)
  | .pass :: ws, k, src => readW ws k src
  | .stats :: ws, k, src => readW ws k src           -- `totalRead += int64(n)`: `statsCount`

/-- `readW` with reader.go as it was BEFORE c863bec (`if err != nil { return }` ahead of `WaitN`): the bytes that come
    with an error are handed on uncharged.  Sensitivity witness only (`C01.reader_charged_old_witness`) -/
def readWOld : List RW → Nat → List Seg → RRes × List Seg
  | [], k, src =>
    let x := srcRead k src
    ({ got := x.1.1, err := PErr.ofS x.1.2, reqs := [] }, x.2)
  | .limit inf b :: ws, k, src =>
    let x := readWOld ws (readerAsk b k) src
    if x.1.err = .none then
      ({ got := x.1.got, err := if waitOk inf b x.1.got.length then .none else .wait,
         reqs := x.1.reqs ++ [x.1.got.length] }, x.2)
    else x
  | .pass :: ws, k, src => readWOld ws k src
  | .stats :: ws, k, src => readWOld ws k src

def drainWOld (ws : List RW) (plen : Nat) : Nat → List Seg → List RRes
  | 0, _ => []
  | fuel + 1, src =>
    let x := readWOld ws plen src
    if x.1.err = .none then x.1 :: drainWOld ws plen fuel x.2 else [x.1]

/-- an `io.Copy`-like caller with a `plen`-byte buffer: takes `p[:n]` of EVERY read, stops at the first error -/
def drainW (ws : List RW) (plen : Nat) : Nat → List Seg → List RRes
  | 0, _ => []
  | fuel + 1, src =>
    let x := readW ws plen src
    if x.1.err = .none then x.1 :: drainW ws plen fuel x.2 else [x.1]

/-- `StatsConn.totalRead` after a drain -/
def statsCount (rs : List RRes) : Nat := (rs.map (·.got.length)).sum

/-- one scripted answer of the writer below to `Write(c)`: it takes `min take len(c)` bytes; it reports an error if
    `err` is set or (the io.Writer contract) if it took less than `len(c)` — unless `lax`: a sink that BREAKS the
    contract and returns a short count with a nil error -/
structure SinkResp where
  take : Nat
  err : Bool
  lax : Bool
  deriving DecidableEq, Repr

/-- `w.w.Write(c)` on a scripted sink: `(nn, err != nil)`; an exhausted script accepts everything -/
def sinkWrite (c : C01Bytes) : List SinkResp → (Nat × Bool) × List SinkResp
  | [] => ((c.length, false), [])
  | s :: rest => ((min s.take c.length, s.err || (decide (min s.take c.length < c.length) && !s.lax)), rest)

/-- one `Writer.Write(p)` over a scripted sink, observed from outside -/
structure WRes where
  n : Nat                    -- the returned count
  err : WErr
  reqs : List Nat            -- the arguments of the `WaitN` calls
  offered : List C01Bytes    -- the arguments of the `w.w.Write` calls
  took : List Nat            -- the counts the sink returned
  deriving DecidableEq, Repr

/-- `Writer.Write` line for line over a scripted sink (same loop as `writeAux`; the sink's own `(nn, err)` pair decides):
      nn, err = w.w.Write(p[:end]); n += nn; if err != nil { return }; p = p[end:] -/
def writeSAux (inf : Bool) (b : Nat) : Nat → List SinkResp → C01Bytes → WRes × List SinkResp
  | 0, ss, _ => ({ n := 0, err := .none, reqs := [], offered := [], took := [] }, ss)
  | fuel + 1, ss, p =>
    if p.length = 0 then ({ n := 0, err := .none, reqs := [], offered := [], took := [] }, ss)
    else
      let e := if b < p.length then b else p.length
      if waitOk inf b e then
        let x := sinkWrite (p.take e) ss
        if x.1.2 then ({ n := x.1.1, err := .sink, reqs := [e], offered := [p.take e], took := [x.1.1] }, x.2)
        else
          let o := writeSAux inf b fuel x.2 (p.drop e)        -- `p = p[end:]`, whatever `nn` was
          ({ n := x.1.1 + o.1.n, err := o.1.err, reqs := e :: o.1.reqs, offered := p.take e :: o.1.offered,
             took := x.1.1 :: o.1.took }, o.2)
      else ({ n := 0, err := .wait, reqs := [e], offered := [], took := [] }, ss)

def writeS (inf : Bool) (b : Nat) (ss : List SinkResp) (p : C01Bytes) : WRes × List SinkResp :=
  writeSAux inf b p.length ss p

/-- the bytes the sink accepted during one `Write`: of each chunk it was offered, the count it returned -/
def takenOf : List C01Bytes → List Nat → C01Bytes
  | c :: cs, k :: ks => c.take k ++ takenOf cs ks
  | _, _ => []

def WRes.accepted (o : WRes) : C01Bytes := takenOf o.offered o.took

/-- the first limiter of a wrapper stack (the writing side of `pass` / `stats` is the embedded `Write`;
    `StatsConn.Write`: `n, err = Conn.Write(p); totalWrite += int64(n); return`) -/
def limOf : List RW → Option (Bool × Nat)
  | [] => none
  | .limit inf b :: _ => some (inf, b)
  | _ :: ws => limOf ws

/-- `Write(p)` on a wrapper stack over a scripted sink -/
def writeW (ws : List RW) (ss : List SinkResp) (p : C01Bytes) : WRes × List SinkResp :=
  match limOf ws with
  | some (inf, b) => writeS inf b ss p
  | none =>
    let x := sinkWrite p ss
    ({ n := x.1.1, err := if x.1.2 then .sink else .none, reqs := [], offered := [p], took := [x.1.1] }, x.2)

/-- an `io.Copy`-like caller: one `Write` per piece, stops at the first error -/
def writeManyW (ws : List RW) : List SinkResp → List C01Bytes → List WRes
  | _, [] => []
  | ss, p :: ps =>
    let x := writeW ws ss p
    if x.1.err = .none then x.1 :: writeManyW ws x.2 ps else [x.1]

/-! ## x/time/rate, explicit-time API (`ReserveN(now, n)`), integer ticks, `r` tokens per tick -/

structure Res where
  tokens : Int      -- may be negative: reservations already handed out
  last : Nat
  deriving DecidableEq, Repr

def ceilDiv (a b : Nat) : Nat := if b = 0 then 0 else (a + b - 1) / b

/-- `advance` + `reserveN` for `n ≤ burst`, `now ≥ last`:
    `tokens = min(burst, tokens + r·(now − last)) − n`; wait = ⌈−tokens / r⌉ when negative.
    Returns the new state and the tick at which the caller may act. -/
def Res.reserve (r B : Nat) (s : Res) (now n : Nat) : Res × Nat :=
  let now' := if now < s.last then s.last else now
  let t0 : Int := s.tokens + (r * (now' - s.last) : Nat)
  let t1 : Int := if (B : Int) < t0 then B else t0
  let t2 : Int := t1 - n
  let wait := if t2 < 0 then ceilDiv t2.natAbs r else 0
  ({ tokens := t2, last := now' }, now' + wait)

/-- grant ticks for a request list `(now, n)` from a full bucket -/
def reserveRun (r B : Nat) : Res → List (Nat × Nat) → List (Nat × Nat)
  | _, [] => []
  | s, (now, n) :: rest =>
    let x := Res.reserve r B s now n
    (x.2, n) :: reserveRun r B x.1 rest

/-! ## Token bucket, specification side: a history of grants `(tick, n)` -/

/-- `valid r B L t evs`: starting with `L` tokens at tick `t`, every grant `(g, n)` (ticks
    non-decreasing) finds at least `n` tokens in the bucket, which refills by `r` per tick and is
    capped at `B`. -/
def valid (r B : Nat) : Nat → Nat → List (Nat × Nat) → Bool
  | _, _, [] => true
  | L, t, (g, n) :: rest =>
    decide (t ≤ g) &&
      (let L' := min B (L + r * (g - t))
       decide (n ≤ L') && valid r B (L' - n) g rest)

def sumN : List (Nat × Nat) → Nat
  | [] => 0
  | (_, n) :: rest => n + sumN rest

/-- tick of the last grant (or `t` when there is none) -/
def lastT : Nat → List (Nat × Nat) → Nat
  | t, [] => t
  | _, (g, _) :: rest => lastT g rest

/-- duration covered by a non-empty run of grants: last tick − first tick -/
def span : List (Nat × Nat) → Nat
  | [] => 0
  | (g, _) :: rest => lastT g rest - g

/-- executable window check used by the driver on the implementation's own grant list:
    every contiguous run of grants stays within `B + r·span (+ slack)` -/
def windowsOkFrom (r B slack : Nat) : List (Nat × Nat) → Bool
  | [] => true
  | (g, n) :: rest =>
    let rec go (acc : Nat) : List (Nat × Nat) → Bool
      | [] => true
      | (g', n') :: rest' =>
        decide (acc + n' ≤ B + r * (g' - g) + slack) && go (acc + n') rest'
    decide (n ≤ B + slack) && go n rest && windowsOkFrom r B slack rest

end Limit
end Frp
