import Frp.Model.Str
/-
  C01 — bandwidth limiter.  Hand-written mirror of

    pkg/util/limit/writer.go   Writer.Write    → `chunks`, `writerTrace`
    pkg/util/limit/reader.go   Reader.Read     → `readerAsk`, `readerCharge`
    golang.org/x/time/rate     Limiter.reserveN/advance (explicit-time API) → `Res.reserve`
    token bucket (specification side)          → `valid`, `sumN`, `span`

  The limiter is created in server/proxy/proxy.go:NewProxy and client/proxy/proxy.go:NewProxy as
  `rate.NewLimiter(rate.Limit(float64(limitBytes)), int(limitBytes))` and ONLY when
  `limitBytes > 0`, so burst > 0 wherever a Writer/Reader exists (`Writer.Write` with burst 0 and a
  non-empty `p` would spin for ever: `end = 0`, `p = p[0:]`).
-/
namespace Frp

/-- a byte string / one Write's payload -/
abbrev C01Bytes := List Nat

namespace Limit

/-! ## limit.Writer.Write -/

/-- the loop of `Writer.Write`:
    `for { end := len(p); if end == 0 {break}; if b < len(p) {end = b}; WaitN(end); w.Write(p[:end]); p = p[end:] }`.
    Fuel = `len(p)` iterations are enough when `b > 0`. -/
def chunksAux (b : Nat) : Nat → C01Bytes → List C01Bytes
  | 0, _ => []
  | fuel + 1, p =>
    if p.length = 0 then []
    else
      let e := if b < p.length then b else p.length
      p.take e :: chunksAux b fuel (p.drop e)

/-- the sequence of `w.w.Write` calls one `Writer.Write(p)` makes (no error from below) -/
def chunks (b : Nat) (p : C01Bytes) : List C01Bytes := chunksAux b p.length p

/-- `(tokens requested by WaitN, bytes written)` per loop iteration -/
def writerTrace (b : Nat) (p : C01Bytes) : List (Nat × C01Bytes) := (chunks b p).map fun c => (c.length, c)

/-- the `n` `Writer.Write` returns: the sum of the `nn` -/
def writerN (b : Nat) (p : C01Bytes) : Nat := ((chunks b p).map List.length).sum

/-! ## limit.Reader.Read -/

/-- `if b < len(p) { p = p[:b] }` : size of the slice handed to the reader below -/
def readerAsk (b plen : Nat) : Nat := if b < plen then b else plen

/-- `n, err = r.r.Read(p); if err != nil {return}; WaitN(n)`: tokens charged for a read below that
    returned `got` bytes (`err = true`: nothing is charged, the bytes are still returned) -/
def readerCharge (got : Nat) (err : Bool) : Nat := if err then 0 else got

/-! ## x/time/rate, explicit-time API (`ReserveN(now, n)`), integer ticks, `r` tokens per tick -/

structure Res where
  tokens : Int      -- may be negative: reservations already handed out
  last : Nat
  deriving DecidableEq, Repr

def ceilDiv (a b : Nat) : Nat := if b = 0 then 0 else (a + b - 1) / b

/-- `advance` + `reserveN` for `n ≤ burst`, `now ≥ last`:
    `tokens = min(burst, tokens + r·(now − last)) − n`; wait = ⌈−tokens / r⌉ when negative.
    Returns the new state and the tick at which the caller may act. -/
def Res.reserve (r B : Nat) (s : Res) (now n : Nat) : Res × Nat :=
  let now' := if now < s.last then s.last else now
  let t0 : Int := s.tokens + (r * (now' - s.last) : Nat)
  let t1 : Int := if (B : Int) < t0 then B else t0
  let t2 : Int := t1 - n
  let wait := if t2 < 0 then ceilDiv t2.natAbs r else 0
  ({ tokens := t2, last := now' }, now' + wait)

/-- grant ticks for a request list `(now, n)` from a full bucket -/
def reserveRun (r B : Nat) : Res → List (Nat × Nat) → List (Nat × Nat)
  | _, [] => []
  | s, (now, n) :: rest =>
    let x := Res.reserve r B s now n
    (x.2, n) :: reserveRun r B x.1 rest

/-! ## Token bucket, specification side: a history of grants `(tick, n)` -/

/-- `valid r B L t evs`: starting with `L` tokens at tick `t`, every grant `(g, n)` (ticks
    non-decreasing) finds at least `n` tokens in the bucket, which refills by `r` per tick and is
    capped at `B`. -/
def valid (r B : Nat) : Nat → Nat → List (Nat × Nat) → Bool
  | _, _, [] => true
  | L, t, (g, n) :: rest =>
    decide (t ≤ g) &&
      (let L' := min B (L + r * (g - t))
       decide (n ≤ L') && valid r B (L' - n) g rest)

def sumN : List (Nat × Nat) → Nat
  | [] => 0
  | (_, n) :: rest => n + sumN rest

/-- tick of the last grant (or `t` when there is none) -/
def lastT : Nat → List (Nat × Nat) → Nat
  | t, [] => t
  | _, (g, _) :: rest => lastT g rest

/-- duration covered by a non-empty run of grants: last tick − first tick -/
def span : List (Nat × Nat) → Nat
  | [] => 0
  | (g, _) :: rest => lastT g rest - g

/-- executable window check used by the driver on the implementation's own grant list:
    every contiguous run of grants stays within `B + r·span (+ slack)` -/
def windowsOkFrom (r B slack : Nat) : List (Nat × Nat) → Bool
  | [] => true
  | (g, n) :: rest =>
    let rec go (acc : Nat) : List (Nat × Nat) → Bool
      | [] => true
      | (g', n') :: rest' =>
        decide (acc + n' ≤ B + r * (g' - g) + slack) && go (acc + n') rest'
    decide (n ≤ B + slack) && go n rest && windowsOkFrom r B slack rest

end Limit
end Frp
