import Frp.Model.Str
import Frp.Model.Sess
/-
  The run-id generator (property C12, last clause)
    pkg/util/util/util.go   RandID, RandIDWithLen

      func RandIDWithLen(idLen int) (id string, err error) {
          if idLen <= 0 { return "", nil }
          b := make([]byte, idLen/2+1)        -- a buffer PRIVATE to this call
          _, err = rand.Read(b)               -- crypto/rand fills all of it
          if err != nil { return }
          id = fmt.Sprintf("%x", b)           -- the call formats ITS OWN buffer
          return id[:idLen], nil
      }

  Two parts:
   * the pure part: the id as a function of the block the call read (`idOf`);
   * a small-step model of several calls in flight (`pstep`): `read i block` = call i's rand.Read
     returns, `format i` = call i formats and returns.  The model has a switch `priv`: `true` is the
     code above (each call formats the buffer it made itself), `false` is the variant in which the
     buffer is a slice of a shared pool that a later `read` overwrites.  Which of the two the source
     is, is decided by the regenerated facts `Frp.Gen.RandFacts` (Props/C12.lean, `randid_code_shape`).

  Unpredictability itself (that crypto/rand's bytes cannot be guessed) is an assumption, not a theorem.
-/
namespace Frp
namespace RandID
open Sess (Tbl)

/-- one lower-case hex digit, as a byte (`fmt`'s `ldigits`) -/
def hexDigit (n : Nat) : Nat := if n < 10 then 48 + n else 87 + n

/-- `fmt.Sprintf("%x", b)` for a byte slice: two lower-case digits per byte, high nibble first -/
def hexOf : List Nat → Str
  | [] => []
  | x :: xs => hexDigit (x / 16 % 16) :: hexDigit (x % 16) :: hexOf xs

/-- `make([]byte, idLen/2+1)` -/
def bufLen (idLen : Nat) : Nat := idLen / 2 + 1

/-- what RandIDWithLen returns for the block `b` it read: `fmt.Sprintf("%x", b)[:idLen]` -/
def idOf (idLen : Nat) (b : List Nat) : Str := (hexOf b).take idLen

def isLowerHex (c : Nat) : Bool := (48 ≤ c && c ≤ 57) || (97 ≤ c && c ≤ 102)

/-- a run id as the property describes it: 16 lower-case hex characters -/
def isHex16 (id : Str) : Bool := id.length == 16 && id.all isLowerHex

/-! ### the pure part -/

theorem hexOf_length (b : List Nat) : (hexOf b).length = 2 * b.length := by
  induction b with
  | nil => rfl
  | cons x xs ih => simp only [hexOf, List.length_cons, ih]; omega

/-- the id has exactly the requested length -/
theorem idOf_length (idLen : Nat) (b : List Nat) (h : b.length = bufLen idLen) :
    (idOf idLen b).length = idLen := by
  simp only [idOf, List.length_take, hexOf_length, h, bufLen]
  omega

theorem hexDigit_lower {n : Nat} (h : n < 16) : isLowerHex (hexDigit n) = true := by
  simp only [hexDigit, isLowerHex]
  split <;> simp <;> omega

theorem hexOf_lower (b : List Nat) : ∀ c ∈ hexOf b, isLowerHex c = true := by
  induction b with
  | nil => intro c h; cases h
  | cons x xs ih =>
    intro c h
    simp only [hexOf, List.mem_cons] at h
    rcases h with h | h | h
    · subst h; exact hexDigit_lower (Nat.mod_lt _ (by omega))
    · subst h; exact hexDigit_lower (Nat.mod_lt _ (by omega))
    · exact ih c h

/-- every character of an id is a lower-case hex digit -/
theorem idOf_lower (idLen : Nat) (b : List Nat) : ∀ c ∈ idOf idLen b, isLowerHex c = true :=
  fun c h => hexOf_lower b c (List.mem_of_mem_take h)

/-- RandID's result is a 16-hex-character string whenever the block has the length of the buffer -/
theorem idOf_isHex16 (b : List Nat) (h : b.length = bufLen 16) : isHex16 (idOf 16 b) = true := by
  simp only [isHex16, Bool.and_eq_true, beq_iff_eq, List.all_eq_true]
  exact ⟨idOf_length 16 b h, idOf_lower 16 b⟩

theorem hexDigit_inj {a b : Nat} (ha : a < 16) (hb : b < 16) (h : hexDigit a = hexDigit b) : a = b := by
  simp only [hexDigit] at h
  split at h <;> split at h <;> omega

theorem hexOf_take (b : List Nat) (k : Nat) : (hexOf b).take (2 * k) = hexOf (b.take k) := by
  induction b generalizing k with
  | nil => simp [hexOf]
  | cons x xs ih =>
    cases k with
    | zero => simp [hexOf]
    | succ k =>
      have : 2 * (k + 1) = (2 * k) + 1 + 1 := by omega
      simp only [this, hexOf, List.take_succ_cons, ih]

/-- `%x` loses nothing: different byte strings have different hex strings -/
theorem hexOf_inj : ∀ (a b : List Nat), (∀ x ∈ a, x < 256) → (∀ x ∈ b, x < 256) → hexOf a = hexOf b → a = b
  | [], [], _, _, _ => rfl
  | [], _ :: _, _, _, h => by simp [hexOf] at h
  | _ :: _, [], _, _, h => by simp [hexOf] at h
  | x :: xs, y :: ys, ha, hb, h => by
    simp only [hexOf, List.cons.injEq] at h
    obtain ⟨h1, h2, h3⟩ := h
    have hx : x < 256 := ha x (by simp)
    have hy : y < 256 := hb y (by simp)
    have e1 := hexDigit_inj (Nat.mod_lt _ (by omega)) (Nat.mod_lt _ (by omega)) h1
    have e2 := hexDigit_inj (Nat.mod_lt _ (by omega)) (Nat.mod_lt _ (by omega)) h2
    have exy : x = y := by omega
    have := hexOf_inj xs ys (fun z hz => ha z (by simp [hz])) (fun z hz => hb z (by simp [hz])) h3
    rw [exy, this]

/-- **an id of 2k characters IS the first k bytes of the block**: two calls return the same id only if
    the blocks crypto/rand delivered to them agree on their first k bytes (k = 8, i.e. 64 bits, for RandID) -/
theorem idOf_inj (k : Nat) (a b : List Nat) (ha : ∀ x ∈ a, x < 256) (hb : ∀ x ∈ b, x < 256)
    (h : idOf (2 * k) a = idOf (2 * k) b) : a.take k = b.take k := by
  simp only [idOf, hexOf_take] at h
  exact hexOf_inj _ _ (fun x hx => ha x (List.mem_of_mem_take hx)) (fun x hx => hb x (List.mem_of_mem_take hx)) h

/-! ### several calls in flight -/

inductive Ev
  | read (i : Nat) (block : List Nat)   -- call i: `rand.Read(b)` returns, the buffer holds `block`
  | format (i : Nat)                    -- call i: `id = fmt.Sprintf("%x", b); return id[:idLen]`
deriving DecidableEq, Repr

structure PSt where
  /-- `priv`: the buffer call i made and filled.  shared: `some []` = call i holds a slice of the pool -/
  buf : Tbl (Option (List Nat)) := {}
  out : Tbl (Option Str) := {}
  /-- a buffer all calls share (only used when `priv = false`) -/
  pool : List Nat := []

def pstep (priv : Bool) (idLen : Nat) (S : PSt) : Ev → PSt
  | .read i block =>
    if priv then { S with buf := S.buf.set i (some block) }
    else { S with buf := S.buf.set i (some []), pool := block }
  | .format i =>
    match S.buf.get i with
    | none => S           -- program order: a call formats only after its read
    | some b => { S with out := S.out.set i (some (idOf idLen (if priv then b else S.pool))) }

/-- any interleaving of the reads and formats of any number of calls -/
def prun (priv : Bool) (idLen : Nat) (S : PSt) (es : List Ev) : PSt := es.foldl (pstep priv idLen) S

/-- what has happened so far explains the state: buffers hold blocks their own call read, results are
    the ids of blocks their own call read -/
def Explains (idLen : Nat) (es : List Ev) (S : PSt) : Prop :=
  (∀ i b, S.buf.get i = some b → Ev.read i b ∈ es) ∧
  (∀ i s, S.out.get i = some s → ∃ b, Ev.read i b ∈ es ∧ s = idOf idLen b)

theorem explains_step (idLen : Nat) (pre : List Ev) (S : PSt) (e : Ev) (h : Explains idLen pre S) :
    Explains idLen (pre ++ [e]) (pstep true idLen S e) := by
  obtain ⟨h1, h2⟩ := h
  cases e with
  | read j block =>
    refine ⟨?_, ?_⟩
    · intro i b hb
      simp only [pstep, if_true, Tbl.get_set] at hb
      split at hb
      · rename_i e; subst e; cases hb; simp
      · exact List.mem_append_left _ (h1 i b hb)
    · intro i s hs
      simp only [pstep, if_true] at hs
      obtain ⟨b, hb, e⟩ := h2 i s hs
      exact ⟨b, List.mem_append_left _ hb, e⟩
  | format j =>
    simp only [pstep]
    cases hj : S.buf.get j with
    | none =>
      exact ⟨fun i b hb => List.mem_append_left _ (h1 i b hb),
             fun i s hs => by obtain ⟨b, hb, e⟩ := h2 i s hs; exact ⟨b, List.mem_append_left _ hb, e⟩⟩
    | some bj =>
      refine ⟨fun i b hb => List.mem_append_left _ (h1 i b hb), ?_⟩
      intro i s hs
      simp only [if_true, Tbl.get_set] at hs
      split at hs
      · rename_i e; subst e; cases hs
        exact ⟨bj, List.mem_append_left _ (h1 _ bj hj), rfl⟩
      · obtain ⟨b, hb, e⟩ := h2 i s hs
        exact ⟨b, List.mem_append_left _ hb, e⟩

theorem explains_run (idLen : Nat) (es : List Ev) : ∀ (pre : List Ev) (S : PSt), Explains idLen pre S →
    Explains idLen (pre ++ es) (prun true idLen S es) := by
  induction es with
  | nil => intro pre S h; simpa [prun] using h
  | cons e es ih =>
    intro pre S h
    have := ih (pre ++ [e]) (pstep true idLen S e) (explains_step idLen pre S e h)
    simpa [prun, List.append_assoc] using this

theorem explains_init (idLen : Nat) : Explains idLen [] {} := by
  refine ⟨?_, ?_⟩ <;> intro i x h <;> simp [Tbl.get, Sess.look] at h

/-- **with private buffers every call returns the id of a block that this very call read** — under
    every interleaving of the reads and formats of any number of concurrent calls -/
theorem private_formats_own_draw (idLen : Nat) (es : List Ev) (i : Nat) (s : Str)
    (h : (prun true idLen {} es).out.get i = some s) : ∃ b, Ev.read i b ∈ es ∧ s = idOf idLen b := by
  have := (explains_run idLen es [] {} (explains_init idLen)).2 i s
  simpa using this h

/-- the shared-pool variant does not have that property: call 1 reads `a`, call 2 reads `b` into the
    same storage, then both format — both return the id of `b` -/
theorem shared_pool_witness :
    let a := [1, 2, 3, 4, 5, 6, 7, 8, 9]
    let b := [11, 12, 13, 14, 15, 16, 17, 18, 19]
    let S := prun false 16 {} [.read 1 a, .read 2 b, .format 1, .format 2]
    S.out.get 1 = S.out.get 2 ∧ S.out.get 1 = some (idOf 16 b) ∧ idOf 16 a ≠ idOf 16 b := by decide

end RandID
end Frp
