import Frp.Gen.Flags
import Frp.Model.ProxyMsg
/-
  Command-line flags: what parsing an argv does to the configuration structs the flags are bound to.

  Go sources mirrored here:
    pkg/config/flags.go         the registrations themselves are *regenerated* (`Frp/Gen/Flags.lean`);
                                WordSepNormalizeFunc; BandwidthQuantityFlag.Set, PortsRangeSliceFlag.Set,
                                BoolFuncFlag.Set
    cmd/frpc/sub/proxy.go       which register functions one command carries (client common + proxy;
                                the visitor sub-command: visitor + inherited client common)
    cmd/frps/root.go            RegisterServerConfigFlags
    spf13/pflag (third party)   value syntax of the flag kinds used: string, int/int64
                                (strconv.ParseInt(s, 0, 64)), bool (strconv.ParseBool), stringSlice
                                (one CSV record; first Set replaces, later Sets append), stringToString
                                (`k=v` / CSV of `k=v`; first Set replaces, later Sets merge); argv forms
                                `--name=value`, `--name value`, `--name` (bools), `-x=value`, `-x value`

  A configuration struct is a `Rec Str` (field path → Value).  Domain: values outside the modelled
  fragment (CSV quoting, non-decimal integer literals, bare non-boolean flags that are not last) are
  answered `unsupported` and skipped by the driver.
-/
namespace Frp
namespace Flags
open Gen.Flags Gen.ProxyMsg ProxyMsg ConfNum

/-- `WordSepNormalizeFunc` -/
def normName (s : Str) : Str := s.map fun c => if c = normFrom then normTo else c

/-- a registration together with the record key its target lives under -/
structure Bound where
  reg : Reg
  key : Str
  deriving DecidableEq, Repr

def clientPrefix : Str := [67, 108, 105, 101, 110, 116, 46]       -- "Client."

def bindPlain (rs : List Reg) : List Bound := rs.map fun r => ⟨r, r.target⟩
def bindClient (rs : List Reg) : List Bound := rs.map fun r => ⟨r, clientPrefix ++ r.target⟩

/-- RegisterProxyFlags for a configurer of type `t`: base, domain (if the case asks for it), own -/
def proxyRegs (t : PT) : List Reg := proxyBase ++ (if proxyUsesDomain t then domain else []) ++ proxyTyped t

/-- registrations that exist under the given options (WithSSHMode drops the guarded ones) -/
def active (ssh : Bool) (bs : List Bound) : List Bound := bs.filter fun b => !ssh || b.reg.ssh

/-- the command `frpc <type>` (cmd/frpc/sub/proxy.go init; pkg/ssh uses the same pair with WithSSHMode) -/
def proxyCmd (t : PT) (ssh : Bool) : List Bound := active ssh (bindClient clientCommon ++ bindPlain (proxyRegs t))

/-- the sub-command `frpc <type> visitor`: its own flags plus the inherited persistent ones -/
def visitorCmd : List Bound := bindPlain visitorBase ++ (bindClient clientCommon).filter (·.reg.persistent)

/-- `frps` -/
def serverCmd : List Bound := bindPlain server

/-! ## values -/

inductive PV
  | ok (v : Value)
  | keep                        -- accepted, the bound variable is left as it is
  | err
  | unsupported
  deriving DecidableEq, Repr

def underscore : Nat := 95
def quote : Nat := 34
def eqSign : Nat := 61

/-- `strconv.ParseInt(s, 0, 64)` on the fragment where base 0 means base 10: no underscore and no
    leading zero in front of another digit -/
def parseInt0 (s : Str) : PV :=
  let body := match s with
    | c :: cs => if c = plus || c = dash then cs else s
    | [] => []
  if s.contains underscore then .unsupported
  else match body with
    | 48 :: _ :: _ => .unsupported          -- 0x…, 0b…, 0o…, octal
    | _ => match parseInt s with
      | some n => .ok (.int n)
      | none => .err

def sTrue : List Str := [[49], [116], [84], [84, 82, 85, 69], [116, 114, 117, 101], [84, 114, 117, 101]]
def sFalse : List Str := [[48], [102], [70], [70, 65, 76, 83, 69], [102, 97, 108, 115, 101], [70, 97, 108, 115, 101]]

/-- `strconv.ParseBool` -/
def parseBool (s : Str) : Option Bool :=
  if sTrue.contains s then some true else if sFalse.contains s then some false else none

/-- one CSV record without quoting: the modelled fragment has no `"`, CR or LF -/
def csvPlain (s : Str) : Bool := !(s.contains quote || s.contains 10 || s.contains 13)

def curStrs : Value → List Str
  | .strs l => l
  | _ => []

def curMap : Value → List (Str × Str)
  | .smap m => m
  | _ => []

/-- insert into an association list kept sorted by key (bytewise), replacing an equal key -/
def insertSorted (k v : Str) : List (Str × Str) → List (Str × Str)
  | [] => [(k, v)]
  | (k', v') :: rest =>
    if k = k' then (k, v) :: rest
    else if Str.lt k k' then (k, v) :: (k', v') :: rest
    else (k', v') :: insertSorted k v rest

/-- `strings.SplitN(pair, "=", 2)`: none when there is no "=" -/
def splitPair : Str → Option (Str × Str)
  | [] => none
  | c :: cs => if c = eqSign then some ([], cs) else (splitPair cs).map fun (k, v) => (c :: k, v)

def pairsOf : List Str → Option (List (Str × Str))
  | [] => some []
  | p :: ps => match splitPair p, pairsOf ps with
    | some kv, some rest => some (kv :: rest)
    | _, _ => none

/-- the argument of a `default` value of kind `k` as the register call writes it -/
def defaultValue (k : Kind) (d : Str) : Value :=
  match k with
  | .str => .str d
  | .int | .int64 => match parseInt d with | some n => .int n | none => .zero
  | .bool | .boolPtr => .bool (d = [116, 114, 117, 101])
  | .strSlice => .strs []        -- `[]string{}`: the bound variable is set to the (non-nil) default
  | .strMap => .zero             -- nil
  | .bandwidth | .portsRange | .boolFunc => .zero

/-- `Value.Set(s)` of a flag of kind `k` whose bound variable currently holds `cur`; `changed` = this
    flag was set before on this command line.  `parsesArg` = how BoolFuncFlag.Set treats its argument
    (`false`: as the code stands, `true`: what the flag is documented to do). -/
def setValue (k : Kind) (parsesArg : Bool) (cur : Value) (changed : Bool) (s : Str) : PV :=
  match k with
  | .str => .ok (.str s)
  | .int | .int64 => parseInt0 s
  | .bool | .boolPtr => match parseBool s with | some b => .ok (.bool b) | none => .err
  | .strSlice =>
    if !csvPlain s then .unsupported
    else
      let items := if s = [] then [] else Str.splitOn comma s
      .ok (.strs (if changed then curStrs cur ++ items else items))
  | .strMap =>
    if !csvPlain s then .unsupported
    else
      let n := (s.filter (· = eqSign)).length
      if n = 0 then .err
      else
        let pieces := if n = 1 then [s] else Str.splitOn comma s
        match pairsOf pieces with
        | none => .err
        | some kvs => .ok (.smap (kvs.foldl (fun m (k, v) => insertSorted k v m) (if changed then curMap cur else [])))
  | .bandwidth =>
    match parseBW s with
    | .ok s' b => .ok (.bw s' b)
    | .empty => .keep
    | .err => .err
    | .unsupported => .unsupported
  | .portsRange =>
    match parseRanges s with
    | some rs => .ok (.str (printRanges rs))     -- observed through PortsRangeSlice.String
    | none => .err
  | .boolFunc =>
    if parsesArg then (match parseBool s with | some true => .ok (.bool true) | some false => .keep | none => .err)
    else .keep                                   -- f.v stays false: FalseFunc (nil) branch

/-! ## argv -/

inductive Form
  | eq       -- --name=value
  | sp       -- --name value
  | bare     -- --name
  | shEq     -- -x=value
  | shSp     -- -x value
  deriving DecidableEq, Repr

structure Arg where
  form : Form
  name : Str
  val : Str
  deriving DecidableEq, Repr

def isShort : Form → Bool
  | .shEq | .shSp => true
  | _ => false

def isBoolKind : Kind → Bool
  | .bool | .boolPtr => true
  | _ => false

/-- flag lookup: long names through the normalisation function, shorthands literally -/
def findBound (bs : List Bound) (a : Arg) : Option Bound :=
  if isShort a.form then (if a.name = [] then none else bs.find? fun b => b.reg.short = a.name)
  else bs.find? fun b => normName b.reg.name = normName a.name

structure St where
  cfg : Rec Str
  changed : List Str          -- keys of the flags set so far

/-- the structs right after registration: every registered flag with a default has written it -/
def initRec (bs : List Bound) : Rec Str :=
  bs.foldl (fun r b => match b.reg.kind with
    | .bandwidth | .portsRange | .boolFunc | .strMap => r
    | k => r.set b.key (defaultValue k b.reg.dflt)) Rec.empty

inductive Res
  | ok (r : Rec Str)
  | err
  | unsupported (why : String)

/-- key of a boolFunc flag's target and of the local struct it publishes: ("WebServer.TLS", "local:webServerTLS") -/
def localKey (target : Str) : Str := [108, 111, 99, 97, 108, 58] ++ target   -- "local:" ++ …

def step (bs : List Bound) (parsesArg : Bool) (last : Bool) (st : St) (a : Arg) : Except Res St :=
  match findBound bs a with
  | none => .error .err
  | some b =>
    let k := b.reg.kind
    -- the text handed to Value.Set
    let txt : Except Res Str :=
      match a.form with
      | .eq => .ok a.val
      | .sp | .shSp => if isBoolKind k then .error (.unsupported "separate value after a boolean flag") else .ok a.val
      | .shEq => if isBoolKind k then .error (.unsupported "shorthand boolean") else .ok (if a.val = [] then [eqSign] else a.val)
      | .bare =>
        if isBoolKind k then .ok [116, 114, 117, 101]
        else if last then .error .err else .error (.unsupported "bare non-boolean flag that is not last")
    match txt with
    | .error e => .error e
    | .ok s =>
      match setValue k parsesArg (st.cfg.get b.key) (st.changed.contains b.key) s with
      | .ok v => .ok ⟨st.cfg.set b.key v, b.key :: st.changed⟩
      | .keep => .ok ⟨st.cfg, b.key :: st.changed⟩
      | .err => .error .err
      | .unsupported => .error (.unsupported "flag value outside the modelled fragment")

def runFrom (bs : List Bound) (parsesArg : Bool) : St → List Arg → Res
  | st, [] => .ok st.cfg
  | st, a :: rest =>
    match step bs parsesArg rest.isEmpty st a with
    | .ok st' => runFrom bs parsesArg st' rest
    | .error e => e

/-- `cmd.ParseFlags(argv)` on a freshly registered command -/
def run (bs : List Bound) (parsesArg : Bool) (args : List Arg) : Res :=
  runFrom bs parsesArg ⟨initRec bs, []⟩ args

/-- read a field of the struct.  A path below the target of a boolFunc flag (`WebServer.TLS.CertFile`)
    is visible only once the flag has published its local struct. -/
def readKey (bs : List Bound) (r : Rec Str) (k : Str) : Value :=
  match bs.find? (fun b => b.reg.kind = .boolFunc && (b.key ++ [Str.dot]).isPrefixOf k) with
  | some b => if r.get b.key = .bool true then r.get (b.reg.dflt ++ k.drop b.key.length) else .zero
  | none => r.get k

/-! ## what the registered command reports about itself (pflag.Flag.Value.Type(), Flag.DefValue) -/

def typeText : Kind → String
  | .str | .bandwidth | .portsRange => "string"     -- BandwidthQuantityFlag.Type / PortsRangeSliceFlag.Type
  | .int => "int"
  | .int64 => "int64"
  | .bool | .boolPtr | .boolFunc => "bool"          -- BoolFuncFlag.Type
  | .strSlice => "stringSlice"
  | .strMap => "stringToString"

/-- `Value.String()` right after registration -/
def defText (k : Kind) (d : Str) : Str :=
  match k with
  | .strSlice | .strMap => [91, 93]                 -- "[]"
  | .bandwidth | .portsRange => []                  -- String() of the zero quantity / empty slice
  | .boolFunc => [102, 97, 108, 115, 101]           -- strconv.FormatBool(f.v)
  | _ => d

def hexDigitN (n : Nat) : Char := if n < 10 then Char.ofNat (48 + n) else Char.ofNat (87 + n)
def hexText (s : Str) : String := String.ofList (s.flatMap fun b => [hexDigitN (b / 16), hexDigitN (b % 16)])

/-- `name|shorthand|type|hex(default)` -/
def usageItem (b : Bound) : String :=
  Str.toString (normName b.reg.name) ++ "|" ++ Str.toString b.reg.short ++ "|" ++ typeText b.reg.kind ++ "|" ++
    hexText (defText b.reg.kind b.reg.dflt)

end Flags
end Frp
