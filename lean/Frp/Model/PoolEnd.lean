import Frp.Model.Pool
import Frp.Gen.PoolFacts
/-
  Model of the END of a session's work-connection pool (C11), as a small-step system over the steps of

    server/control.go   (*Control).worker           — the part after `<-ctl.msgDispatcher.Done()` that touches
                                                      ctl.mu / ctl.workConnCh, AS A PROGRAM (`List WI`): the
                                                      program of the real source is REGENERATED on every run
                                                      (translate/gen_poolfacts.go → Frp/Gen/PoolFacts.lean)
                        (*Control).RegisterWorkConn — non-blocking send inside `select … default`, with recover
                        (*Control).GetWorkConn      — a receive
    server/service.go   handleConnection            — closes the connection when registration reports an error
    any other goroutine that takes ctl.mu (RegisterProxy / CloseProxy): `otherLock` / `otherUnlock`

  in ALL interleavings.  State = (channel open/closed, buffered connections, owner of ctl.mu, what the worker still
  has to do, what became of every connection ever offered).  One label = one atomic action: one channel
  operation (Go channel operations are atomic with respect to each other and to `close`), one mutex
  operation.  The two drain loops are NOT atomic: each round of `for c := range ch` / of the `select` loop is a
  step of its own, so offers and takes interleave with a running drain.

  (`Frp.Pool` — Model/Pool.lean — has the teardown as the fixed label order closePool → drain; this model is
  what ties that order to the source and lets every other order be examined.)
-/
namespace Frp
namespace PoolEnd
open Pool (Tbl)

/-- one pool-relevant step of `worker()` -/
inductive WI
  | lock         -- ctl.mu.Lock()
  | unlock       -- ctl.mu.Unlock()  (a deferred one is listed last)
  | closeCh      -- close(ctl.workConnCh)
  | rangeDrain   -- for c := range ctl.workConnCh { c.Close() }: blocks while the channel is open and empty
  | nbDrain      -- for { select { case c, ok := <-ctl.workConnCh: …c.Close(); default: return } }: never blocks
  | unknown      -- a statement shape the translator does not know: nothing is claimed
deriving DecidableEq, Repr

def WI.parse (s : String) : WI :=
  if s = "lock" then .lock else if s = "unlock" then .unlock else if s = "close" then .closeCh
  else if s = "range" then .rangeDrain else if s = "nbdrain" then .nbDrain else .unknown

/-- owner of ctl.mu -/
inductive Mu
  | free | worker | other
deriving DecidableEq, Repr

/-- what became of a work connection that was offered -/
inductive C
  | pooled    -- sitting in workConnCh
  | handed    -- received by GetWorkConn: a user connection's handler owns it (Frp.Pool goes on from there)
  | closed    -- closed by the drain, or by the caller of RegisterWorkConn after an error
  | limbo     -- open, in no channel, owned by nobody
deriving DecidableEq, Repr

/-- the shape of the registration path -/
structure Cfg where
  recoverErr : Bool   -- the send's panic on a closed channel is recovered into an error AND the caller closes on error
deriving DecidableEq, Repr

structure St where
  cap : Nat := 10
  closed : Bool := false      -- close(ctl.workConnCh) has happened
  buf : List Nat := []        -- buffered connections, head = next to be received
  mu : Mu := .free
  rest : List WI := []        -- what the worker still has to do
  c : Tbl C := {}
deriving Repr

def init (cap : Nat) (prog : List WI) : St := { cap := cap, rest := prog }

inductive Label
  | offer (c : Nat)   -- one call of RegisterWorkConn (with its caller's reaction to the result)
  | take              -- one successful receive of GetWorkConn
  | otherLock         -- some other goroutine takes ctl.mu
  | otherUnlock
  | worker            -- the next step of worker()
deriving DecidableEq, Repr

inductive Res
  | none | pooled | refused | closedErr | limbo | got (c : Nat) | drained (c : Nat)
deriving DecidableEq, Repr

def step (cfg : Cfg) (s : St) : Label → Option (St × Res)
  | .offer c =>
    if (s.c.get c).isSome then none
    else if s.closed then
      -- send on a closed channel panics; recovered: ErrCtlClosed ⇒ handleConnection closes
      if cfg.recoverErr then some ({ s with c := s.c.set c .closed }, .closedErr)
      else some ({ s with c := s.c.set c .limbo }, .limbo)
    else if s.buf.length < s.cap then
      some ({ s with buf := s.buf ++ [c], c := s.c.set c .pooled }, .pooled)
    else
      -- `default:` "work connection pool is full, discarding" ⇒ error ⇒ handleConnection closes
      some ({ s with c := s.c.set c .closed }, .refused)
  | .take =>
    -- a receive yields the buffered connections first, also after close
    match s.buf with
    | c :: r => some ({ s with buf := r, c := s.c.set c .handed }, .got c)
    | [] => none
  | .otherLock => if s.mu = .free then some ({ s with mu := .other }, .none) else none
  | .otherUnlock => if s.mu = .other then some ({ s with mu := .free }, .none) else none
  | .worker =>
    match s.rest with
    | [] => none
    | .lock :: tl => if s.mu = .free then some ({ s with mu := .worker, rest := tl }, .none) else none
    | .unlock :: tl => if s.mu = .worker then some ({ s with mu := .free, rest := tl }, .none) else none
    | .closeCh :: tl =>
      -- close of a closed channel panics in a goroutine without recover: not enabled
      if s.closed then none else some ({ s with closed := true, rest := tl }, .none)
    | .rangeDrain :: tl =>
      match s.buf with
      | c :: r => some ({ s with buf := r, c := s.c.set c .closed }, .drained c)
      | [] => if s.closed then some ({ s with rest := tl }, .none) else none
    | .nbDrain :: tl =>
      match s.buf with
      | c :: r => some ({ s with buf := r, c := s.c.set c .closed }, .drained c)
      | [] => some ({ s with rest := tl }, .none)
    | .unknown :: _ => none

def run (cfg : Cfg) : St → List Label → Option St
  | s, [] => some s
  | s, l :: ls => match step cfg s l with
    | none => none
    | some (s', _) => run cfg s' ls

inductive Reach (cfg : Cfg) (cap : Nat) (prog : List WI) : St → Prop
  | init : Reach cfg cap prog (init cap prog)
  | step {s s' l r} : Reach cfg cap prog s → step cfg s l = some (s', r) → Reach cfg cap prog s'

/-- THE CONDITION on the worker's program: a drain comes after the `close` (before it, a blocking drain never
    ends and a non-blocking one proves nothing: the channel still takes connections).
    `closed` = the channel is closed when the program starts. -/
def willDrain : Bool → List WI → Bool
  | _, [] => false
  | true, .rangeDrain :: _ => true
  | true, .nbDrain :: _ => true            -- on a closed channel the non-blocking loop ends only when it is empty
  | false, .rangeDrain :: _ => false       -- blocks for ever on the open channel once it is empty
  | false, .closeCh :: tl => willDrain true tl
  | true, .closeCh :: _ => false           -- double close: panic
  | _, .unknown :: _ => false
  | c, _ :: tl => willDrain c tl

/-- the worker runs through its program when nobody else holds the mutex for ever: lock discipline, one
    close, `range` only on the closed channel, no unknown step.  `held` = the worker holds ctl.mu. -/
def runsThrough : Bool → Bool → List WI → Bool
  | _, h, [] => !h
  | c, false, .lock :: tl => runsThrough c true tl
  | c, true, .unlock :: tl => runsThrough c false tl
  | false, h, .closeCh :: tl => runsThrough true h tl
  | true, h, .rangeDrain :: tl => runsThrough true h tl
  | c, h, .nbDrain :: tl => runsThrough c h tl
  | _, _, _ => false

/-- the program and the registration shape of the frp source tree (regenerated) -/
def sourceProg : List WI := Gen.PoolFacts.workerPool.map WI.parse

def sourceCfg : Cfg :=
  ⟨Gen.PoolFacts.registerRecoverErr && Gen.PoolFacts.serviceClosesOnErr⟩

/-- every connection that was offered has been handed to a user connection or closed -/
def noneParked (s : St) : Bool :=
  s.c.l.all (fun e => match s.c.get e.1 with
    | some .handed => true
    | some .closed => true
    | _ => false)

end PoolEnd
end Frp
