import Frp.Model.CloseGraph
/-
  C10 — "wrapped transports" among the resources a proxy holds: the work connections frps hands to an
  `http` proxy (one per exchange, `HTTPProxy.GetRealConn`) and to a `udp` proxy (one at a time,
  the loop in `UDPProxy.Run`).  These two proxy types keep NO handle on the raw work connection:
  all they (or the http.Transport / io.Join behind them) hold is the TOP of the wrapper stack, so
  the work connection is released iff `Close()` on the top propagates to it.  (The tcp-like types
  also `defer workConn.Close()` the raw connection in `handleUserTCPConnection`.)

    server/proxy/http.go  GetRealConn   GetWorkConnFromPool (ContextConn) ; WithEncryption ; WithCompression ;
                                        limiter WrapReadWriteCloser ; WrapReadWriteCloserToConn ; WrapStatsConn
                                        → `CloseGraph.httpRealConnGraph` (C01's, re-used)
    server/proxy/udp.go   Run           GetWorkConnFromPool (ContextConn) ; WithEncryption ; WithCompression ;
                                        limiter WrapReadWriteCloser ; WrapReadWriteCloserToConn
                                        → `udpWorkConnGraph` (no StatsConn: the top is NOT idempotent when
                                          no guarded wrapper is present)

  Who calls `Close()` on the top, and how often:

    http   the exchange ends: http.Transport closes the connection (response `Connection: close`, body
           delimited by EOF, backend closed an idle connection, request cancelled by the user),
           `httputil.ReverseProxy.handleUpgradeResponse` (101: deferred `backConn.Close()`), `io.Join`
           of `connectHandler` (both copiers close both ends)            — k ≥ 1 calls
    udp    reader goroutine on a read error (`conn.Close()`), sender on a write error, the loop of `Run`
           when a replacement arrives (`pxy.workConn.Close()`), `UDPProxy.Close` (`pxy.workConn.Close()`)
                                                                        — k ≥ 1 calls

  The lifecycle below is the bookkeeping of those calls per work connection; what reaches the work
  connection is `CloseGraph.closeCount graph k`.
-/
namespace Frp
namespace WorkConns
open Layers CloseGraph

inductive PKind | http | udp
  deriving DecidableEq, Repr

/-- `UDPProxy.Run`: the stack around one work connection.  `fixed = false`: the limiter's closeFn reads
    a variable that was reassigned to the limiter wrapper itself. -/
def udpWorkConnGraph (o : Opts) (fixed : Bool := limiterCloseIsFixed) : Graph :=
  let b := B.start.contextConn                                  -- GetWorkConnFromPool: NewContextConn
  let b := b.wrapIf o.enc true (fun b => .node b.cur)            -- WithEncryption(rwc)
  let b := b.wrapIf o.comp true (fun b => .node b.cur)           -- WithCompression(rwc)
  let b := b.wrapIf o.limSrv true (fun b => if fixed then .node b.cur else .var 0)
  let rwcFinal := b.cur
  let b := b.wrap false (.node b.cur)                            -- WrapReadWriteCloserToConn(rwc, workConn)
  { nodes := b.nodes, vars := [rwcFinal], top := b.cur }

def graphOf (kind : PKind) (o : Opts) (fixed : Bool := limiterCloseIsFixed) : Graph :=
  match kind with
  | .http => httpRealConnGraph o fixed
  | .udp => udpWorkConnGraph o fixed

/-- is some close-once wrapper between the top and the work connection? (http: always, the StatsConn) -/
def guarded (kind : PKind) (o : Opts) : Bool :=
  match kind with
  | .http => true
  | .udp => !(serverUdpStack o).isEmpty

/-- `Close()` calls reaching the work connection after `tops` calls on the top -/
def reached (kind : PKind) (o : Opts) (tops : Nat) (fixed : Bool := limiterCloseIsFixed) : Nat :=
  (closeCount (graphOf kind o fixed) tops).getD 0

/-! ### lifecycle -/

/-- a proxy in `ctl.proxies` -/
structure Pxy where
  name : Str
  sid  : Nat
  kind : PKind
  o    : Opts
  deriving DecidableEq, Repr

/-- a work connection that was handed to a proxy (StartWorkConn sent) -/
structure WConn where
  pxy  : Str
  sid  : Nat
  kind : PKind
  o    : Opts
  cur  : Bool      -- udp: it is `pxy.workConn` of a live proxy;  http: never (an exchange is one step)
  tops : Nat       -- `Close()` calls made on the top of its stack so far
  deriving DecidableEq, Repr

structure WState where
  pxys  : List Pxy := []
  conns : List WConn := []      -- newest first
  deriving Repr

def WState.find (s : WState) (name : Str) : Option Pxy := s.pxys.find? (fun p => p.name = name)

/-- one more `Close()` on the top of every connection selected by `sel` -/
def bump (sel : WConn → Bool) (drop : Bool) (cs : List WConn) : List WConn :=
  cs.map (fun c => if sel c then { c with tops := c.tops + 1, cur := c.cur && !drop } else c)

def isCur (name : Str) (c : WConn) : Bool := c.cur && c.pxy = name

inductive Op
  /-- `RegisterProxy` succeeded (name free) -/
  | reg (sid : Nat) (name : Str) (kind : PKind) (o : Opts)
  /-- http: `GetRealConn` hands out a connection, the exchange ends, the top is closed `k + 1` times -/
  | exchange (name : Str) (k : Nat)
  /-- udp `Run` loop: a work connection arrives; `if pxy.workConn != nil { pxy.workConn.Close() }`; it becomes current -/
  | udpTake (name : Str)
  /-- udp reader / sender: I/O error on the current connection → `conn.Close()`, `k` further times -/
  | udpIOErr (name : Str) (k : Nat)
  /-- `CloseProxy` (own session only) → `UDPProxy.Close`: `pxy.workConn.Close()`; the reader then fails: `k` further closes -/
  | close (sid : Nat) (name : Str) (k : Nat)
  /-- `Control.worker`: every proxy of the session is closed -/
  | endsess (sid : Nat) (k : Nat)
  deriving Repr

def WState.apply (s : WState) : Op → WState
  | .reg sid name kind o =>
    if (s.find name).isSome then s else { s with pxys := ⟨name, sid, kind, o⟩ :: s.pxys }
  | .exchange name k =>
    match s.find name with
    | some p => if p.kind = .http then
        { s with conns := ⟨name, p.sid, .http, p.o, false, k + 1⟩ :: s.conns } else s
    | none => s
  | .udpTake name =>
    match s.find name with
    | some p => if p.kind = .udp then
        { s with conns := ⟨name, p.sid, .udp, p.o, true, 0⟩ :: bump (isCur name) true s.conns } else s
    | none => s
  | .udpIOErr name k =>
    { s with conns := s.conns.map (fun c => if isCur name c then { c with tops := c.tops + 1 + k } else c) }
  | .close sid name k =>
    match s.find name with
    | some p => if p.sid = sid then
        { pxys := s.pxys.filter (fun q => q.name ≠ name)
          conns := s.conns.map (fun c => if isCur name c then { c with tops := c.tops + 1 + k, cur := false } else c) }
      else s
    | none => s
  | .endsess sid k =>
    { pxys := s.pxys.filter (fun q => q.sid ≠ sid)
      conns := s.conns.map (fun c => if c.cur && c.sid = sid then { c with tops := c.tops + 1 + k, cur := false } else c) }

def WState.run (s : WState) (ops : List Op) : WState := ops.foldl WState.apply s

end WorkConns
end Frp
