import Frp.Model.Str
/-
  The text form of `net.IP` as the protocol meets it (`*net.UDPAddr` members of UDPPacket, encoding/json →
  `net.IP.UnmarshalText` / `MarshalText`), Go 1.23:

    net/ip.go        UnmarshalText: "" ⇒ nil IP; else ParseIP → parseIP: netip.ParseAddr, a zone is refused
                     String / MarshalText: 4-in-6 mapped ⇒ dotted quad, else netip Addr.string6
    net/netip        ParseAddr (the first of `.` `:` `%` decides), parseIPv4Fields, parseIPv6, appendTo6

  `parse` = the 16-byte form (`As16`), `canon` = the text `MarshalText` writes for what `UnmarshalText` read.
  Used by the driver as the executable stand-in for the `ipOk` oracle of Model/Dispatcher.lean (the theorems hold
  for every oracle) and for comparing the address a handler received.  Bytes are `Nat`s.
-/
namespace Frp
namespace IPText

def isDigit (b : Nat) : Bool := decide (48 ≤ b) && decide (b ≤ 57)

def hexVal (b : Nat) : Option Nat :=
  if 48 ≤ b ∧ b ≤ 57 then some (b - 48)
  else if 97 ≤ b ∧ b ≤ 102 then some (b - 87)
  else if 65 ≤ b ∧ b ≤ 70 then some (b - 55)
  else none

def decVal (f : Str) : Nat := f.foldl (fun a b => a * 10 + (b - 48)) 0

/-- one octet of `parseIPv4Fields`: at least one digit, digits only, no leading zero ("IPv4 field has octet with
    leading zero": a digit after a lone 0), value ≤ 255 -/
def octet (f : Str) : Option Nat :=
  if !f.isEmpty && f.all isDigit && (decide (f.length = 1) || f.headD 0 != 48) && decide (decVal f ≤ 255)
  then some (decVal f) else none

/-- `parseIPv4Fields`: exactly four octets separated by single dots, nothing else -/
def parseV4 (s : Str) : Option (List Nat) :=
  let fs := Str.splitOn 46 s
  if fs.length = 4 then fs.mapM octet else none

def v4in6 (q : List Nat) : List Nat := [0, 0, 0, 0, 0, 0, 0, 0, 0, 0, 255, 255] ++ q

/-- the loop of `parseIPv6`: `s` the unread text, `ip` the bytes stored so far (`i = ip.length`), `ell` the
    position of the `::`.  Returns the state at the loop's exit (`break` or `i = 16`), `none` = an error return. -/
def v6Loop : Nat → Str → List Nat → Option Nat → Option (Str × List Nat × Option Nat)
  | 0, _, _, _ => none
  | fuel + 1, s, ip, ell =>
    if ip.length ≥ 16 then some (s, ip, ell) else
    let ds := s.takeWhile (fun b => (hexVal b).isSome)
    let rest := s.drop ds.length
    if ds.isEmpty then none                       -- each colon-separated field must have at least one digit
    else if ds.length > 4 then none               -- each group must have 4 or less digits
    else
      let acc := ds.foldl (fun a b => a * 16 + (hexVal b).getD 0) 0
      match rest with
      | 46 :: _ =>                                -- followed by a dot: trailing IPv4, parsed from the group's start
        if ell.isNone && ip.length != 12 then none
        else if ip.length + 4 > 16 then none
        else (parseV4 s).map (fun q => ([], ip ++ q, ell))
      | [] => some ([], ip ++ [acc / 256, acc % 256], ell)
      | 58 :: [] => none                          -- colon must be followed by more characters
      | 58 :: 58 :: r =>
        if ell.isSome then none                   -- multiple ::
        else if r.isEmpty then some ([], ip ++ [acc / 256, acc % 256], some (ip.length + 2))
        else v6Loop fuel r (ip ++ [acc / 256, acc % 256]) (some (ip.length + 2))
      | 58 :: r => v6Loop fuel r (ip ++ [acc / 256, acc % 256]) ell
      | _ => none                                 -- unexpected character, want colon

/-- `parseIPv6` for a text without `%` -/
def parseV6 (s : Str) : Option (List Nat) :=
  let start : Option (Str × List Nat × Option Nat) :=
    match s with
    | 58 :: 58 :: [] => some ([], [], some 0)     -- only the ellipsis
    | 58 :: 58 :: r => v6Loop 10 r [] (some 0)
    | _ => v6Loop 10 s [] none
  match start with
  | none => none
  | some (rest, ip, ell) =>
    if !rest.isEmpty then none                    -- trailing garbage after address
    else if ip.length < 16 then
      match ell with
      | none => none                              -- address string too short
      | some e => some (ip.take e ++ List.replicate (16 - ip.length) 0 ++ ip.drop e)
    else if ell.isSome then none                  -- the :: must expand to at least one field of zeros
    else some ip

/-- `net.ParseIP` as 16 bytes (`none` = nil): the first of `.` `:` `%` decides the family; a zone is refused
    (an empty one by `parseIPv6`, a non-empty one by `parseIP`), so any `%` is an error -/
def parse (s : Str) : Option (List Nat) :=
  if s.contains 37 then none else
  match s.find? (fun b => b == 46 || b == 58) with
  | some 46 => (parseV4 s).map v4in6
  | some 58 => parseV6 s
  | _ => none

/-- `net.IP.UnmarshalText` succeeds: the empty text (nil IP) or a parsable address -/
def ok (s : Str) : Bool := s.isEmpty || (parse s).isSome

def digits (n : Nat) : Str := (toString n).toList.map Char.toNat

def hexDigit (n : Nat) : Nat := if n < 10 then 48 + n else 87 + n

/-- `appendHex`: lower case, no leading zeros -/
def hex16 (n : Nat) : Str :=
  if n ≥ 4096 then [hexDigit (n / 4096), hexDigit (n / 256 % 16), hexDigit (n / 16 % 16), hexDigit (n % 16)]
  else if n ≥ 256 then [hexDigit (n / 256), hexDigit (n / 16 % 16), hexDigit (n % 16)]
  else if n ≥ 16 then [hexDigit (n / 16), hexDigit (n % 16)]
  else [hexDigit n]

def groups : List Nat → List Nat
  | a :: b :: r => (a * 256 + b) :: groups r
  | _ => []

/-- length of the run of zero groups starting at `i` -/
def zeroRun (gs : List Nat) (i : Nat) : Nat := ((gs.drop i).takeWhile (· == 0)).length

/-- `appendTo6`: the first longest run of at least two zero groups is written as `::` -/
def bestRun (gs : List Nat) : Option (Nat × Nat) :=
  (List.range 8).foldl (fun best i =>
    let l := zeroRun gs i
    let bl := match best with | some (_, n) => n | none => 0
    if l ≥ 2 && l > bl then some (i, l) else best) none

def joinColon : List Str → Str
  | [] => []
  | [a] => a
  | a :: r => a ++ [58] ++ joinColon r

def string6 (ip : List Nat) : Str :=
  let gs := groups ip
  match bestRun gs with
  | none => joinColon (gs.map hex16)
  | some (i, l) => joinColon ((gs.take i).map hex16) ++ [58, 58] ++ joinColon ((gs.drop (i + l)).map hex16)

/-- `net.IP.String` of a 16-byte address -/
def render (ip : List Nat) : Str :=
  if ip.take 12 == [0, 0, 0, 0, 0, 0, 0, 0, 0, 0, 255, 255] then
    match ip.drop 12 with
    | [a, b, c, d] => digits a ++ [46] ++ digits b ++ [46] ++ digits c ++ [46] ++ digits d
    | _ => []
  else string6 ip

/-- the text `MarshalText` writes for what `UnmarshalText` read from `s` ("" stays "") -/
def canon (s : Str) : Str :=
  match parse s with
  | some ip => render ip
  | none => s

end IPText
end Frp
