import Frp.Model.HttpAuth
import Frp.Model.Base64
/-
  Model of the credential gate of the web endpoints (property C07), from the header bytes to the handler:

  * `Request.BasicAuth` / `parseBasicAuth` (net/http request.go) on the raw `Authorization` value,
    `encoding/base64` = `Frp/Model/Base64.lean`
  * `HTTPAuthMiddleware.Middleware` (pkg/util/net/http.go): `r.BasicAuth()` + two
    `util.ConstantTimeEqString` on the DECODED user and password
  * `mux.Router.ServeHTTP` / `Router.Match` / `Route.Match` (gorilla/mux v1.8.1) for the router shapes frp
    builds: leaf routes (path template or prefix, optional method list) and one level of sub-routers;
    middlewares wrap a handler only when a route matched without error (`Router.Match`: "Build middleware
    chain if no error was found") — the clean-path redirect, 404 and 405 are answered by the router itself
  * the routers of `NewStaticFilePlugin` (pkg/plugin/client/static_file.go), of the frps dashboard
    (server/dashboard_api.go `registerRouteHandlers`) and of the frpc admin API (client/admin_api.go)
-/
namespace Frp
namespace WebAuth
open Str HttpAuth

/-! ### the Authorization header -/

/-- "Basic " -/
def basicPrefix : Str := [66, 97, 115, 105, 99, 32]

/-- `ascii.EqualFold` (net/http/internal/ascii): same length and bytewise equal after `lower` -/
def equalFold (s t : Str) : Bool := s.length = t.length && s.map lowerB = t.map lowerB

/-- `strings.Cut(cs, ":")` -/
def cutColon : Str → Option (Str × Str)
  | [] => none
  | c :: r => if c = colon then some ([], r) else (cutColon r).map (fun x => (c :: x.1, x.2))

/-- `parseBasicAuth(auth)`: case-insensitive "Basic " prefix, `base64.StdEncoding.DecodeString` of the rest,
    cut at the first ':' -/
def parseBasicAuth (auth : Str) : Option (Str × Str) :=
  if auth.length < 6 || !equalFold (auth.take 6) basicPrefix then none
  else match Base64.decode (auth.drop 6) with
    | none => none
    | some c => cutColon c

/-- `Request.BasicAuth()`; `hdr` = `r.Header.Get("Authorization")` (`none`: no such header) -/
def basicAuth (hdr : Option Str) : Option (Str × Str) :=
  match hdr with
  | none => none
  | some a => if a = [] then none else parseBasicAuth a

/-- `HTTPAuthMiddleware.Middleware` on the raw header: true = `next.ServeHTTP` is called -/
def middlewareHdr (cfg : Creds) (hdr : Option Str) : Bool := middleware cfg (basicAuth hdr)

/-! ### the header on the wire (net/textproto `ReadMIMEHeader`)

  The value of a header line is what follows the colon with leading and trailing SP / HT removed
  (`readContinuedLineSlice` trims the line, `ReadMIMEHeader` trims the left of the value);
  `Header.Get` returns the value of the FIRST line with that (canonicalised) name. -/

def isWsp (c : Nat) : Bool := c = 32 || c = 9

def trimLeft : Str → Str
  | [] => []
  | c :: r => if isWsp c then trimLeft r else c :: r

def trimWsp (s : Str) : Str := (trimLeft (trimLeft s).reverse).reverse

/-- `Header.Get` over the values of the Authorization lines as written, in order -/
def headerGet (lines : List Str) : Option Str := lines.head?.map trimWsp

/-! ### gorilla/mux -/

/-- one piece of a path template: literal text or a variable `{name}` (regexp `[^/]+`) -/
inductive Seg
  | lit (s : Str)
  | var
deriving DecidableEq, Repr

def slash : Nat := 47

/-- template match: `^…$` for `Path`/`HandleFunc` templates, `^…` for `PathPrefix` (`pfx`).
    A variable takes the maximal run of non-'/' bytes: exact for `[^/]+` because in every template used
    the text after a variable starts with '/' or is the end of the pattern. -/
def matchSegs : List Seg → Str → Bool → Bool
  | [], rest, pfx => pfx || rest.isEmpty
  | .lit s :: more, path, pfx => hasPrefix path s && matchSegs more (path.drop s.length) pfx
  | .var :: more, path, pfx =>
    let v := path.takeWhile (fun c => c != slash)
    !v.isEmpty && matchSegs more (path.drop v.length) pfx

structure Route where
  segs    : List Seg
  pfx     : Bool := false             -- PathPrefix
  methods : List Str := []            -- `.Methods(...)`; [] = no method matcher
  h       : Nat                       -- handler id
deriving Repr

/-- `router.NewRoute().Subrouter()` + `subRouter.Use(mw)` (`mw` = uses the auth middleware), or a route
    registered on the router itself -/
inductive Node
  | route (r : Route)
  | sub (mw : Bool) (routes : List Route)
deriving Repr

structure Router where
  mw    : Bool                        -- `router.Use(auth middleware)`
  nodes : List Node
deriving Repr

/-- `Route.Match` of a leaf route (matchers: path regexp, then methodMatcher).  `err` = `match.MatchErr ==
    ErrMethodMismatch` before / after.  A failing path matcher leaves MatchErr alone; a matching one clears
    it; a failing method matcher sets it (`methodMatcher.Match`: exact comparison with `r.Method`). -/
def routeMatch (r : Route) (m path : Str) (err : Bool) : Option Nat × Bool :=
  if !matchSegs r.segs path r.pfx then (none, err)
  else if r.methods.isEmpty || r.methods.contains m then (some r.h, false)
  else (none, true)

/-- the route loop of `Router.Match` -/
def routesMatch : List Route → Str → Str → Bool → Option Nat × Bool
  | [], _, _, err => (none, err)
  | r :: rs, m, p, err =>
    match routeMatch r m p err with
    | (some h, e) => (some h, e)
    | (none, e) => routesMatch rs m p e

/-- the route loop of the top router; a sub-router is a matcher of its (otherwise empty) route: its own
    `Router.Match` wraps the matched handler in ITS middlewares; when nothing matched it returns false with
    MatchErr = ErrMethodMismatch kept, or ErrNotFound which the parent `Route.Match` resets to nil.
    Result: (handler, wrapped by the sub-router's auth middleware), MatchErr = ErrMethodMismatch. -/
def nodesMatch : List Node → Str → Str → Bool → Option (Nat × Bool) × Bool
  | [], _, _, err => (none, err)
  | .route r :: ns, m, p, err =>
    match routeMatch r m p err with
    | (some h, e) => (some (h, false), e)
    | (none, e) => nodesMatch ns m p e
  | .sub mw rs :: ns, m, p, err =>
    match routesMatch rs m p err with
    | (some h, e) => (some (h, mw), e)
    | (none, e) => nodesMatch ns m p e

/-- `path.Clean` of a rooted path: drop empty and "." segments, ".." removes the segment before it (none at
    the root) -/
def cleanSegs : List Str → List Str → List Str
  | [], acc => acc.reverse
  | s :: rest, acc =>
    if s = [] ∨ s = [dot] then cleanSegs rest acc
    else if s = [dot, dot] then cleanSegs rest acc.tail
    else cleanSegs rest (s :: acc)

/-- mux `cleanPath` -/
def cleanPath (p : Str) : Str :=
  if p = [] then [slash] else
  let p := if p.head? = some slash then p else slash :: p
  let np := slash :: joinWith slash (cleanSegs (splitOn slash p) [])
  if p.getLast? = some slash ∧ np ≠ [slash] then np ++ [slash] else np

structure Req where
  method : Str                        -- r.Method as sent (net/http does not fold its case)
  path   : Str                        -- r.URL.Path (percent-decoded)
  hdr    : Option Str                 -- r.Header.Get("Authorization")

inductive Out
  | redirect                          -- 301 to the cleaned path, written by Router.ServeHTTP itself
  | notFound                          -- http.NotFoundHandler()
  | notAllowed                        -- methodNotAllowedHandler(): 405, empty body
  | unauthorized                      -- the middleware's 401 + WWW-Authenticate
  | handler (h : Nat)                 -- the handler of a route runs
deriving DecidableEq, Repr

/-- `Router.ServeHTTP` (skipClean = false, useEncodedPath = false, NotFoundHandler = nil,
    MethodNotAllowedHandler = nil — frp sets none of them) with the auth middleware of `cfg` -/
def serve (R : Router) (cfg : Creds) (q : Req) : Out :=
  if cleanPath q.path ≠ q.path then .redirect else
  match nodesMatch R.nodes q.method q.path false with
  | (some (h, guarded), _) =>
    if (guarded || R.mw) && !middlewareHdr cfg q.hdr then .unauthorized else .handler h
  | (none, true) => .notAllowed
  | (none, false) => .notFound

/-- handlers that can be reached without passing the auth middleware -/
def openOfNodes : List Node → List Nat
  | [] => []
  | .route r :: ns => r.h :: openOfNodes ns
  | .sub mw rs :: ns => (if mw then [] else rs.map (·.h)) ++ openOfNodes ns

def openHandlers (R : Router) : List Nat := if R.mw then [] else openOfNodes R.nodes

/-! ### the routers frp builds -/

def mGET : Str := [71, 69, 84]
def mPOST : Str := [80, 79, 83, 84]
def mPUT : Str := [80, 85, 84]
def mDELETE : Str := [68, 69, 76, 69, 84, 69]

/-- static_file: `prefix` of `NewStaticFilePlugin` -/
def sfPrefix (strip : Str) : Str := if strip ≠ [] then slash :: strip ++ [slash] else [slash]

/-- static_file: `router.Use(auth)`; `router.PathPrefix(prefix).Handler(gzip(StripPrefix(FileServer))).Methods("GET")` -/
def sfRouter (strip : Str) : Router :=
  { mw := true, nodes := [.route { segs := [.lit (sfPrefix strip)], pfx := true, methods := [mGET], h := 1 }] }

def l (x : String) : Seg := .lit (Str.ofString x)

/-- the view routes shared by dashboard and admin API -/
def viewRoutes : List Route :=
  [ { segs := [l "/favicon.ico"], methods := [mGET], h := 20 }
  , { segs := [l "/static/"], pfx := true, methods := [mGET], h := 21 }
  , { segs := [l "/"], h := 22 } ]

/-- frps dashboard (server/dashboard_api.go), `enablePrometheus` = `prom`; handler 0 = /healthz -/
def dashRouter (prom : Bool) : Router :=
  { mw := false
    nodes :=
      [ .route { segs := [l "/healthz"], h := 0 }
      , .sub true
          ((if prom then [{ segs := [l "/metrics"], h := 10 }] else []) ++
           [ { segs := [l "/api/serverinfo"], methods := [mGET], h := 11 }
           , { segs := [l "/api/proxy/", .var], methods := [mGET], h := 12 }
           , { segs := [l "/api/proxy/", .var, l "/", .var], methods := [mGET], h := 13 }
           , { segs := [l "/api/traffic/", .var], methods := [mGET], h := 14 }
           , { segs := [l "/api/proxies"], methods := [mDELETE], h := 15 } ] ++ viewRoutes) ] }

/-- frpc admin API (client/admin_api.go) -/
def adminRouter : Router :=
  { mw := false
    nodes :=
      [ .route { segs := [l "/healthz"], h := 0 }
      , .sub true
          ([ { segs := [l "/api/reload"], methods := [mGET], h := 31 }
           , { segs := [l "/api/stop"], methods := [mPOST], h := 32 }
           , { segs := [l "/api/status"], methods := [mGET], h := 33 }
           , { segs := [l "/api/config"], methods := [mGET], h := 34 }
           , { segs := [l "/api/config"], methods := [mPUT], h := 35 } ] ++ viewRoutes) ] }

/-! ### socks5 plugin

  pkg/plugin/client/socks5.go `NewSocks5Plugin`: `cfg.Credentials = StaticCredentials{Username: Password}` iff
  `Username != "" || Password != ""`; armon/go-socks5 `New`: with Credentials the ONLY method is
  UserPassAuth (2), without it NoAuth (0).  `Server.ServeConn`: version byte, `authenticate` (first offered
  method the server has), `UserPassAuthenticator.Authenticate` (RFC 1929 sub-negotiation,
  `StaticCredentials.Valid`), then the request is read and the target dialled. -/

structure S5Req where
  ver     : Nat                       -- first byte
  methods : List Nat                  -- offered methods
  authVer : Nat                       -- version byte of the user/password sub-negotiation
  user    : Str
  pass    : Str

inductive S5Out
  | closed                            -- unsupported version: connection closed, nothing written
  | noAcceptable                      -- 05 FF
  | closedAfterSelect                 -- 05 02 written, bad sub-negotiation version: closed
  | authFailed                        -- 01 01, closed
  | connected                         -- the CONNECT request is read and the target dialled
deriving DecidableEq, Repr

def s5Protected (cfg : Creds) : Bool := cfg.user ≠ [] || cfg.pass ≠ []

def socks5 (cfg : Creds) (q : S5Req) : S5Out :=
  if q.ver ≠ 5 then .closed else
  let code := if s5Protected cfg then 2 else 0
  if !q.methods.contains code then .noAcceptable
  else if code = 0 then .connected
  else if q.authVer ≠ 1 then .closedAfterSelect
  else if q.user = cfg.user ∧ q.pass = cfg.pass then .connected
  else .authFailed

end WebAuth
end Frp
