import Frp.Model.Sess
/-
  The message dispatcher of a session, as a small-step system, in product with the session bookkeeping
  (property C12).

  pkg/msg/handler.go
    func (d *Dispatcher) Run()      { go d.sendLoop(); go d.readLoop() }
    func (d *Dispatcher) sendLoop() { for { select {
                                        case <-d.doneCh: return                          -- `sendLoopExit`
                                        case m := <-d.sendCh: _ = WriteMsg(d.rw, m) } } } -- `write` (the error is dropped)
    func (d *Dispatcher) readLoop() { for {
                                        m, err := ReadMsg(d.rw)
                                        if err != nil { close(d.doneCh); return }        -- `readErr`
                                        if handler, ok := …; ok { handler(m) } … } }      -- the handler runs INSIDE the loop:
                                                                                         -- `sess (.regExist …)` / `sess (.closeReq …)`
                                                                                         -- up to the label that puts `hp` back to idle
    func (d *Dispatcher) Send(m)    { select { case <-d.doneCh: return io.EOF; case d.sendCh <- m: return nil } }  -- `send`
    func (d *Dispatcher) Done()     { return d.doneCh }
  server/control.go
    worker(): `<-ctl.msgDispatcher.Done()` then the teardown                             -- `workerDone`
    GetWorkConn(): `ctl.msgDispatcher.Send(&msg.ReqWorkConn{})` — called by every proxy of the session for every
                   user / visitor connection, at any time, from goroutines of their own

  `Sess.step … (.dispDone n)` (Model/Sess.lean) ASSUMES what the teardown relies on: the worker passes
  `<-Done()` only when no handler of the session is running.  Here that is not assumed: `workerDone` needs
  nothing but a closed `doneCh`, and who closes `doneCh` is the dispatcher's business, described by two facts
  about the source (`Cfg`, regenerated: Frp/Gen/DispFacts.lean):
    inline        the read loop calls the handler itself (no `go`, no hand-over to another loop), so while a
                  handler runs the read loop is not in `ReadMsg` and cannot see an error
    sendErrStops  the send loop closes `doneCh` when a write fails            (frp: it drops the error)
  For frp's shape the product refines `Sess` (Props/C12Disp.lean); for either other shape it does not (witnesses).
-/
namespace Frp
namespace SessDisp
open Sess

structure Cfg where
  inline : Bool
  sendErrStops : Bool
deriving DecidableEq, Repr

/-- the shape of pkg/msg/handler.go at the pinned commit -/
def Cfg.frp : Cfg := { inline := true, sendErrStops := false }

/-- one dispatcher -/
structure DRec where
  rdRet : Bool := false      -- readLoop has returned
  done : Bool := false       -- doneCh is closed
  sendq : Nat := 0           -- messages in sendCh
  slRet : Bool := false      -- sendLoop has returned
  werrs : Nat := 0           -- ghost: writes that failed
deriving DecidableEq, Repr

instance : Inhabited DRec := ⟨{}⟩

structure St where
  S : Sess.St := {}
  d : Tbl DRec := {}
deriving Repr

def St.dr (D : St) (n : Nat) : DRec := D.d.get n
def St.updD (D : St) (n : Nat) (f : DRec → DRec) : St := { D with d := D.d.set n (f (D.dr n)) }

/-- the labels with which the read loop enters a handler (`handler(m)` after a successful `ReadMsg`) -/
def startsHandler : Sess.Label → Option Nat
  | .regExist n _ => some n
  | .closeReq n _ => some n
  | _ => none

def isDispDone : Sess.Label → Bool
  | .dispDone _ => true
  | _ => false

/-- the read loop of the session whose handler `l` would enter has returned: nobody is there to call it -/
def blocked (D : St) (l : Sess.Label) : Bool :=
  match startsHandler l with
  | some n => (D.dr n).rdRet
  | none => false

inductive Label
  | sess (l : Sess.Label)     -- a label of the session model other than `dispDone`
  | readErr (n : Nat)         -- readLoop: ReadMsg fails → close(doneCh); return
  | send (n : Nat)            -- somebody calls Dispatcher.Send (GetWorkConn's ReqWorkConn, …): the message is queued
  | write (n : Nat)           -- sendLoop takes a message from sendCh and writes it
  | sendLoopExit (n : Nat)    -- sendLoop: `case <-d.doneCh: return`
  | workerDone (n : Nat)      -- worker: `<-ctl.msgDispatcher.Done()` returns
deriving DecidableEq, Repr

/-- the worker has passed `<-Done()`: the teardown begins, whatever the handler is doing -/
def passDone (S : Sess.St) (n : Nat) : Sess.St := S.upd n (fun y => { y with phase := .dispDone })

def step (c : Cfg) (D : St) : Label → Option St
  | .sess l =>
    if isDispDone l then none else
    -- a handler is entered by the read loop only: the loop has not returned (that no other handler runs is
    -- `hp = idle` in `Sess.step`)
    if blocked D l then none else
    (Sess.step D.S l).map (fun S' => { D with S := S' })
  | .readErr n =>
    -- the read loop is in ReadMsg (not inside a handler, if it calls them itself) and the connection is closed
    if (D.S.s n).phase = .running ∧ D.S.closed.get n = true ∧ (D.dr n).rdRet = false ∧
        (c.inline = true → (D.S.s n).hp = .idle) then
      some (D.updD n (fun r => { r with rdRet := true, done := true }))
    else none
  | .send n =>
    if (D.S.s n).phase.started = true ∧ (D.dr n).done = false then
      some (D.updD n (fun r => { r with sendq := r.sendq + 1 }))
    else none
  | .write n =>
    if (D.S.s n).phase.started = true ∧ (D.dr n).slRet = false ∧ 0 < (D.dr n).sendq then
      if D.S.closed.get n = true then
        -- WriteMsg returns an error
        if c.sendErrStops then
          some (D.updD n (fun r => { r with sendq := r.sendq - 1, werrs := r.werrs + 1, done := true, slRet := true }))
        else some (D.updD n (fun r => { r with sendq := r.sendq - 1, werrs := r.werrs + 1 }))
      else some (D.updD n (fun r => { r with sendq := r.sendq - 1 }))
    else none
  | .sendLoopExit n =>
    if (D.dr n).done = true ∧ (D.dr n).slRet = false then some (D.updD n (fun r => { r with slRet := true }))
    else none
  | .workerDone n =>
    if (D.S.s n).phase = .running ∧ (D.dr n).done = true then some { D with S := passDone D.S n } else none

def init : St := {}

def run (c : Cfg) : St → List Label → Option St
  | D, [] => some D
  | D, l :: ls => match step c D l with
    | none => none
    | some D' => run c D' ls

/-- reachable from the empty server by some interleaving of session labels and dispatcher labels -/
def Reachable (c : Cfg) (D : St) : Prop := ∃ ls, run c init ls = some D

/-- the label of the session model a product label stands for (`none`: the session tables do not move) -/
def proj : Label → Option Sess.Label
  | .sess l => some l
  | .workerDone n => some (.dispDone n)
  | _ => none

end SessDisp
end Frp
