import Frp.Gen.HttpFacts
/-
  Model of the ONE place where net/http's client side can make a request WAIT for other exchanges: the
  per-host connection cap of an `http.Transport` (property C02: "for all sequences of requests … streamed",
  "and other requests are unaffected", "in bounded time instead of a hang").

    GOROOT/src/net/http/transport.go (go1.23, ASSUMED)
      getConn → queueForIdleConn (an idle connection of the host, if any) else queueForDial:
        `if t.MaxConnsPerHost <= 0 { t.startDialConnForLocked(w); return }`
        `if n := t.connsPerHost[w.key]; n < t.MaxConnsPerHost { t.connsPerHost[w.key] = n + 1; start dial; return }`
        `t.connsPerHostWait[w.key].pushBack(w)`         -- waits; NO timeout of the Transport covers this wait
      decConnsPerHost (a connection of the host is closed): hands the slot to a waiter, else `n - 1`.
      A connection carrying an exchange that is still OPEN — a streamed answer whose body has not ended, a long
      poll, an upgraded (WebSocket) connection — is neither idle nor closed: it keeps its slot.
    pkg/util/vhost/http.go, pkg/plugin/client/{http2http,http2https,https2http,https2https}.go
      the Transport literals of the relaying ReverseProxies: regenerated as Gen/HttpFacts.transports; none of
      them sets MaxConnsPerHost (http2http / https2http use http.DefaultTransport, which has none either).

  Only concurrency is modelled: every request of a history needs a connection of the same host, idle
  connections are the finished exchanges' (a finished exchange frees its slot for a waiter or goes idle).
-/
namespace Frp
namespace ConnLimit

/-- `Transport.MaxConnsPerHost` (0 = no limit) -/
structure Cfg where
  maxConnsPerHost : Nat
deriving DecidableEq, Repr

structure St where
  /-- connections of the host that carry an open exchange -/
  inUse   : Nat
  /-- connections of the host that are idle (kept alive) -/
  idle    : Nat
  /-- requests parked in `connsPerHostWait` -/
  waiting : Nat
deriving DecidableEq, Repr

def St.init : St := { inUse := 0, idle := 0, waiting := 0 }

inductive Ev
  | request   -- a new exchange needs a connection
  | finish    -- an open exchange ends; its connection is re-usable
  | drop      -- an open exchange ends and its connection is closed (Connection: close, upgrade, error)
deriving DecidableEq, Repr

/-- one event; the Bool says whether a `request` was forwarded AT ONCE (true for the other events) -/
def step (c : Cfg) (s : St) : Ev → St × Bool
  | .request =>
    if s.idle > 0 then ({ s with idle := s.idle - 1, inUse := s.inUse + 1 }, true)
    else if c.maxConnsPerHost = 0 ∨ s.inUse + s.idle < c.maxConnsPerHost then ({ s with inUse := s.inUse + 1 }, true)
    else ({ s with waiting := s.waiting + 1 }, false)
  | .finish =>
    if s.waiting > 0 then ({ s with waiting := s.waiting - 1 }, true)     -- the connection goes to a waiter
    else ({ s with inUse := s.inUse - 1, idle := s.idle + 1 }, true)
  | .drop =>
    if s.waiting > 0 then ({ s with waiting := s.waiting - 1 }, true)     -- decConnsPerHost: the slot goes to a waiter
    else ({ s with inUse := s.inUse - 1 }, true)

def run (c : Cfg) : St → List Ev → St × List Bool
  | s, [] => (s, [])
  | s, e :: es =>
    let r := step c s e
    let q := run c r.1 es
    (q.1, r.2 :: q.2)

/-- `k` exchanges opened one after the other and all still open -/
def opened (c : Cfg) (k : Nat) : St := (run c St.init (List.replicate k .request)).1

/-! ### the Transport literals of the code (Gen/HttpFacts) -/

/-- the cap a Transport literal sets: field absent ⇒ 0 (no limit); a value that is not an integer constant is
    taken as the worst case 1 -/
def capOf (t : Gen.HttpFacts.TransportLit) : Nat :=
  match t.fields.find? (fun f => f.1 == "MaxConnsPerHost") with
  | none => 0
  | some (_, some v) => v
  | some (_, none) => 1

def cfgOf (t : Gen.HttpFacts.TransportLit) : Cfg := { maxConnsPerHost := capOf t }

def vhostFile : String := "pkg/util/vhost/http.go"

/-- file of the client plugin a proxy kind of engine `httpe2e` runs through (`plain`: none) -/
def pluginFile (kind : String) : Option String :=
  if kind = "h2h" then some "pkg/plugin/client/http2http.go"
  else if kind = "h2s" then some "pkg/plugin/client/http2https.go"
  else if kind = "s2h" then some "pkg/plugin/client/https2http.go"
  else if kind = "s2s" then some "pkg/plugin/client/https2https.go"
  else none

/-- is the user's connection relayed by frps' vhost ReverseProxy?  (`https` proxies are routed by SNI, the TLS
    stream goes to the plugin untouched) -/
def viaVhostProxy (kind : String) : Bool := !(kind = "s2h" ∨ kind = "s2s")

/-- the Transports an exchange of a proxy of this kind passes, in order -/
def pathOf (ts : List Gen.HttpFacts.TransportLit) (kind : String) : List Cfg :=
  let pick (f : String) := (ts.filter (fun t => t.file == f)).map cfgOf
  (if viaVhostProxy kind then pick vhostFile else []) ++
  (match pluginFile kind with | some f => pick f | none => [])

/-- with `k` exchanges open on every Transport of the path, is one more request forwarded at once by all of them? -/
def pathForwards (p : List Cfg) (k : Nat) : Bool :=
  p.all (fun c => (step c (opened c k) .request).2)

end ConnLimit
end Frp
