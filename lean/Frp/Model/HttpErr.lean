import Frp.Model.Str
/-
  Model of the ERROR-PATH exchanges of `vhost.HTTPReverseProxy` against a request body that is STILL BEING SENT
  (C02: "If the backend is unreachable … the user gets the not-found page … in bounded time instead of a hang",
  "for bodies of any size and framing").

    pkg/util/vhost/http.go   ServeHTTP, no route:        rw.WriteHeader(404); rw.Write(getNotFoundPageContent())
                             h2c-wrapped handler, no route: the same
                             ErrorHandler (dial error, backend closed early): the same (504 without body for a timeout)
                             — none of them reads req.Body (Gen/HttpFacts.notFoundSites: readsBody = false)
    GOROOT/src/net/http/server.go (go1.23, ASSUMED, sampled)  (*response).WriteHeader → cw.writeHeader, for a request
                             body the handler left unread:
                               Expect: 100-continue never honoured      → closeAfterReply, the answer goes out at once
                               Content-Length body, ≥ 256 KiB unread    → closeAfterReply, at once
                               otherwise io.CopyN(io.Discard, body, 256 KiB + 1) FIRST: the answer goes out when the
                               body ends or 256 KiB + 1 further bytes of it have arrived, whichever comes first

  Time in ms from the moment the handler is ready to answer (`at`).  An upload is the list of body pieces that arrive
  after that moment (gap since the previous one, size); `ends` = the last piece completes the body (Content-Length
  reached / terminating chunk); an upload without end is a stream that stays open.
-/
namespace Frp
namespace HttpErr

/-- `maxPostHandlerReadBytes` -/
def postRead : Nat := 256 * 1024

structure Upload where
  chunked   : Bool
  /-- announced Content-Length still unread when the handler answers (`lr.N`); meaningless for chunked -/
  unread    : Nat
  expect100 : Bool
  /-- pieces that arrive after the handler is ready: (gap ms, bytes) -/
  pieces    : List (Nat × Nat)
  ends      : Bool
deriving DecidableEq, Repr

/-- what the handler of an error path does with the rest of the request body before it writes the answer -/
structure Handler where
  drains : Bool
deriving DecidableEq, Repr

/-- pkg/util/vhost/http.go as it is -/
def frpHandler : Handler := { drains := false }

/-- time at which `need` further bytes have arrived (`none`: never) -/
def arrival : Nat → Nat → List (Nat × Nat) → Option Nat
  | 0, t, _ => some t
  | _ + 1, _, [] => none
  | need + 1, t, (g, n) :: ps => arrival (need + 1 - n) (t + g) ps

/-- time at which the whole body has arrived -/
def endTime (t : Nat) (u : Upload) : Option Nat :=
  if u.ends then some (t + (u.pieces.map (·.1)).sum) else none

def omin : Option Nat → Option Nat → Option Nat
  | some a, some b => some (min a b)
  | some a, none => some a
  | none, b => b

/-- the answer is held until `need` further bytes of the body have arrived or the body has ended -/
def waitFor (need t : Nat) (u : Upload) : Option Nat := omin (arrival need t u.pieces) (endTime t u)

/-- net/http's own wait before the header block of an answer goes out when the handler left the body untouched
    (`cw.writeHeader`) -/
def serverReply (t : Nat) (u : Upload) : Option Nat :=
  if u.expect100 then some t
  else if !u.chunked ∧ postRead ≤ u.unread then some t
  else waitFor (postRead + 1) t u

/-- the request had been handed to the Transport and the DIAL FAILED: `Transport.roundTrip` closes the request body
    (`req.closeBody()`), and `(*body).Close` (transfer.go, ASSUMED) gives up at once only when more than 256 KiB are
    announced and unread; otherwise it reads up to 256 KiB of what is left first.  It never sends the 100 Continue
    a user that announced `Expect: 100-continue` waits for: nothing arrives then.  Afterwards the body is closed and
    `cw.writeHeader` answers at once. -/
def closeReply (t : Nat) (u : Upload) : Option Nat :=
  if !u.chunked ∧ postRead < u.unread then some t
  else if u.expect100 then none
  else waitFor postRead t u

/-- when the user holds the error answer: `none` = never.  `dialled` = the route exists and its CreateConnFn
    failed (ErrorHandler); `false` = no route (the handler answers without the Transport) -/
def answerAt (h : Handler) (dialled : Bool) (t : Nat) (u : Upload) : Option Nat :=
  if h.drains then
    -- the handler reads to the end of the body first (a 100-continue is honoured by that read)
    endTime t u
  else if dialled then closeReply t u
  else serverReply t u

/-- the first `k` bytes of the pieces (the schedule on which the beginning of the body arrives) -/
def takeBytes : Nat → List (Nat × Nat) → List (Nat × Nat)
  | 0, _ => []
  | _ + 1, [] => []
  | k + 1, (g, n) :: ps => (g, min n (k + 1)) :: takeBytes (k + 1 - n) ps

end HttpErr
end Frp
