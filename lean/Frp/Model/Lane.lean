import Frp.Model.Str
/-
  `transport.MessageTransporter` (pkg/transport/message.go): routing of a received message to the `Do`
  call that waits for it, by message type name and lane key (for nat hole: the transaction id).

  ```
  registry map[string]map[string]chan msg.Message          // type ↦ laneKey ↦ channel of the waiting Do
  Do(ctx, req, laneKey, recvMsgType):  ch := make(chan, 1); defer close(ch)
      unregister := registerMsgChan(ch, laneKey, recvMsgType); defer unregister()     // byLaneKey[laneKey] = ch
      Send(req); select { case <-ctx.Done(): return nil, ctx.Err(); case resp := <-ch: return resp, nil }
  DispatchWithType(m, msgType, laneKey): ch := registry[msgType][laneKey]; if ch == nil { return false }
      PanicToError(func() { ch <- m }) ; return err == nil
  unregister: delete(byLaneKey, laneKey)                   // by KEY, whoever's channel is stored there
  ```
  Mirrored as it is, including: a second `Do` with the same (type, lane) overwrites the first one's
  entry, and the unregister of either deletes whatever is stored under the key.
-/
namespace Frp
namespace Lane

structure Waiter where
  id : Nat
  mtype : String
  lane : Str
  deriving DecidableEq, Repr

abbrev Key := String × Str

structure St where
  registry : List (Key × Nat) := []      -- at most one entry per key (a Go map); value = the waiting Do's id
  waiting : List Waiter := []            -- Do calls blocked in their select
  delivered : List (Nat × Key × Nat) := []   -- (waiter id, type and lane the message was dispatched with, message tag)
  ever : List Waiter := []               -- ghost: every Do call made so far
  deriving DecidableEq, Repr

inductive Op
  | doReq (id : Nat) (mtype : String) (lane : Str)     -- a Do call reaches its select (registered, request sent)
  | dispatch (mtype : String) (lane : Str) (tag : Nat)   -- Dispatch / DispatchWithType of a message
  | cancel (id : Nat)                                  -- the context of Do call `id` is cancelled
  deriving DecidableEq, Repr

/-- what the call returned: `dispatch` ↦ its bool and, when a waiter took the message, its id -/
inductive Out
  | none
  | dispatched (ok : Bool) (to : Option Nat)
  deriving DecidableEq, Repr

def eraseKey (r : List (Key × Nat)) (k : Key) : List (Key × Nat) := r.filter (fun e => e.1 != k)

def step (s : St) : Op → St × Out
  | .doReq id t l =>
    if s.ever.any (fun w => w.id == id) then (s, .none) else    -- ids name Do calls: fresh by construction
    ({ s with registry := ((t, l), id) :: eraseKey s.registry (t, l),
              waiting := s.waiting ++ [⟨id, t, l⟩], ever := s.ever ++ [⟨id, t, l⟩] }, .none)
  | .dispatch t l tag =>
    match s.registry.lookup (t, l) with
    | none => (s, .dispatched false none)
    | some id =>
      if s.waiting.any (fun w => w.id == id) then
        -- the waiter's select takes the message; Do returns it; deferred unregister deletes the key
        ({ s with registry := eraseKey s.registry (t, l),
                  waiting := s.waiting.filter (fun w => w.id != id),
                  delivered := s.delivered ++ [(id, (t, l), tag)] }, .dispatched true (some id))
      else (s, .dispatched false none)       -- channel already closed: the send panics, PanicToError ⇒ false
  | .cancel id =>
    match s.waiting.find? (fun w => w.id == id) with
    | none => (s, .none)
    | some w => ({ s with registry := eraseKey s.registry (w.mtype, w.lane),
                          waiting := s.waiting.filter (fun x => x.id != id) }, .none)

def run (s : St) (ops : List Op) : St := ops.foldl (fun s op => (step s op).1) s

end Lane
end Frp
