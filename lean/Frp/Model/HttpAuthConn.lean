import Frp.Model.HttpAuth
/-
  Model of two further pieces of the credential gates (property C07):

  * the h2c wrapper of the vhost reverse proxy (pkg/util/vhost/http.go `NewHTTPReverseProxy`:
    `rp.proxy = h2c.NewHandler(proxy, &http2.Server{})`, golang.org/x/net/http2/h2c `h2cHandler.ServeHTTP`):
    ONE connection that is turned into an HTTP/2 connection and then carries further streams, each a
    request with its own :authority, :path and authorization;
  * the server-side tcpmux proxy registration (server/proxy/tcpmux.go `httpConnectRun` /
    `httpConnectListen`, pkg/util/vhost/vhost.go `Muxer.Listen`, `Listener.Close`) that feeds the
    CONNECT muxer modelled by `HttpAuth.muxHandle`.
-/
namespace Frp
namespace HttpAuth
open Str Router

/-! ### h2c: the streams of an upgraded connection

  `HTTPReverseProxy.ServeHTTP` (route lookup, `CheckAuth`) is the handler of the `http.Server`; it hands
  an accepted request to `rp.proxy`, the h2c wrapper.  For a request that asks for the upgrade
  (`Upgrade: h2c` + `HTTP2-Settings`, RFC 7540 §3.2) or is the prior-knowledge preface (`PRI * HTTP/2.0`,
  §3.4) the wrapper hijacks the connection and runs `http2.Server.ServeConn` on it with
  `Context: r.Context()` and `Handler:` the WRAPPED handler.  Every later stream is a request that
  enters that wrapped handler directly — it never passes `ServeHTTP`.

  /repo HEAD wraps the bare `httputil.ReverseProxy`.  Its `Rewrite` and the transport's `DialContext`
  read `RouteInfoKey` / `RouteConfigKey` from the request context, and the context of every stream is
  derived from the context of the request that opened the connection: a later stream is neither
  checked nor routed by its own :authority / :path / authorization, it is forwarded to the route of the
  opening request (`CreateConnection(<the opening request's RequestRouteInfo>)`). -/

/-- `false` = /repo HEAD as described above.  `true` = the repair of hooks/C07-fix-h2c-stream-auth.patch:
    the handler given to `h2c.NewHandler` does, for every request it is handed, what `ServeHTTP` does
    (`injectRequestInfoToCtx` + `CheckAuth` for the request's own route, 401 / 404 / forward). -/
def h2cStreamsChecked : Bool := true

inductive StreamResp
  | rst                       -- http2 server: `url.ParseRequestURI(:path)` fails → RST_STREAM(PROTOCOL_ERROR), no handler runs
  | resp (r : Resp)
deriving DecidableEq, Repr

/-- one stream after the opening request `q0` of the connection -/
def h2cStream (checked : Bool) (T : Table) (q0 : Req) (w : WireReq) : StreamResp :=
  match w.parse with
  | none => .rst
  | some q => .resp (if checked then serve T q else forwardOf T q0)

/-- the connection opened by request `q0` and the streams `ws` sent on it afterwards, in order.
    `ServeHTTP` answers `q0` itself (401 / 404, in HTTP/1.1) unless it passes the check and has a route;
    only then the h2c wrapper sees it and the connection becomes an HTTP/2 connection. -/
def h2cConnReq (checked : Bool) (T : Table) (q0 : Req) (ws : List WireReq) : Resp × List StreamResp :=
  match serve T q0 with
  | .forward id => (.forward id, ws.map (h2cStream checked T q0))
  | r => (r, [])

/-- from the opening request as written; `none` = 400 from net/http, no handler ran -/
def h2cConn (checked : Bool) (T : Table) (w0 : WireReq) (ws : List WireReq) : Option (Resp × List StreamResp) :=
  w0.parse.map (fun q0 => h2cConnReq checked T q0 ws)

/-- prior knowledge: net/http parses the client preface as the request `PRI * HTTP/2.0` without Host and
    without header fields -/
def priWire : WireReq := { host := [], proxied := false, target := [star], auth := none, pauth := none }

/-! ### server-side tcpmux proxies -/

/-- what `httpConnectRun` reads from `v1.TCPMuxProxyConfig` -/
structure TmCfg where
  domains   : List Str        -- customDomains
  sub       : Str             -- subdomain ("" = none)
  routeUser : Str             -- routeByHTTPUser
  httpUser  : Str
  httpPwd   : Str
deriving DecidableEq, Repr

/-- `vhost.Listener`: the fields that decide routing (`name`, `routeByHTTPUser`; location is "") and the
    credential check of `Muxer.handle` (`username`, `password`) -/
structure TmListener where
  name            : Str
  routeByHTTPUser : Str
  username        : Str
  password        : Str
deriving DecidableEq, Repr

/-- `httpConnectListen(domain, routeByHTTPUser, httpUser, httpPwd, …)`: the literal
    `vhost.RouteConfig{Domain: domain, RouteByHTTPUser: routeByHTTPUser, Username: httpUser, Password: httpPwd}`
    and `Muxer.Listen`'s copy `Listener{name: cfg.Domain, routeByHTTPUser: cfg.RouteByHTTPUser,
    username: cfg.Username, password: cfg.Password}` -/
def httpConnectListen (domain routeByHTTPUser httpUser httpPwd : Str) : TmListener :=
  { name := domain, routeByHTTPUser := routeByHTTPUser, username := httpUser, password := httpPwd }

/-- `httpConnectRun`: one listener per non-empty custom domain, then one for
    `SubDomain + "." + serverCfg.SubDomainHost`, each from
    `(pxy.cfg.RouteByHTTPUser, pxy.cfg.HTTPUser, pxy.cfg.HTTPPassword)` in this order -/
def tmListeners (sh : Str) (c : TmCfg) : List TmListener :=
  (c.domains.filter (fun d => !d.isEmpty)).map (fun d => httpConnectListen d c.routeUser c.httpUser c.httpPwd) ++
  (if c.sub = [] then [] else [httpConnectListen (c.sub ++ dot :: sh) c.routeUser c.httpUser c.httpPwd])

/-- a listener object: who created it, from which configuration -/
structure TmRec where
  owner : Nat
  cfg   : TmCfg
  l     : TmListener
deriving Repr

/-- one `HTTPConnectTCPMuxer` with the proxies running on it.  `T.R` = the muxer's `registryRouter`
    (payload = number of the listener object), `T.creds` = `listener.username / password` -/
structure TmState where
  T    : Table
  recs : List (Nat × TmRec)
  next : Nat
  live : List (Nat × (TmCfg × List TmListener))     -- running proxies: id ↦ cfg, `pxy.listeners`

def TmState.empty : TmState := { T := { R := Router.empty, creds := [] }, recs := [], next := 0, live := [] }

/-- the loop of `httpConnectRun`: `Muxer.Listen` per listener (`registryRouter.Add(name, "", routeByHTTPUser, l)`),
    `pxy.listeners = append(pxy.listeners, l)`; stops at the first refusal -/
def tmClaim (S : TmState) (id : Nat) (c : TmCfg) (held : List TmListener) :
    List TmListener → TmState × List TmListener × Bool
  | [] => (S, held, true)
  | l :: rest =>
    match add S.T.R l.name [] l.routeByHTTPUser S.next with
    | (R', .ok) =>
      tmClaim { S with T := { R := R', creds := (S.next, ⟨l.username, l.password⟩) :: S.T.creds },
                       recs := (S.next, ⟨id, c, l⟩) :: S.recs, next := S.next + 1 }
        id c (held ++ [l]) rest
    | (_, .conflict) => (S, held, false)

/-- `BaseProxy.Close`: `Listener.Close` for every listener: `registryRouter.Del(name, location, routeByHTTPUser)` -/
def tmRelease (S : TmState) : List TmListener → TmState
  | [] => S
  | l :: rest => tmRelease { S with T := { S.T with R := del S.T.R l.name [] l.routeByHTTPUser } } rest

inductive TmRes | ok | busy | conflict
deriving DecidableEq, Repr

/-- `pxy := NewProxy(cfg); pxy.Run()`; `Run` closes the proxy when a listener is refused -/
def tmRun (sh : Str) (S : TmState) (id : Nat) (c : TmCfg) : TmState × TmRes :=
  if S.live.any (fun h => h.1 = id) then (S, .busy)
  else
    match tmClaim S id c [] (tmListeners sh c) with
    | (S', held, true) => ({ S' with live := (id, (c, held)) :: S'.live }, .ok)
    | (S', held, false) => (tmRelease S' held, .conflict)

/-- `pxy.Close()` of a running proxy -/
def tmClose (S : TmState) (id : Nat) : TmState :=
  match S.live.lookup id with
  | none => S
  | some (_, held) => { tmRelease S held with live := S.live.filter (fun h => h.1 ≠ id) }

/-- a CONNECT request at the muxer: `accept n` = handed to listener object `n` -/
def tmHandle (S : TmState) (q : ConnectReq) : MuxResp := muxHandle S.T q

inductive TmOp
  | run (sh : Str) (id : Nat) (c : TmCfg)
  | close (id : Nat)

def tmStep (S : TmState) : TmOp → TmState
  | .run sh id c => (tmRun sh S id c).1
  | .close id => tmClose S id

end HttpAuth
end Frp
