/-
  C16 (the WEDGE half), obligation (b): every server.Control that RegisterControl puts into the table is
  eventually started or closed — no login waits on a control that never closes its doneCh.

  server/service.go RegisterControl, per Login that passed authentication:

      ctl := NewControl(…)
      if oldCtl := svr.ctlManager.Add(runID, ctl); oldCtl != nil {     -- Add: old.Replaced(ctl) closes old's connection
          oldCtl.WaitClosed()                                          -- <-oldCtl.doneCh
      }
      ctl.Start()                                                      -- LoginResp; go ctl.worker()
      go func() { ctl.WaitClosed(); svr.ctlManager.Del(runID, ctl) }()

  server/control.go: doneCh is closed by worker() only, worker() is started by Start() only, and worker() ends once the
  control connection is closed (by the peer, by Replaced, by the heartbeat check).

  The model is a small-step system over ONE run id (controls of different run ids never meet).  `startAlways` is how
  RegisterControl is written: `true` = every path from Add reaches Start (the code as it is: regenerated fact
  Gen.LockOrder.regCtlReturnsBeforeStart = 0); `false` = a control that finds itself superseded after the wait returns
  without Start (what a "don't start a dead session" tidy-up amounts to).
-/
namespace Frp
namespace RegCtl

/-- life of one server.Control created by RegisterControl -/
inductive Stat
  | waiting (on : Option Nat)   -- in the table (ControlManager.Add done); `some j`: inside oldCtl.WaitClosed() on control j
  | started                     -- ctl.Start(): LoginResp written, worker() running
  | closed                      -- worker() ran to its end: close(doneCh)
  | abandoned                   -- RegisterControl returned without Start(): doneCh is never closed
  deriving DecidableEq, Repr

structure Ctl where
  stat : Stat
  connOpen : Bool := true      -- the control connection (closed by the peer, by Replaced, by the heartbeat check)
  answered : Bool := false     -- a LoginResp was written (Start) — what the peer is waiting for
  deriving DecidableEq, Repr

structure St where
  ctls : List Ctl := []        -- the controls of one run id in order of creation (index = identity)
  cur : Option Nat := none     -- ctlsByRunID[runID]
  deriving DecidableEq, Repr

inductive Label
  | login             -- a Login with this run id passed auth: NewControl; ControlManager.Add (old.Replaced closes old's connection)
  | proceed (k : Nat) -- control k's RegisterControl goroutine runs on: WaitClosed returns if the old control is closed; Start
  | drop (k : Nat)    -- the peer (or the heartbeat check) closes control k's connection
  | exit (k : Nat)    -- control k's worker() runs to its end (started, connection closed): close(doneCh)
  | del (k : Nat)     -- the goroutine behind Start: ControlManager.Del(runID, k) (only if k is still the current one)
  deriving DecidableEq, Repr

/-- apply `f` to element `k` (nothing if there is none) -/
def upd : List Ctl → Nat → (Ctl → Ctl) → List Ctl
  | [], _, _ => []
  | c :: rest, 0, f => f c :: rest
  | c :: rest, k + 1, f => c :: upd rest k f

def closeConn (c : Ctl) : Ctl := { c with connOpen := false }
def start (c : Ctl) : Ctl := { c with stat := .started, answered := true }
def abandon (c : Ctl) : Ctl := { c with stat := .abandoned }
def finish (c : Ctl) : Ctl := { c with stat := .closed }

def statOf (s : St) (k : Nat) : Option Stat := (s.ctls[k]?).map Ctl.stat

def step (startAlways : Bool) (s : St) : Label → St
  | .login =>
    let ctls := match s.cur with
      | some j => upd s.ctls j closeConn        -- ControlManager.Add: old.Replaced(ctl)
      | none => s.ctls
    { ctls := ctls ++ [{ stat := .waiting s.cur }], cur := some s.ctls.length }
  | .proceed k =>
    match statOf s k with
    | some (.waiting none) => { s with ctls := upd s.ctls k start }
    | some (.waiting (some j)) =>
      if statOf s j = some .closed then
        (if startAlways || s.cur == some k then { s with ctls := upd s.ctls k start }
         else { s with ctls := upd s.ctls k abandon })
      else s                                    -- still inside <-oldCtl.doneCh
    | _ => s
  | .drop k => { s with ctls := upd s.ctls k closeConn }
  | .exit k =>
    match s.ctls[k]? with
    | some c => if c.stat = .started ∧ c.connOpen = false then { s with ctls := upd s.ctls k finish } else s
    | none => s
  | .del k =>
    if statOf s k = some .closed ∧ s.cur = some k then { s with cur := none } else s

def run (startAlways : Bool) (s : St) (ls : List Label) : St := ls.foldl (step startAlways) s

/-- the continuation "every peer hangs up and every goroutine gets to run", oldest control first -/
def drainFrom : Nat → Nat → List Label
  | _, 0 => []
  | k, n + 1 => [.proceed k, .drop k, .exit k, .del k] ++ drainFrom (k + 1) n

def drain (s : St) : List Label := drainFrom 0 s.ctls.length

/-- every login got its LoginResp and every control closed its doneCh -/
def settled (s : St) : Bool := s.ctls.all (fun c => c.answered && c.stat == .closed)

/-- every goroutine of controls k … k+n-1 gets to run, oldest first; nobody hangs up -/
def settleFrom : Nat → Nat → List Label
  | _, 0 => []
  | k, n + 1 => [.proceed k, .exit k, .del k] ++ settleFrom (k + 1) n

/-- one release of the engine op: 0 = session A's parked teardown runs to its end, i ≥ 1 = login i runs on -/
def releaseOf (i : Nat) : List Label :=
  if i = 0 then [.exit 0, .del 0] else [.proceed i]

def releases : List Nat → List Label
  | [] => []
  | i :: rest => releaseOf i ++ releases rest

/-- the schedule the engine op `relogin <gate> <k> <order> …` forces: session A (control 0) is live; k further logins
    with A's run id arrive one after the other (the first one's Replaced closes A's connection), each parked inside
    RegisterControl after ControlManager.Add; then A's teardown and the parked logins are released in the given order
    (a login released before the control it waits on has closed stays inside WaitClosed), and every goroutine gets to
    run.  Nobody but the server closes a connection. -/
def reloginSchedule (k : Nat) (order : List Nat) : List Label :=
  [.login, .proceed 0] ++ List.replicate k .login ++ releases order ++ settleFrom 0 (k + 1)

/-- has the LAST login (the one that is current and was not superseded) been answered? -/
def lastAnswered (s : St) : Bool :=
  match s.ctls.getLast? with
  | some c => c.answered
  | none => true

end RegCtl
end Frp
