import Frp.Model.Str
/-
  Server plugin chain (C15).  Mirrors /repo/pkg/plugin/server/{manager.go,http.go,plugin.go,types.go}
  as the code is at the pinned commit.

  * `Plugin.Handle(ctx, op, content) (res *Response, retContent any, err error)`  ↦  `Ret C`
  * `Manager` keeps six slices, `Register` appends the plugin to each slice whose op it
    `IsSupport`s (string comparison with the op name).
  * `Manager.Login/NewProxy/Ping/NewWorkConn/NewUserConn` are five textually identical loops
    (`gated`): err → return error; `res.Reject` → return error(reason); `!res.Unchange` →
    `content = retContent.(*XContent)` (a type assertion: panics when retContent is nil / of
    another type).  `Manager.CloseProxy` is different: it calls every plugin with the *same*
    content, collects the errors and goes on (`closeAll`).
  * `httpPlugin.Handle` / `do`  ↦  `httpHandle` over an abstract HTTP reply.

  Core Lean only.
-/
namespace Frp
namespace PluginChain

/-- plugin.go: OpLogin … OpNewUserConn -/
inductive Op
  | login | newProxy | closeProxy | ping | newWorkConn | newUserConn
  deriving DecidableEq, Repr

/-- the op constants as the strings compared by `IsSupport` and sent on the wire -/
def Op.name : Op → Str
  | .login => Str.ofString "Login"
  | .newProxy => Str.ofString "NewProxy"
  | .closeProxy => Str.ofString "CloseProxy"
  | .ping => Str.ofString "Ping"
  | .newWorkConn => Str.ofString "NewWorkConn"
  | .newUserConn => Str.ofString "NewUserConn"

def Op.all : List Op := [.login, .newProxy, .closeProxy, .ping, .newWorkConn, .newUserConn]

/-- what one `Handle` call returned.
    `err`: `err != nil`.
    `resp reject reason unchange content`: `*Response` fields + `retContent`;
    `content = none` stands for a `retContent` that is nil or not a `*XContent`
    (the manager's type assertion panics on it). -/
inductive Ret (C : Type)
  | err
  | resp (reject : Bool) (reason : Str) (unchange : Bool) (content : Option C)
  deriving DecidableEq, Repr

/-- plugin.go `Plugin` interface: Name / IsSupport / Handle.  `ops` are the op *strings* the
    plugin says it supports (`httpPlugin.IsSupport`: exact string match over `options.Ops`). -/
structure Plugin (C : Type) where
  id : Nat
  ops : List Str
  handle : Op → C → Ret C

/-- `p.IsSupport(op)` -/
def Plugin.supports {C : Type} (p : Plugin C) (op : Op) : Bool := p.ops.contains op.name

/-- what a manager method returned -/
inductive Result (C : Type)
  | ok (c : C)            -- (content, nil)
  | error (msg : Str)     -- (nil, err) with err.Error() = msg
  | panic                 -- the type assertion `retContent.(*XContent)` panicked
  deriving DecidableEq, Repr

def Result.isOk {C : Type} : Result C → Bool
  | .ok _ => true
  | _ => false

def Ret.isErr {C : Type} : Ret C → Bool
  | .err => true
  | _ => false

/-- `errors.New("send <Op> request to plugin error")` -/
def errMsg (op : Op) : Str :=
  Str.ofString "send " ++ op.name ++ Str.ofString " request to plugin error"

/-- one consulted plugin: its id and the content it was handed -/
abbrev Seen (C : Type) := Nat × C

/-- manager.go `Login` / `NewProxy` / `Ping` / `NewWorkConn` / `NewUserConn`: the loop
    `for _, p := range plugins { res, retContent, err = p.Handle(ctx, op, *content) … }`.
    Returns the method's result and the list of `Handle` calls made, in order. -/
def gated {C : Type} (op : Op) : List (Plugin C) → C → Result C × List (Seen C)
  | [], c => (.ok c, [])                              -- also the `len(plugins) == 0` shortcut
  | p :: ps, c =>
    match p.handle op c with
    | .err => (.error (errMsg op), [(p.id, c)])       -- if err != nil { return nil, errors.New(...) }
    | .resp reject reason unchange content =>
      if reject then (.error reason, [(p.id, c)])     -- if res.Reject { return nil, fmt.Errorf("%s", res.RejectReason) }
      else if unchange then
        let r := gated op ps c
        (r.1, (p.id, c) :: r.2)
      else
        match content with                            -- content = retContent.(*XContent)
        | none => (.panic, [(p.id, c)])
        | some c' =>
          let r := gated op ps c'
          (r.1, (p.id, c) :: r.2)

/-- result of `Manager.CloseProxy`: nil, or an error naming the plugins that failed -/
inductive CloseResult
  | ok
  | errs (ids : List Nat)
  deriving DecidableEq, Repr

/-- manager.go `CloseProxy`: every plugin gets the same content; errors are collected;
    `res` (reject, content) is ignored. -/
def closeLoop {C : Type} : List (Plugin C) → C → List Nat × List (Seen C)
  | [], _ => ([], [])
  | p :: ps, c =>
    let r := closeLoop ps c
    match p.handle .closeProxy c with
    | .err => (p.id :: r.1, (p.id, c) :: r.2)
    | .resp _ _ _ _ => (r.1, (p.id, c) :: r.2)

def closeAll {C : Type} (ps : List (Plugin C)) (c : C) : CloseResult × List (Seen C) :=
  let r := closeLoop ps c
  (if r.1 = [] then .ok else .errs r.1, r.2)

/-- manager.go `Manager`: six slices -/
structure Manager (C : Type) where
  loginPlugins : List (Plugin C) := []
  newProxyPlugins : List (Plugin C) := []
  closeProxyPlugins : List (Plugin C) := []
  pingPlugins : List (Plugin C) := []
  newWorkConnPlugins : List (Plugin C) := []
  newUserConnPlugins : List (Plugin C) := []

def Manager.empty {C : Type} : Manager C := {}

/-- the slice a manager method ranges over -/
def Manager.list {C : Type} (m : Manager C) : Op → List (Plugin C)
  | .login => m.loginPlugins
  | .newProxy => m.newProxyPlugins
  | .closeProxy => m.closeProxyPlugins
  | .ping => m.pingPlugins
  | .newWorkConn => m.newWorkConnPlugins
  | .newUserConn => m.newUserConnPlugins

/-- manager.go `Register` -/
def Manager.register {C : Type} (m : Manager C) (p : Plugin C) : Manager C :=
  { loginPlugins := if p.supports .login then m.loginPlugins ++ [p] else m.loginPlugins
    newProxyPlugins := if p.supports .newProxy then m.newProxyPlugins ++ [p] else m.newProxyPlugins
    closeProxyPlugins := if p.supports .closeProxy then m.closeProxyPlugins ++ [p] else m.closeProxyPlugins
    pingPlugins := if p.supports .ping then m.pingPlugins ++ [p] else m.pingPlugins
    newWorkConnPlugins := if p.supports .newWorkConn then m.newWorkConnPlugins ++ [p] else m.newWorkConnPlugins
    newUserConnPlugins := if p.supports .newUserConn then m.newUserConnPlugins ++ [p] else m.newUserConnPlugins }

def Manager.registerAll {C : Type} (m : Manager C) (ps : List (Plugin C)) : Manager C :=
  ps.foldl Manager.register m

/-- the five gated manager methods (each ranges over its own slice and passes its own op) -/
def Manager.login {C : Type} (m : Manager C) (c : C) := gated .login m.loginPlugins c
def Manager.newProxy {C : Type} (m : Manager C) (c : C) := gated .newProxy m.newProxyPlugins c
def Manager.ping {C : Type} (m : Manager C) (c : C) := gated .ping m.pingPlugins c
def Manager.newWorkConn {C : Type} (m : Manager C) (c : C) := gated .newWorkConn m.newWorkConnPlugins c
def Manager.newUserConn {C : Type} (m : Manager C) (c : C) := gated .newUserConn m.newUserConnPlugins c
def Manager.closeProxy {C : Type} (m : Manager C) (c : C) := closeAll m.closeProxyPlugins c

/-- dispatch by op for the gated methods (`closeProxy` has its own result type) -/
def Manager.call {C : Type} (m : Manager C) : Op → C → Result C × List (Seen C)
  | .login, c => m.login c
  | .newProxy, c => m.newProxy c
  | .ping, c => m.ping c
  | .newWorkConn, c => m.newWorkConn c
  | .newUserConn, c => m.newUserConn c
  | .closeProxy, c =>            -- shown through the same type: ok keeps the content
    let r := m.closeProxy c
    (match r.1 with | .ok => .ok c | .errs _ => .error [], r.2)

/-! ### http.go -/

/-- the `content` member of the JSON reply, as `encoding/json` sees it when `res.Content` was
    pre-set to a fresh `*XContent` (`reflect.New(reflect.TypeOf(content)).Interface()`) -/
inductive ContentField (C : Type)
  | absent              -- key missing: res.Content stays the fresh zero value
  | null                -- `"content": null`: the interface is set to nil
  | obj (c : C)         -- an object: decoded into the fresh value (missing members stay zero)
  | wrongType           -- a string / number / array …: UnmarshalTypeError
  deriving DecidableEq, Repr

inductive Body (C : Type)
  | readErr             -- io.ReadAll fails (truncated body)
  | malformed           -- json.Unmarshal syntax error (includes the empty body, trailing garbage)
  | badField            -- reject / unchange / reject_reason of the wrong JSON type
  | jsonNull            -- the body is the JSON value `null`: Unmarshal is a no-op, no error
  | parsed (reject : Bool) (reason : Str) (unchange : Bool) (content : ContentField C)
  deriving DecidableEq, Repr

inductive HttpReply (C : Type)
  | connErr                         -- client.Do fails: refused, reset, EOF …
  | status (code : Nat) (body : Body C)
  deriving DecidableEq, Repr

/-- http.go `httpPlugin.Handle` + `do`: what `Handle` returns for a given HTTP exchange.
    `zero` is the zero value of the content type. -/
def httpHandle {C : Type} (zero : C) : HttpReply C → Ret C
  | .connErr => .err                                         -- resp, err := p.client.Do(req); err != nil
  | .status code body =>
    if code ≠ 200 then .err                                  -- resp.StatusCode != http.StatusOK
    else match body with
      | .readErr => .err                                     -- io.ReadAll
      | .malformed => .err                                   -- json.Unmarshal
      | .badField => .err
      | .jsonNull => .resp false [] false (some zero)        -- res untouched: Reject=false, Unchange=false
      | .parsed reject reason unchange content =>
        match content with
        | .wrongType => .err
        | .absent => .resp reject reason unchange (some zero)
        | .null => .resp reject reason unchange none
        | .obj c => .resp reject reason unchange (some c)

/-! ### what the property talks about -/

/-- the plugin lets the operation pass (neither error, nor reject, nor an unusable content) -/
def Ret.passes {C : Type} : Ret C → Bool
  | .err => false
  | .resp reject _ unchange content => !reject && (unchange || content.isSome)

/-- the content handed on after this answer (when it passes) -/
def Ret.next {C : Type} (r : Ret C) (c : C) : C :=
  match r with
  | .err => c
  | .resp _ _ unchange content => if unchange then c else content.getD c

/-- the plugins of the chain paired with the content each one is handed provided everybody
    before it passed: the left-to-right composition of the modifications -/
def steps {C : Type} (op : Op) : List (Plugin C) → C → List (Plugin C × C)
  | [], _ => []
  | p :: ps, c => (p, c) :: steps op ps ((p.handle op c).next c)

/-- the content after the whole chain: `foldl` of the modifications -/
def final {C : Type} (op : Op) (ps : List (Plugin C)) (c : C) : C :=
  ps.foldl (fun c p => (p.handle op c).next c) c

def stepPasses {C : Type} (op : Op) (s : Plugin C × C) : Bool := (s.1.handle op s.2).passes

def seenOf {C : Type} (s : Plugin C × C) : Seen C := (s.1.id, s.2)

/-! ### how a refusal is reported to the peer (server/service.go, server/control.go) -/

/-- pkg/util/util `GenerateResponseErrorString(summary, err, detailed)`; `msg = err.Error()`.
    The result is written into LoginResp.Error / NewProxyResp.Error / Pong.Error /
    StartWorkConn.Error; the peer reads `""` as success. -/
def respError (detailed : Bool) (summary msg : Str) : Str :=
  if detailed ∧ msg ≠ [] then msg else summary

/-- the same function in the pinned tree c9fd674 (before /repo fix e4ec556): the error text was
    copied even when empty -/
def respErrorOld (detailed : Bool) (summary msg : Str) : Str := if detailed then msg else summary

/-! ### close-proxy notifications at the call sites (server/control.go) -/

/-- events of one session as far as proxies are concerned -/
inductive SessOp
  | newProxy (name : Str)       -- Control.RegisterProxy succeeded
  | closeProxy (name : Str)     -- msg.CloseProxy → Control.CloseProxy
  | sessionEnd                  -- Control.worker() after the dispatcher is done
  deriving DecidableEq, Repr

structure Sess where
  proxies : List Str := []      -- ctl.proxies (keys)
  stopped : List Str := []      -- every pxy.Close() done by CloseProxy / worker, in order
  notified : List Str := []     -- every `go pluginManager.CloseProxy(notifyContent)` started
  deriving DecidableEq, Repr

/-- control.go `RegisterProxy` (the bookkeeping part: `pxyManager.Exist` refuses a second proxy
    of the same name), `CloseProxy`, `worker`. -/
def Sess.step (s : Sess) : SessOp → Sess
  | .newProxy n => if s.proxies.contains n then s else { s with proxies := s.proxies ++ [n] }
  | .closeProxy n =>
    if s.proxies.contains n then
      { proxies := s.proxies.filter (· ≠ n), stopped := s.stopped ++ [n], notified := s.notified ++ [n] }
    else s                                                      -- `if !ok { return }`
  | .sessionEnd =>
    { proxies := [], stopped := s.stopped ++ s.proxies, notified := s.notified ++ s.proxies }

def Sess.run (s : Sess) (ops : List SessOp) : Sess := ops.foldl Sess.step s

/-! ### the same call sites with the plugin chain attached: what each notification does

  control.go `CloseProxy` (explicit close) and `worker` (session end) both build a
  `notifyContent{User: loginMsg.User…, CloseProxy{ProxyName: pxy.GetName()}}` per proxy and start
  ONE goroutine per proxy:  `go func() { _ = ctl.pluginManager.CloseProxy(notifyContent) }()`.
  The goroutine's result is discarded; no goroutine waits for, or looks at, another one.
  `worker` ranges over the map `ctl.proxies` (any order). -/

/-- the `Handle` calls made by the notification goroutine of proxy `n`
    (`mk n` = the `CloseProxyContent` built for it; `R` = `pluginManager.closeProxyPlugins`) -/
def notifyGo {C : Type} (R : List (Plugin C)) (mk : Str → C) (n : Str) : List (Seen C) :=
  (closeAll R (mk n)).2

/-- session bookkeeping as `Sess`, plus `notes`: one entry per notification goroutine started (in
    start order), holding the `Handle` calls that goroutine makes (in its own order) -/
structure SessP (C : Type) where
  proxies : List Str := []
  stopped : List Str := []
  notes : List (List (Seen C)) := []

/-- control.go `RegisterProxy` / `CloseProxy` / `worker` with the notification goroutines spelled out.
    `sessionEnd`: `for _, pxy := range ctl.proxies { pxy.Close(); …; go CloseProxy(notifyContent) }`
    (the model ranges in registration order; `C15.notify_all_schedules` covers every other map order
    and every interleaving of the goroutines). -/
def SessP.step {C : Type} (R : List (Plugin C)) (mk : Str → C) (s : SessP C) : SessOp → SessP C
  | .newProxy n => if s.proxies.contains n then s else { s with proxies := s.proxies ++ [n] }
  | .closeProxy n =>
    if s.proxies.contains n then
      { proxies := s.proxies.filter (· ≠ n), stopped := s.stopped ++ [n],
        notes := s.notes ++ [notifyGo R mk n] }
    else s                                                      -- `if !ok { return }`
  | .sessionEnd =>
    { proxies := [], stopped := s.stopped ++ s.proxies,
      notes := s.notes ++ s.proxies.map (notifyGo R mk) }

def SessP.run {C : Type} (R : List (Plugin C)) (mk : Str → C) (s : SessP C) (ops : List SessOp) : SessP C :=
  ops.foldl (SessP.step R mk) s

/-! ### the concrete contents and plugin behaviours the correspondence engine uses -/

/-- two visible string members of a content (per op: Login.User / ClientAddress,
    NewProxy.ProxyName / User.User, …; see harness/eng_plugin.go) -/
structure Content where
  a : Str
  b : Str
  deriving DecidableEq, Repr

def Content.zero : Content := ⟨[], []⟩

/-- scripted behaviours: stub `Plugin` implementations (`s…`) and scripts of the HTTP server a real
    `httpPlugin` talks to (`h…`).  `x1`, `x2` are string arguments. -/
inductive Beh
  | acc | accC (x : Str) | app (x : Str) | setb (x : Str) | zero | rej (r : Str) | rejmod (r x : Str)
  | err | nil | rejsuf (x r : Str) | errsuf (x : Str)
  | hacc | happ (x : Str) | hpart (x : Str) | haccC (x : Str) | hrej (r : Str) | hrejU (r : Str)
  | hempty | hnull | hcnull | hcnullU | hcstr | hbadfield | hmal | htrunc | hstatus (code : Nat)
  | hconn | hrejsuf (x r : Str) | herrsuf (x : Str)
  | hxlat (t v : Str) | hsub (t v : Str)
  deriving DecidableEq, Repr

def Beh.reply (b : Beh) (c : Content) : HttpReply Content :=
  match b with
  | .hacc => .status 200 (.parsed false [] true .absent)
  | .happ x => .status 200 (.parsed false [] false (.obj ⟨c.a ++ x, c.b⟩))
  | .hpart x => .status 200 (.parsed false [] false (.obj ⟨c.a ++ x, []⟩))
  | .haccC x => .status 200 (.parsed false [] true (.obj ⟨c.a ++ x, c.b⟩))
  | .hrej r => .status 200 (.parsed true r false .absent)
  | .hrejU r => .status 200 (.parsed true r true .absent)
  | .hempty => .status 200 (.parsed false [] false .absent)
  | .hnull => .status 200 .jsonNull
  | .hcnull => .status 200 (.parsed false [] false .null)
  | .hcnullU => .status 200 (.parsed false [] true .null)
  | .hcstr => .status 200 (.parsed false [] true .wrongType)
  | .hbadfield => .status 200 .badField
  | .hmal => .status 200 .malformed
  | .htrunc => .status 200 .readErr
  | .hstatus code => .status code (.parsed false [] true .absent)
  | .hrejsuf x r =>
    if x.isSuffixOf c.a then .status 200 (.parsed true r false .absent)
    else .status 200 (.parsed false [] true .absent)
  | .herrsuf x =>                   -- transient / content-dependent failure: 500 for some contents only
    if x.isSuffixOf c.a then .status 500 (.parsed false [] true .absent)
    else .status 200 (.parsed false [] true .absent)
  | .hxlat t v =>                   -- a translator: the ticket `t` becomes `v`, anything else is turned away
    if c.a = t then .status 200 (.parsed false [] false (.obj ⟨v, c.b⟩))
    else .status 200 (.parsed true (Str.ofString "no ticket") false .absent)
  | .hsub t v =>                    -- `t` becomes `v`, anything else passes as it is
    if c.a = t then .status 200 (.parsed false [] false (.obj ⟨v, c.b⟩))
    else .status 200 (.parsed false [] true .absent)
  | _ => .connErr

def Beh.isHttp : Beh → Bool
  | .hacc | .happ _ | .hpart _ | .haccC _ | .hrej _ | .hrejU _ | .hempty | .hnull | .hcnull
  | .hcnullU | .hcstr | .hbadfield | .hmal | .htrunc | .hstatus _ | .hconn | .hrejsuf _ _
  | .herrsuf _ | .hxlat _ _ | .hsub _ _ => true
  | _ => false

def Beh.handle (b : Beh) (c : Content) : Ret Content :=
  match b with
  | .acc => .resp false [] true none
  | .accC x => .resp false [] true (some ⟨c.a ++ x, c.b⟩)
  | .app x => .resp false [] false (some ⟨c.a ++ x, c.b⟩)
  | .setb x => .resp false [] false (some ⟨c.a, x⟩)
  | .zero => .resp false [] false (some Content.zero)
  | .rej r => .resp true r true none
  | .rejmod r x => .resp true r false (some ⟨c.a ++ x, c.b⟩)
  | .err => .err
  | .nil => .resp false [] false none
  | .rejsuf x r => if x.isSuffixOf c.a then .resp true r true none else .resp false [] true none
  | .errsuf x => if x.isSuffixOf c.a then .err else .resp false [] true none
  | h => httpHandle Content.zero (h.reply c)

def Beh.toPlugin (b : Beh) (id : Nat) (ops : List Str) : Plugin Content :=
  { id := id, ops := ops, handle := fun _ c => b.handle c }

end PluginChain
end Frp
