import Frp.Model.Layers
/-
  C03 — the wrapper stacks of the connections that carry UDPPacket frames, as each site builds them.
  Hand-written mirror (stacks are listed from the wire upwards, as in Frp/Model/Layers.lean, which is C01's and is
  only read here):

    server/proxy/udp.go   UDPProxy.Run, work-connection loop
        var rwc io.ReadWriteCloser = workConn
        if UseEncryption  { rwc, err = libio.WithEncryption(rwc, token) }
        if UseCompression { rwc = libio.WithCompression(rwc) }
        if GetLimiter() != nil { rwc = WrapReadWriteCloser(limit.NewReader(inner,…), limit.NewWriter(inner,…), …) }
                                                                                   → `srvUdpWrap`
    client/proxy/udp.go   UDPProxy.InWorkConn
        var rwc io.ReadWriteCloser = conn
        if pxy.limiter != nil { rwc = WrapReadWriteCloser(limit.NewReader(conn,…), limit.NewWriter(conn,…), …) }
        if UseEncryption  { rwc, err = libio.WithEncryption(rwc, token) }
        if UseCompression { rwc = libio.WithCompression(rwc) }                   → `cliUdpWrap`
    client/proxy/sudp.go  SUDPProxy.InWorkConn            the same three steps     → `cliSudpWrap`
    server/proxy/sudp.go  → BaseProxy.handleUserTCPConnection (work connection)    → `Layers.serverStack`
    client/visitor/sudp.go getNewVisitorConn
        if UseEncryption  { remote, err = libio.WithEncryption(remote, secretKey) }
        if UseCompression { remote = libio.WithCompression(remote) }              → `visSudpWrap`
    server/visitor/visitor.go Manager.NewConn (flags from NewVisitorConn)          → `Layers.visitorServerStack`

  A write on top of a stack passes the layers from the LAST element to the first (compression, then encryption,
  then the wire); the peer must undo them in the opposite order, i.e. must have built the same list.
-/
namespace Frp
namespace UdpLayers
open Layers

/-- server/proxy/udp.go Run -/
def srvUdpWrap (o : Opts) : List Kind := opt o.enc .enc ++ opt o.comp .comp ++ opt o.limSrv .limit

/-- client/proxy/udp.go InWorkConn -/
def cliUdpWrap (o : Opts) : List Kind := opt o.limCli .limit ++ opt o.enc .enc ++ opt o.comp .comp

/-- client/proxy/sudp.go InWorkConn -/
def cliSudpWrap (o : Opts) : List Kind := opt o.limCli .limit ++ opt o.enc .enc ++ opt o.comp .comp

/-- client/visitor/sudp.go getNewVisitorConn (options of the VISITOR config) -/
def visSudpWrap (enc comp : Bool) : List Kind := opt enc .enc ++ opt comp .comp

/-- what a site would build if it wrapped compression first and encryption second (NOT what any site does:
    the counter-example the mirror theorem excludes) -/
def swappedWrap (o : Opts) : List Kind := opt o.comp .comp ++ opt o.enc .enc

/-- two ends understand each other iff the byte-transforming parts of their stacks are the same list -/
def compatible (a b : List Kind) : Bool := transforming a == transforming b

end UdpLayers
end Frp
