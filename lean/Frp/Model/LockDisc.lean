/-
  C16 obligation 1 + 3a: the judgement over the facts extracted by translate/gen_lockfacts.go.

  The extractor only reports WHAT it saw (kind of access, lock mode syntactically held at that point,
  context of the enclosing function); which mode an access needs and whether the held mode covers it
  is decided here, so that the rule is part of what Lean checks.
-/
namespace Frp
namespace LockDisc

/-- how a designated table is touched -/
inductive Kind
  | read      -- m[k] in an expression
  | write     -- m[k] = v, m[k]++ …
  | delete    -- delete(m, k)
  | range     -- for … := range m
  | len       -- len(m)
  | assign    -- m = …            (the field itself is replaced)
  | use       -- bare mention (append(m, …), m[i:j], passed on, compared)
  | callR     -- call of a helper whose contract is "caller holds the lock for reading"
  | callW     -- call of a helper whose contract is "caller holds the lock for writing"
  deriving DecidableEq, Repr

/-- lock mode syntactically held on the table's own mutex at the access -/
inductive Held | none | r | w
  deriving DecidableEq, Repr

/-- context of the enclosing function -/
inductive Ctx
  | plain     -- ordinary function
  | helper    -- documented "caller holds the lock" helper (analysed with the lock held on entry)
  | ctor      -- constructor: the object is not shared yet
  deriving DecidableEq, Repr

inductive Need | r | w
  deriving DecidableEq, Repr

def Kind.need : Kind → Need
  | .read | .range | .len | .use | .callR => .r
  | .write | .delete | .assign | .callW => .w

def covers : Held → Need → Bool
  | .w, _ => true
  | .r, .r => true
  | _, _ => false

structure Access where
  file : String
  fn : String
  line : Nat
  obj : String
  kind : Kind
  held : Held
  ctx : Ctx
  deriving DecidableEq, Repr

/-- the access is synchronised (or cannot be concurrent: constructor) -/
def Access.ok (a : Access) : Bool :=
  a.ctx == .ctor || covers a.held a.kind.need

/-- identity of a site that does not depend on line numbers -/
def Access.site (a : Access) : String × String × String := (a.file, a.fn, a.obj)

/-! ## channels -/

inductive CloseGuard
  | once            -- inside the function literal of a sync.Once.Do
  | flag            -- under / after a test of a closed-flag in the same function
  | selectDefault   -- `select { case <-ch: default: close(ch) }`
  | localChan       -- the channel is a local of the closing function (sole owner)
  | none
  deriving DecidableEq, Repr

structure CloseSite where
  file : String
  fn : String
  line : Nat
  chan : String
  guard : CloseGuard
  deriving DecidableEq, Repr

def CloseSite.site (c : CloseSite) : String × String × String := (c.file, c.fn, c.chan)

inductive SendGuard
  | panicToError    -- inside errors.PanicToError(func(){ … })
  | deferRecover    -- the enclosing function (or closure) has `defer func(){ recover() }()`
  | none
  deriving DecidableEq, Repr

structure SendSite where
  file : String
  fn : String
  line : Nat
  chan : String
  guard : SendGuard
  deriving DecidableEq, Repr

def SendSite.site (s : SendSite) : String × String × String := (s.file, s.fn, s.chan)

/-- a close site is acceptable if it is mechanically guarded or it is one of the pinned
    single-owner sites (functions that run once per object; read from the code, listed in Props/C16) -/
def CloseSite.okWith (owners : List (String × String × String)) (c : CloseSite) : Bool :=
  c.guard != .none || owners.contains c.site

def SendSite.okWith (owners : List (String × String × String)) (s : SendSite) : Bool :=
  s.guard != .none || owners.contains s.site

/-! ## pointer-typed message fields (facts of translate/gen_nilfacts.go)

  A pointer-typed field of a protocol message is nil when the peer omits it.  The extractor reports
  what the code does with such a field; which uses DEREFERENCE it is decided here. -/

inductive PtrUseKind
  | fieldSel (f : String)                   -- x.F.f            : a load through the pointer
  | star                                    -- *x.F
  | method (m : String)                     -- x.F.m(…)         : dereferences unless m is written for nil receivers
  | arg (callee : String) (idx : Nat)       -- callee(…, x.F, …): whatever the callee does with it
  | argFollowed (callee : String) (idx : Nat) -- same, and the extractor listed the uses of the parameter in the callee
  | nilCmp                                  -- x.F == nil, x.F != nil
  | store                                   -- x.F = …, T{F: x.F}: the pointer is copied, not followed
  | other (what : String)                   -- a shape the extractor does not classify (alias, return, send …)
  deriving DecidableEq, Repr

structure PtrUse where
  file : String
  fn : String
  line : Nat
  expr : String
  field : String      -- Owner.Field
  typ : String        -- declared type of the field
  kind : PtrUseKind
  guarded : Bool      -- under `if expr != nil` / after `if expr == nil { return | continue | … }`
  deriving DecidableEq, Repr

def PtrUse.site (u : PtrUse) : String × String × String := (u.file, u.fn, u.expr)

/-- may this use follow a nil pointer?  `nilSafe` = (type, method) pairs whose method starts with a nil
    test of the receiver; `tolerant` = callees that test the argument before using it (both pinned in
    Props/C16.lean from reading the callee's source). Unclassified shapes count as dereferences. -/
def PtrUse.derefs (nilSafe : List (String × String)) (tolerant : List String) (u : PtrUse) : Bool :=
  match u.kind with
  | .fieldSel _ => true
  | .star => true
  | .method m => !nilSafe.contains (u.typ, m)
  | .arg callee _ => !tolerant.contains callee
  | .argFollowed _ _ => false
  | .nilCmp => false
  | .store => false
  | .other _ => true

def PtrUse.okWith (nilSafe : List (String × String)) (tolerant : List String) (u : PtrUse) : Bool :=
  u.guarded || !u.derefs nilSafe tolerant

end LockDisc
end Frp
