/-
  Model of a FAULT IN THE MIDDLE OF AN EXCHANGE (property C02: "the user receives the backend's status … and
  body bytes unchanged, for bodies of any size and framing"; symmetric for request bodies): a sender of an
  HTTP/1.1 message dies after `k` bytes of the body, and the message passes one or more relaying hops
  (frps' `httputil.ReverseProxy` behind its `http.Server`; before that, for the http2http / http2https /
  https2http / https2https client plugins, the plugin's own ReverseProxy behind the plugin's `http.Server`).

    GOROOT/src/net/http/transfer.go, internal/chunked.go (ASSUMED)   how a body ends on the wire:
        Content-Length  the announced number of bytes has arrived     (fewer + close ⇒ io.ErrUnexpectedEOF)
        chunked         the terminating chunk `0\r\n\r\n` has arrived  (close before it ⇒ io.ErrUnexpectedEOF)
        close-delimited the connection was closed                     (a sender that dies is indistinguishable
                                                                       from one that is done)
    GOROOT/src/net/http/httputil/reverseproxy.go (go1.23, ASSUMED)   ServeHTTP:
        `err = p.copyResponse(rw, res.Body, p.flushInterval(res))`
        `if err != nil { defer res.Body.Close(); if !shouldPanicOnCopyError(req) { p.logf(…); return }; panic(http.ErrAbortHandler) }`
        shouldPanicOnCopyError: true iff the request context carries `http.ServerContextKey` (a real http.Server
        is in front) — the panic is the ONLY way the server learns that the answer must be aborted
    GOROOT/src/net/http/server.go (ASSUMED)   conn.serve: `defer func() { if err := recover(); … c.close() … }` —
        the user's connection is closed without the end of the framing; a handler that RETURNS normally is
        finished by `finishRequest`: a chunked answer gets its terminating chunk, an answer with fewer bytes
        than its declared Content-Length makes the server close the connection (`closeAfterReply`)
    pkg/util/vhost/http.go   `HTTPReverseProxy.ServeHTTP`, the handler wrapped by `h2c.NewHandler`: no
        `recover()` between `proxy.ServeHTTP` and the server (regenerated: Gen/HttpFacts.recoverSites)
    GOROOT/src/net/http/transport.go (ASSUMED)   persistConn.writeLoop: an error while reading the request body
        ⇒ `pc.close(err)`: the backend connection is closed, a chunked body gets no terminating chunk

  Payload bytes are opaque: a body is its length, a reader's result is how many bytes it got (always a
  prefix of what was written — byte-for-byte transport is C01's and is sampled by the engines with len +
  FNV) and whether the framing ENDED PROPERLY.
-/
namespace Frp
namespace HttpAbort

inductive Framing
  | cl    -- Content-Length
  | ch    -- Transfer-Encoding: chunked
  | eof   -- close-delimited (answers only)
deriving DecidableEq, Repr

/-- what one sender did on its connection -/
structure Sent where
  fr    : Framing
  /-- length of the body the sender set out to send (`cl`: announced in the header block) -/
  total : Nat
  /-- body bytes written before the sender stopped -/
  k     : Nat
  /-- the sender died (closed the connection) instead of finishing the framing -/
  died  : Bool
deriving DecidableEq, Repr

/-- what a reader of one message observed -/
structure Read where
  n     : Nat      -- body bytes received
  ended : Bool     -- the framing ended properly: a well-formed, complete message
deriving DecidableEq, Repr

/-- reading a sender's message directly off its connection -/
def readOf (s : Sent) : Read :=
  match s.fr with
  | .cl  => { n := s.k, ended := decide (s.k = s.total) }   -- all announced bytes are there, whatever happens next
  | .ch  => { n := s.k, ended := !s.died }                  -- the terminating chunk is written iff the sender finished
  | .eof => { n := s.k, ended := true }                     -- a close IS the end

/-- the environment of a relaying `ReverseProxy.ServeHTTP` -/
structure Env where
  /-- the request context carries `http.ServerContextKey` (a real `http.Server` runs the handler) -/
  serverCtx : Bool
  /-- some frame between `ReverseProxy.ServeHTTP` and `conn.serve` recovers the panic -/
  recovers  : Bool
deriving DecidableEq, Repr

/-- the framing towards an HTTP/1.1 reader: kept, a close-delimited body is re-framed as chunked -/
def outFr : Framing → Framing
  | .cl => .cl
  | .ch => .ch
  | .eof => .ch

/-- one ANSWER hop: the hop reads the message of `s` (Transport) and is the sender of the next connection
    (`http.Server`).  `lost` = bytes read but still buffered when the hop aborted (never flushed). -/
def hop (e : Env) (s : Sent) (lost : Nat) : Sent :=
  let r := readOf s
  if r.ended then
    -- copyResponse returned nil: the handler returns, the server finishes the framing
    { fr := outFr s.fr, total := (if s.fr = .eof then r.n else s.total), k := r.n, died := false }
  else
    -- copyResponse failed.  panic(ErrAbortHandler) reaches conn.serve iff it is raised and nobody recovers it;
    -- otherwise the handler returns normally and the server FINISHES the answer (Content-Length answers are
    -- still cut: the server sees `written < declared` and closes the connection)
    let aborted := e.serverCtx && !e.recovers
    { fr := outFr s.fr, total := s.total, k := r.n - lost, died := aborted || decide (s.fr = .cl) }

/-- one REQUEST hop (Transport.writeLoop): a failed read of the request body closes the backend connection -/
def hopUp (s : Sent) (lost : Nat) : Sent :=
  let r := readOf s
  if r.ended then { fr := s.fr, total := s.total, k := r.n, died := false }
  else { fr := s.fr, total := s.total, k := r.n - lost, died := true }

/-- a chain of answer hops, innermost first (`envs` and the bytes each hop lost) -/
def chain : List (Env × Nat) → Sent → Sent
  | [], s => s
  | (e, lost) :: rest, s => chain rest (hop e s lost)

def chainUp : List Nat → Sent → Sent
  | [], s => s
  | lost :: rest, s => chainUp rest (hopUp s lost)

/-- what C02 promises the final reader about the message of sender `s`:
      * it never receives more than the sender wrote,
      * it never takes a SHORTENED message for a complete one: a read that ended properly has every byte the
        sender set out to send — except for a close-delimited body, where the sender's death cannot be told
        from its end; then every byte written before the close,
      * a message the sender completed arrives complete. -/
def Faithful (s : Sent) (u : Read) : Prop :=
  u.n ≤ s.k ∧
  (u.ended = true → (if s.fr = .eof then u.n = s.k else u.n = s.total)) ∧
  ((readOf s).ended = true → u.ended = true ∧ u.n = s.k)

instance (s : Sent) (u : Read) : Decidable (Faithful s u) := by unfold Faithful; exact inferInstance

/-- the senders the engines produce: never more bytes than announced -/
def WF (s : Sent) : Prop := s.k ≤ s.total ∧ (s.died = false → s.k = s.total)

instance (s : Sent) : Decidable (WF s) := by unfold WF; exact inferInstance

end HttpAbort
end Frp
