import Frp.Model.Ports
import Frp.Model.ConfNum
/-
  The path "operator's allowPorts configuration → port managers' seed set".

  Go sources mirrored here:
    pkg/config/types/types.go   PortsRange{Start,End,Single}, PortsRangeSlice
                                (the textual form `NewPortsRangeSliceFromString` / `String` is
                                 Frp/Model/ConfNum.lean: `parseRanges` / `printRanges`, property C18)
    pkg/config/v1/server.go     ServerConfig.Complete   (leaves AllowPorts as the operator wrote it)
    server/ports/ports.go       NewManager              (fills freePorts from the entries)
    server/service.go           NewService              (tcp and udp manager from the same cfg.AllowPorts)

  An entry MEANS: the one port `single` if `single > 0`, otherwise every port of `start … end`
  (that is also how `PortsRangeSlice.String` prints it).  The allowed set is the union of the entries;
  entries may overlap, touch, repeat and come in any order.
-/
namespace Frp
namespace AllowPorts
open ConfNum (PortsRange)

/-- the meaning of one entry -/
def covers (e : PortsRange) (p : Int) : Prop :=
  if e.single > 0 then p = e.single else e.start ≤ p ∧ p ≤ e.stop

instance (e : PortsRange) (p : Int) : Decidable (covers e p) := by unfold covers; infer_instance

/-- the operator's allowed set: the union of the entries; no entry at all = every port 1 … 65535 -/
def allowedBy (a : List PortsRange) (p : Int) : Prop :=
  (a = [] ∧ 1 ≤ p ∧ p ≤ 65535) ∨ ∃ e ∈ a, covers e p

instance (a : List PortsRange) (p : Int) : Decidable (allowedBy a p) := by unfold allowedBy; infer_instance

/-- `for i := lo; i <= hi; i++` -/
def intRange (lo hi : Int) : List Int := (List.range (hi + 1 - lo).toNat).map (fun (k : Nat) => lo + (k : Int))

/-- the keys one iteration of NewManager's loop writes into `freePorts` -/
def entryPorts (e : PortsRange) : List Int :=
  if e.single > 0 then [e.single] else intRange e.start e.stop

/-- `ServerConfig.Complete()` on the AllowPorts field: nothing is changed, added or dropped -/
def complete (a : List PortsRange) : List PortsRange := a

/-- `ports.NewManager(netType, bindAddr, allowPorts)`: the key set of `freePorts` (a Go map: a set) -/
def seed (a : List PortsRange) : List Int :=
  if a.length > 0 then a.flatMap entryPorts else intRange 1 65535

/-- the keys that are port numbers.  A negative key can never be handed out: `isPortAvailable` fails
    on it (`net.Listen` rejects the address), so `Acquire` answers `port unavailable` for it. -/
def seedNat (a : List PortsRange) : List Nat :=
  (seed a).filterMap (fun i => if 0 ≤ i then some i.toNat else none)

/-- `server.NewService(cfg)` after `cfg.Complete()`: both managers are seeded from the same list -/
def newService (a : List PortsRange) (maxPorts : Nat) : Ports.Srv :=
  Ports.Srv.new (seedNat (complete a)) (seedNat (complete a)) maxPorts

/-! ### canonical rendering of a port set as maximal intervals (for the driver) -/

/-- sorted, duplicate-free list → maximal runs `(lo, hi)` -/
def runs : List Int → List (Int × Int)
  | [] => []
  | x :: xs =>
    match runs xs with
    | (lo, hi) :: rest => if lo = x + 1 then (x, hi) :: rest else if lo = x then (lo, hi) :: rest else (x, x) :: (lo, hi) :: rest
    | [] => [(x, x)]

def intervals (l : List Int) : List (Int × Int) := runs (l.mergeSort (fun a b => decide (a ≤ b)))

end AllowPorts
end Frp
