/-
  C10 — `UDPProxy.Close` racing the proxy's own goroutines (server/proxy/udp.go), small-step.

    Close (holds pxy.mu):   isClosed = true; pxy.workConn.Close()        … closeConn
                            close(pxy.checkCloseCh)                       … closeCh
    reader of the current connection:  read error → conn.Close(); `pxy.checkCloseCh <- 1` (PanicToError)
    loop of Run:            `_, ok := <-pxy.checkCloseCh`; !ok → return; ok → GetWorkConnFromPool, wrap,
                            `pxy.workConn = …`, new reader / sender, wait again

  The reader's send and the loop's receive are one rendezvous (`readerSignal`).  AS THE CODE IS, the reader
  is woken by `closeConn` and its send can be received BEFORE `closeCh`: the loop then takes one more work
  connection for the proxy that is being closed; `Close` has already closed "the" work connection, nobody
  closes the new one (its reader ends it at the 60 s read deadline, or frpc closes it).
  `fixed = true` is the repaired loop (hooks/C10-fix-udp-late-workconn.patch): after taking a connection it
  locks pxy.mu — i.e. waits for a `Close` in progress — and closes the connection instead of installing it
  when `isClosed` is set.
-/
namespace Frp
namespace UdpCloseRace

structure RS where
  connClosed : Bool := false    -- Close ran `pxy.workConn.Close()` (isClosed is set)
  chClosed   : Bool := false    -- Close ran `close(pxy.checkCloseCh)`
  readerDone : Bool := false    -- the woken reader has made (or failed) its send
  loopExited : Bool := false
  late       : Nat := 0         -- work connections installed after Close had started and left open
  lateClosed : Nat := 0         -- work connections taken after Close had started and closed at once
  deriving DecidableEq, Repr

inductive Ev | closeConn | closeCh | readerSignal
  deriving DecidableEq, Repr

def step (fixed : Bool) (s : RS) : Ev → RS
  | .closeConn => if s.connClosed then s else { s with connClosed := true }
  | .closeCh =>
    if s.connClosed && !s.chClosed then { s with chClosed := true, loopExited := true } else s
  | .readerSignal =>
    if s.connClosed && !s.readerDone then
      if s.chClosed || s.loopExited then { s with readerDone := true }       -- send on closed channel: recovered
      else if fixed then
        -- the loop takes a connection, then waits for pxy.mu (Close finishes: closeCh), sees isClosed
        { s with readerDone := true, chClosed := true, loopExited := true, lateClosed := s.lateClosed + 1 }
      else { s with readerDone := true, late := s.late + 1 }                 -- installed; the loop waits again
    else s

def run (fixed : Bool) (evs : List Ev) : RS := evs.foldl (step fixed) {}

end UdpCloseRace
end Frp
