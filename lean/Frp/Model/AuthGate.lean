import Frp.Model.Str
/-
  AuthGate: what frps does with the FIRST message of a connection and with heartbeats, as far as
  client credentials are concerned.  Mirrors, as the code is now:

    server/service.go   handleConnection, RegisterControl, RegisterWorkConn, RegisterVisitorConn
    server/control.go   ControlManager.Add/Del/GetByID, NewControl, handlePing, handleNewProxy / handleCloseProxy
                        (name table only),
                        Control.RegisterWorkConn (bounded pool), GetWorkConn (head of the pool), worker (session end)
    pkg/auth/token.go   VerifyLogin / VerifyPing / VerifyNewWorkConn
    pkg/auth/oidc.go    NewTokenVerifier (the oidc.Config it builds), OidcAuthConsumer (subjectsFromLogin)
    go-oidc/v3 verify.go IDTokenVerifier.Verify: the claim-level decision (issuer, audience, expiry / nbf);
                        parsing and the signature check are abstract
    go-oidc/v3 jwks.go  RemoteKeySet.verify (cached keys first, refetch on a miss): `Idp`, `sigOkAt`, `cacheAfterSig`
    pkg/auth/pass.go    AlwaysPassVerifier
    pkg/util/util/util.go GetAuthKey  (abstract `Prim.H`)
    pkg/ssh/gateway.go  NewGateway (NoClientAuth, PublicKeyCallback, loadAuthorizedKeysFromFile)
    pkg/ssh/server.go   TunnelServer.Run (virtual client: ClientSpec.AlwaysAuthPass, user, proxy, work connection)
    pkg/virtual/client.go  pipeConnector (every connection of the virtual client goes to the internal listener)

  Abstract primitives (nothing is assumed about them):
    `Prim.H token ts`      = util.GetAuthKey(token, ts) = hex(md5(token ++ decimal(ts)))   [no separator
                             between token and timestamp; no freshness check on ts anywhere]
    `Prim.jwtClaims key`   = go-oidc `parseJWT` + `json.Unmarshal` of the payload: `none` = malformed
    `Prim.jwtSigOk key`    = `jose.ParseSigned(key, provider algs)` + `RemoteKeySet.VerifySignature`: the token is
                             signed, with a supported algorithm, by a key the provider's JWKS publishes
    `Prim.now`             = `time.Now()` (same unit as the `exp` / `nbf` claims; the 5 min nbf leeway is `300`)
    `SshAuth.pubkey k proved`: `proved` = the ssh client signed the session with the private key of `k`
                             (golang.org/x/crypto/ssh public-key authentication); the other ssh methods
                             (none, password, keyboard-interactive, gssapi-with-mic) are decided by which fields
                             of `ssh.ServerConfig` are set (`SshSrvCfg`, `sshTry`, `sshAuthLoop`)
  Plugins (`pluginManager.Login/NewWorkConn/Ping`) are arbitrary functions `msg → Option msg`
  (`none` = rejected / error); C15 is about the chain itself.

  Not modelled: the visitor manager's decision (C08; input `vmOk`), port allocation of proxies (the
  name table only), `NewControl` failing (`crypto.NewWriter` error) or panicking for
  `PoolCount < -10` (DESIGN §7 #4, C16) - pool counts are `Nat` here.
-/
namespace Frp
namespace AuthGate

abbrev RunId := Str
abbrev Key := Str
abbrev Subject := Str
abbrev ConnId := Nat

inductive Method | token | oidc
  deriving DecidableEq, Repr

/-- `cfg.Auth.OIDC` as `auth.NewTokenVerifier` turns it into an `oidc.Config`:
    `ClientID: cfg.Audience, SkipClientIDCheck: cfg.Audience == "", SkipExpiryCheck, SkipIssuerCheck`;
    `issuer` = the issuer of the discovered provider (`oidc.NewProvider(ctx, cfg.Issuer)` insists that the
    discovery document names exactly `cfg.Issuer`) -/
structure OidcCfg where
  issuer     : Str := []
  audience   : Str := []
  skipExpiry : Bool := false
  skipIssuer : Bool := false
  deriving DecidableEq, Repr

/-- `cfg.Auth` + `cfg.Transport.MaxPoolCount` -/
structure Cfg where
  method  : Method
  hb      : Bool        -- slices.Contains(additionalScopes, HeartBeats)
  wc      : Bool        -- slices.Contains(additionalScopes, NewWorkConns)
  token   : Str
  maxPool : Nat
  oidc    : OidcCfg := {}
  deriving DecidableEq, Repr

/-- the claims of an ID token go-oidc looks at (`idToken` in verify.go); a missing `exp` is the zero time -/
structure Claims where
  iss : Str
  aud : List Str            -- `audience`: a JSON string or array of strings
  sub : Subject
  exp : Int
  nbf : Option Int
  deriving DecidableEq, Repr

structure Prim where
  H : Str → Int → Key
  jwtClaims : Key → Option Claims
  jwtSigOk : Key → Bool
  now : Int

/-- which verifier object a session holds (`Control.authVerifier`) -/
inductive VKind | cfg | alwaysPass
  deriving DecidableEq, Repr

structure Login where
  runId : RunId
  ts : Int
  key : Key
  aap : Bool            -- ClientSpec.AlwaysAuthPass (json `client_spec.always_auth_pass`)
  poolCount : Nat
  genId : RunId         -- what util.RandID() returns if runId is empty (non-deterministic input)
  deriving DecidableEq, Repr

structure WorkConn where
  runId : RunId
  ts : Int
  key : Key
  deriving DecidableEq, Repr

structure Ping where
  ts : Int
  key : Key
  deriving DecidableEq, Repr

structure Plugins where
  login : Login → Option Login
  work  : WorkConn → Option WorkConn
  ping  : Ping → Option Ping

def Plugins.id : Plugins := { login := some, work := some, ping := some }

/-- one `Control` as far as this property is concerned -/
structure Session where
  runId    : RunId
  ctl      : ConnId          -- the control connection
  vk       : VKind
  poolCap  : Nat             -- cap(workConnCh) = min(PoolCount, MaxPoolCount) + 10
  pool     : List ConnId     -- queued work connections
  proxies  : List Str
  lastPing : Nat             -- number of accepted heartbeats (logical clock of `lastPing.Store`)
  deriving DecidableEq, Repr

/-- `ControlManager.ctlsByRunID` (association list) + `OidcAuthConsumer.subjectsFromLogin` -/
structure Srv where
  sessions : List Session
  subjects : List Subject
  deriving DecidableEq, Repr

def Srv.empty : Srv := { sessions := [], subjects := [] }

def lookup (srv : Srv) (rid : RunId) : Option Session := srv.sessions.find? (·.runId = rid)
def byCtl (srv : Srv) (c : ConnId) : Option Session := srv.sessions.find? (·.ctl = c)
def allProxies (srv : Srv) : List Str := srv.sessions.flatMap (·.proxies)

def updSession (srv : Srv) (rid : RunId) (f : Session → Session) : Srv :=
  { srv with sessions := srv.sessions.map (fun s => if s.runId = rid then f s else s) }

/-! ### go-oidc `IDTokenVerifier.Verify` with the configuration `NewTokenVerifier` builds -/

/-- "accounts.google.com" (`issuerGoogleAccountsNoScheme`) -/
def googleIssNoScheme : Str := [97, 99, 99, 111, 117, 110, 116, 115, 46, 103, 111, 111, 103, 108, 101, 46, 99, 111, 109]
/-- "https://accounts.google.com" (`issuerGoogleAccounts`) -/
def googleIss : Str := [104, 116, 116, 112, 115, 58, 47, 47] ++ googleIssNoScheme
/-- `leeway := 5 * time.Minute` for the nbf claim -/
def nbfLeeway : Int := 300

/-- `!v.config.SkipIssuerCheck && t.Issuer != v.issuer` ⇒ error, except Google's scheme-less issuer -/
def issOk (oc : OidcCfg) (c : Claims) : Bool :=
  oc.skipIssuer || decide (c.iss = oc.issuer) ||
    (decide (oc.issuer = googleIss) && decide (c.iss = googleIssNoScheme))

/-- `SkipClientIDCheck = (Audience == "")`; otherwise `contains(t.Audience, ClientID)` -/
def audOk (oc : OidcCfg) (c : Claims) : Bool :=
  decide (oc.audience = []) || decide (oc.audience ∈ c.aud)

/-- `!SkipExpiryCheck`: `t.Expiry.Before(now)` ⇒ expired; `nbf` present and `now + 5min` before it ⇒ error -/
def timeOk (oc : OidcCfg) (now : Int) (c : Claims) : Bool :=
  oc.skipExpiry ||
    (!decide (c.exp < now) &&
      match c.nbf with
      | none => true
      | some n => !decide (now + nbfLeeway < n))

/-- `verifier.Verify(ctx, key)`: `none` = error, `some sub` = `token.Subject` -/
def oidcVerify (pr : Prim) (oc : OidcCfg) (key : Key) : Option Subject :=
  match pr.jwtClaims key with
  | none => none
  | some c =>
    if issOk oc c && audOk oc c && timeOk oc pr.now c && pr.jwtSigOk key then some c.sub else none

/-! ### verifiers -/

/-- `VerifyLogin`: `none` = error, `some subjects'` = accepted (OIDC appends the subject) -/
def verifyLogin (pr : Prim) (cfg : Cfg) (subjects : List Subject) (vk : VKind) (m : Login) :
    Option (List Subject) :=
  match vk with
  | .alwaysPass => some subjects
  | .cfg =>
    match cfg.method with
    | .token => if pr.H cfg.token m.ts = m.key then some subjects else none
    | .oidc =>
      match oidcVerify pr cfg.oidc m.key with
      | none => none
      | some sub => some (if sub ∈ subjects then subjects else subjects ++ [sub])

/-- `verifyPostLoginToken` -/
def oidcPost (pr : Prim) (oc : OidcCfg) (subjects : List Subject) (key : Key) : Bool :=
  match oidcVerify pr oc key with
  | none => false
  | some sub => decide (sub ∈ subjects)

/-- is `key` what the configured method accepts for `ts` (scope check NOT included) -/
def keyOk (pr : Prim) (cfg : Cfg) (subjects : List Subject) (ts : Int) (key : Key) : Bool :=
  match cfg.method with
  | .token => decide (pr.H cfg.token ts = key)
  | .oidc => oidcPost pr cfg.oidc subjects key

/-- `VerifyPing` -/
def verifyPing (pr : Prim) (cfg : Cfg) (subjects : List Subject) (vk : VKind) (m : Ping) : Bool :=
  match vk with
  | .alwaysPass => true
  | .cfg => !cfg.hb || keyOk pr cfg subjects m.ts m.key

/-- `VerifyNewWorkConn` -/
def verifyWork (pr : Prim) (cfg : Cfg) (subjects : List Subject) (vk : VKind) (m : WorkConn) : Bool :=
  match vk with
  | .alwaysPass => true
  | .cfg => !cfg.wc || keyOk pr cfg subjects m.ts m.key

/-- RegisterControl: `if internal && loginMsg.ClientSpec.AlwaysAuthPass { authVerifier = AlwaysPassVerifier }` -/
def verifierFor (internal : Bool) (m : Login) : VKind :=
  if internal && m.aap then .alwaysPass else .cfg

/--
  Switch for the repair proposed in hooks/C04-fix-workconn-verifier.patch:
  `false` = the code as it is (RegisterWorkConn verifies with `ctl.authVerifier`, i.e. the verifier the
  SESSION was created with, whatever listener the work connection arrived on);
  `true`  = a work connection that did not arrive on the internal listener is verified with the
  configured verifier.
-/
def workVerifierIsFixed : Bool := true

def workVerifier (fixed : Bool) (internal : Bool) (s : Session) : VKind :=
  if fixed && !internal then .cfg else s.vk

/-! ### replies -/

inductive Reply
  | none                       -- nothing written
  | loginOk (rid : RunId)      -- LoginResp{RunID, Error: ""}
  | loginErr                   -- LoginResp{Error}
  | startWorkErr               -- StartWorkConn{Error}
  | visitorOk | visitorErr     -- NewVisitorConnResp
  | pongOk | pongErr
  | proxyOk | proxyErr
  deriving DecidableEq, Repr

structure Out where
  reply  : Reply
  closed : Bool                -- the server closed the connection
  deriving DecidableEq, Repr

/-! ### first message of a connection -/

inductive First
  | login (m : Login)
  | work (m : WorkConn)
  | visitor (runId : RunId) (vmOk : Bool)   -- vmOk = VisitorManager.NewConn returned nil (C08)
  | other                                   -- any other registered message type
  | garbage                                 -- ReadMsg failed (unknown type byte, bad length, bad JSON, timeout)
  deriving DecidableEq, Repr

def effRunId (m : Login) : RunId := if m.runId = [] then m.genId else m.runId

/-- `Service.RegisterControl` (after the plugin) -/
def registerControl (pr : Prim) (cfg : Cfg) (srv : Srv) (internal : Bool) (conn : ConnId) (m : Login) :
    Srv × Out :=
  let rid := effRunId m
  let vk := verifierFor internal m
  match verifyLogin pr cfg srv.subjects vk m with
  | none => (srv, { reply := .loginErr, closed := true })
  | some subj' =>
    let s : Session := { runId := rid, ctl := conn, vk := vk,
                         poolCap := min m.poolCount cfg.maxPool + 10,
                         pool := [], proxies := [], lastPing := 0 }
    -- ctlManager.Add: an old control with the same run id is Replaced (closed, waited for), then overwritten
    ({ sessions := srv.sessions.filter (fun o => o.runId ≠ rid) ++ [s], subjects := subj' },
     { reply := .loginOk rid, closed := false })

/-- `Service.RegisterWorkConn` + `Control.RegisterWorkConn` -/
def registerWork (fixed : Bool) (P : Plugins) (pr : Prim) (cfg : Cfg) (srv : Srv) (internal : Bool)
    (conn : ConnId) (m : WorkConn) : Srv × Out :=
  match lookup srv m.runId with
  | none => (srv, { reply := .none, closed := true })               -- no reply, caller closes
  | some s =>
    match P.work m with
    | none => (srv, { reply := .startWorkErr, closed := true })
    | some m' =>
      if verifyWork pr cfg srv.subjects (workVerifier fixed internal s) m' then
        if s.pool.length < s.poolCap then
          (updSession srv s.runId (fun x => { x with pool := x.pool ++ [conn] }),
           { reply := .none, closed := false })
        else (srv, { reply := .none, closed := true })             -- "pool is full, discarding"
      else (srv, { reply := .startWorkErr, closed := true })

/-- `Service.handleConnection` -/
def handleFirstG (fixed : Bool) (P : Plugins) (pr : Prim) (cfg : Cfg) (srv : Srv) (internal : Bool)
    (conn : ConnId) : First → Srv × Out
  | .login m =>
    match P.login m with
    | none => (srv, { reply := .loginErr, closed := true })
    | some m' => registerControl pr cfg srv internal conn m'
  | .work m => registerWork fixed P pr cfg srv internal conn m
  | .visitor rid vmOk =>
    if rid ≠ [] ∧ (lookup srv rid).isNone then (srv, { reply := .visitorErr, closed := true })
    else if vmOk then (srv, { reply := .visitorOk, closed := false })
    else (srv, { reply := .visitorErr, closed := true })
  | .other => (srv, { reply := .none, closed := true })
  | .garbage => (srv, { reply := .none, closed := true })

/-- the code as it is -/
def handleFirst := handleFirstG workVerifierIsFixed

/-! ### messages on an established control connection -/

/-- `Control.handlePing` for the session whose control connection is `conn`.  An invalid ping is
    answered with `Pong{Error}`; the session is NOT closed (it dies when the heartbeat timeout fires). -/
def handlePing (P : Plugins) (pr : Prim) (cfg : Cfg) (srv : Srv) (conn : ConnId) (m : Ping) : Srv × Out :=
  match byCtl srv conn with
  | none => (srv, { reply := .none, closed := true })
  | some s =>
    match P.ping m with
    | none => (srv, { reply := .pongErr, closed := false })
    | some m' =>
      if verifyPing pr cfg srv.subjects s.vk m' then
        (updSession srv s.runId (fun x => { x with lastPing := x.lastPing + 1 }),
         { reply := .pongOk, closed := false })
      else (srv, { reply := .pongErr, closed := false })

/-- `handleNewProxy` reduced to the name table (`pxyManager.Exist` / `Add`, `ctl.proxies`) -/
def handleNewProxy (srv : Srv) (conn : ConnId) (name : Str) : Srv × Out :=
  match byCtl srv conn with
  | none => (srv, { reply := .none, closed := true })
  | some s =>
    if name ∈ allProxies srv then (srv, { reply := .proxyErr, closed := false })
    else (updSession srv s.runId (fun x => { x with proxies := x.proxies ++ [name] }),
          { reply := .proxyOk, closed := false })

/-- `handleCloseProxy` → `Control.CloseProxy`: the name leaves `ctl.proxies` (and the proxy manager) when THIS
    session holds it, nothing happens otherwise; no reply is written; `lastPing` is not touched -/
def handleCloseProxy (srv : Srv) (conn : ConnId) (name : Str) : Srv × Out :=
  match byCtl srv conn with
  | none => (srv, { reply := .none, closed := true })
  | some s =>
    (updSession srv s.runId (fun x => { x with proxies := x.proxies.filter (fun n => n ≠ name) }),
     { reply := .none, closed := false })

/-- control connection `conn` ends: `worker` drains the pool, closes the proxies; `ctlManager.Del(runID, ctl)`
    deletes only if the table still holds this very control -/
def sessionEnd (srv : Srv) (conn : ConnId) : Srv × Out :=
  ({ srv with sessions := srv.sessions.filter (fun s => s.ctl ≠ conn) }, { reply := .none, closed := true })

/-- the session whose `ctl.proxies` holds `name` (names are unique across sessions: `pxyManager.Add`) -/
def proxyOwner (srv : Srv) (name : Str) : Option Session := srv.sessions.find? (fun s => decide (name ∈ s.proxies))

/-- a user connection arrives at the listener of proxy `name`: server/proxy `GetWorkConnFromPool` →
    `Control.GetWorkConn` takes the HEAD of the owning session's pool and writes `StartWorkConn` on it.
    `none`: no such proxy, or the pool is empty (`ReqWorkConn` to the client, then `userConnTimeout`). -/
def takeWork (srv : Srv) (name : Str) : Srv × Option ConnId :=
  match proxyOwner srv name with
  | none => (srv, none)
  | some s =>
    match s.pool with
    | [] => (srv, none)
    | c :: _ => (updSession srv s.runId (fun x => { x with pool := x.pool.drop 1 }), some c)

/-! ### histories -/

inductive Ev
  | first (internal : Bool) (conn : ConnId) (m : First)
  | ping (conn : ConnId) (m : Ping)
  | newProxy (conn : ConnId) (name : Str)
  | closeProxy (conn : ConnId) (name : Str)
  | drop (conn : ConnId)
  | user (name : Str)                          -- a user connection to the listener of proxy `name`
  deriving DecidableEq, Repr

def stepG (fixed : Bool) (P : Plugins) (pr : Prim) (cfg : Cfg) (srv : Srv) : Ev → Srv × Out
  | .first i c m => handleFirstG fixed P pr cfg srv i c m
  | .ping c m => handlePing P pr cfg srv c m
  | .newProxy c n => handleNewProxy srv c n
  | .closeProxy c n => handleCloseProxy srv c n
  | .drop c => sessionEnd srv c
  | .user n => ((takeWork srv n).1, { reply := .none, closed := (takeWork srv n).2.isNone })

def step := stepG workVerifierIsFixed

def runG (fixed : Bool) (P : Plugins) (pr : Prim) (cfg : Cfg) (srv : Srv) (evs : List Ev) : Srv :=
  evs.foldl (fun s e => (stepG fixed P pr cfg s e).1) srv

def run := runG workVerifierIsFixed

/-! ### time and the provider's key set

  Nothing in frps remembers a verdict: every Login / Ping / NewWorkConn hands its key to `verifier.Verify` again, and
  go-oidc decides with `time.Now()` and with the keys it has AT THAT MOMENT.  What go-oidc does keep is the key
  set: coreos/go-oidc v3 jwks.go `RemoteKeySet.verify` tries the cached keys (`cachedKeys`) whose kid matches and
  only when none verifies fetches `jwks_uri` again, replaces the cache by the answer and tries those.  So the
  answer for one and the same token changes when its `exp` passes, when `nbf` comes within the leeway, and when
  the provider stops publishing the signing key AND the cache has been refreshed since.

  `PrimT` is the time-independent part of `Prim`; `Idp` is what varies: the clock, the JWKS document the provider
  serves now (`none`: the request fails) and the verifier's cached keys.  `primAt` assembles the `Prim` of that
  moment, so every statement proved for all `Prim` holds at every moment. -/

/-- one published verification key (kid + key material) -/
abbrev Jwk := Nat

structure PrimT where
  H : Str → Int → Key
  jwtClaims : Key → Option Claims
  jwsOk : Key → Bool            -- `jose.ParseSigned(key, [RS256])` succeeds with exactly one signature
  sigBy : Key → Jwk → Bool      -- the token's kid is empty or that of the JWK, and `jws.Verify(jwk)` succeeds

structure Idp where
  now   : Int
  jwks  : Option (List Jwk)     -- what GET jwks_uri answers now
  cache : List Jwk              -- RemoteKeySet.cachedKeys
  deriving DecidableEq, Repr

/-- `jose.ParseSigned` + `RemoteKeySet.verify` -/
def sigOkAt (pt : PrimT) (w : Idp) (key : Key) : Bool :=
  pt.jwsOk key &&
    (w.cache.any (pt.sigBy key) ||
      match w.jwks with
      | some ks => ks.any (pt.sigBy key)
      | none => false)

def primAt (pt : PrimT) (w : Idp) : Prim :=
  { H := pt.H, jwtClaims := pt.jwtClaims, jwtSigOk := sigOkAt pt w, now := w.now }

/-- `RemoteKeySet.verify`: the cache afterwards (a hit leaves it; a miss replaces it by the fetched document;
    a failed fetch leaves it) -/
def cacheAfterSig (pt : PrimT) (w : Idp) (key : Key) : List Jwk :=
  if w.cache.any (pt.sigBy key) then w.cache
  else match w.jwks with
    | some ks => ks
    | none => w.cache

/-- `IDTokenVerifier.Verify`: the signature is looked at only after parsing and the claim checks passed -/
def cacheAfterVerify (pt : PrimT) (oc : OidcCfg) (w : Idp) (key : Key) : List Jwk :=
  match pt.jwtClaims key with
  | none => w.cache
  | some c =>
    if issOk oc c && audOk oc c && timeOk oc w.now c && pt.jwsOk key then cacheAfterSig pt w key else w.cache

/-- the key (if any) an event makes frps hand to the OIDC verifier: a login judged by the configured verifier, a
    ping / work connection when the scope is on and the verifier in charge is the configured one (`VerifyPing` /
    `VerifyNewWorkConn` return before `Verify` when the scope is off) -/
def verifiedKey (fixed : Bool) (P : Plugins) (cfg : Cfg) (srv : Srv) : Ev → Option Key
  | .first i _ (.login m) =>
    match P.login m with
    | some m' => if cfg.method = .oidc ∧ verifierFor i m' = .cfg then some m'.key else none
    | none => none
  | .first i _ (.work m) =>
    match lookup srv m.runId with
    | none => none
    | some s =>
      match P.work m with
      | some m' => if cfg.method = .oidc ∧ workVerifier fixed i s = .cfg ∧ cfg.wc = true then some m'.key else none
      | none => none
  | .ping c m =>
    match byCtl srv c with
    | none => none
    | some s =>
      match P.ping m with
      | some m' => if cfg.method = .oidc ∧ s.vk = .cfg ∧ cfg.hb = true then some m'.key else none
      | none => none
  | _ => none

/-- what the world looks like when a message arrives -/
structure Moment where
  now  : Int
  jwks : Option (List Jwk)
  deriving DecidableEq, Repr

/-- frps + its verifier's key cache -/
structure TSrv where
  srv   : Srv
  cache : List Jwk
  deriving DecidableEq, Repr

def Moment.idp (mo : Moment) (cache : List Jwk) : Idp := { now := mo.now, jwks := mo.jwks, cache := cache }

def stepT (fixed : Bool) (P : Plugins) (pt : PrimT) (cfg : Cfg) (st : TSrv) (mo : Moment) (e : Ev) : TSrv × Out :=
  let w := mo.idp st.cache
  let r := stepG fixed P (primAt pt w) cfg st.srv e
  ({ srv := r.1,
     cache := match verifiedKey fixed P cfg st.srv e with
       | some k => cacheAfterVerify pt cfg.oidc w k
       | none => st.cache }, r.2)

/-- a history in which every message arrives at its own moment -/
def runT (fixed : Bool) (P : Plugins) (pt : PrimT) (cfg : Cfg) (st : TSrv) (evs : List (Moment × Ev)) : TSrv :=
  evs.foldl (fun s me => (stepT fixed P pt cfg s me.1 me.2).1) st

/-! ### the ssh tunnel gateway: the only code that feeds the internal listener

  pkg/ssh/gateway.go `NewGateway`, `handleConn`; pkg/ssh/server.go `TunnelServer.Run`; pkg/virtual/client.go.
  `svr.sshTunnelListener` is handed to `ssh.NewGateway` only; a `TunnelServer` puts on it exactly the
  connections its own virtual client (`pipeConnector.Connect`) opens - after `ssh.NewServerConn` succeeded. -/

abbrev PubKey := Str

/-- ONE user-authentication request of an ssh client (RFC 4252; the methods golang.org/x/crypto/ssh's server
    implements: server.go `serverAuthenticate`, `switch userAuthReq.Method`) -/
inductive SshAuth
  | none                                     -- "none"
  | pubkey (k : PubKey) (proved : Bool)      -- "publickey": offers `k`; `proved` = signs with the private key of `k`
  | password (pw : Str)                      -- "password" with this password (any bytes, also empty)
  | kbd (answers : List Str)                 -- "keyboard-interactive": what it would answer to any challenge
  | gssapi                                   -- "gssapi-with-mic"
  deriving DecidableEq, Repr

/-- `loadAuthorizedKeysFromFile`: `authorizedKeysMap[string(pubKey.Marshal())] = strings.TrimSpace(comment)`,
    a later line for the same key overwrites an earlier one -/
def akLookup (l : List (PubKey × Str)) (k : PubKey) : Option Str :=
  l.foldl (fun acc e => if e.1 = k then some e.2 else acc) none

/-- `sshConfig.PublicKeyCallback`.  `file` = what `loadAuthorizedKeysFromFile(cfg.AuthorizedKeysFile)` returns at
    the moment of the handshake (the file is read again for every attempt); `none` = read or parse error
    ("internal error").  Result `none` = error, `some user` = `Permissions{Extensions{"user": user}}` -/
def pubkeyCallback (file : Option (List (PubKey × Str))) (k : PubKey) : Option Str :=
  match file with
  | none => none
  | some l => akLookup l k

/-- the fields of `ssh.ServerConfig` that `serverAuthenticate` consults to let a client in.  A callback is
    `none` when the field is nil; its answer is `none` = error, `some user` = permissions whose "user" extension
    is `user` ("" without permissions). -/
structure SshSrvCfg where
  noClientAuth   : Bool                                -- NoClientAuth
  noClientAuthCb : Option (Option Str)                 -- NoClientAuthCallback (and what it answers)
  pubkeyCb       : Option (PubKey → Option Str)        -- PublicKeyCallback
  passwordCb     : Option (Str → Option Str)           -- PasswordCallback
  kbdCb          : Option (List Str → Option Str)      -- KeyboardInteractiveCallback
  gssapi         : Option (Option Str)                 -- GSSAPIWithMICConfig (and what the exchange answers)

/-- outcome of one request: accepted / refused, the client may go on / the connection is torn down -/
inductive SshTry
  | ok (user : Str)
  | fail
  | abort
  deriving DecidableEq, Repr

def SshTry.ofCb : Option Str → SshTry
  | some u => .ok u
  | none => .fail

/-- one pass of the `switch userAuthReq.Method` in `serverAuthenticate`.  A method whose callback is nil fails
    ("ssh: password auth not configured", …).  publickey: the callback decides about the KEY (the client's
    query); the signed request that follows is verified with that key and a bad signature ends the
    connection (`return nil, err`). -/
def sshTry (sc : SshSrvCfg) : SshAuth → SshTry
  | .none =>
    if sc.noClientAuth then
      match sc.noClientAuthCb with
      | none => .ok []
      | some r => SshTry.ofCb r
    else .fail
  | .password pw =>
    match sc.passwordCb with
    | none => .fail
    | some f => SshTry.ofCb (f pw)
  | .kbd ans =>
    match sc.kbdCb with
    | none => .fail
    | some f => SshTry.ofCb (f ans)
  | .gssapi =>
    match sc.gssapi with
    | none => .fail
    | some r => SshTry.ofCb r
  | .pubkey k proved =>
    match sc.pubkeyCb with
    | none => .fail
    | some f =>
      match f k with
      | none => .fail
      | some u => if proved then .ok u else .abort

/-- `config.MaxAuthTries` is left 0 by frp: `ServerConfig.SetDefaults` ⇒ 6 -/
def sshMaxAuthTries : Nat := 6

/-- the `userAuthLoop` of `serverAuthenticate` over the requests a client sends, in order.  `f` = authFailures,
    `nc` = noneAuthCount (a client's first "none" is not counted as a failure).  `none`: the client ran out of
    requests (EOF), was disconnected after 6 failures, or sent a bad signature. -/
def sshAuthLoop (sc : SshSrvCfg) : Nat → Nat → List SshAuth → Option Str
  | _, _, [] => none
  | f, nc, a :: rest =>
    if f ≥ sshMaxAuthTries then none else
    let nc' := if a = .none then nc + 1 else nc
    match sshTry sc a with
    | .ok u => some u
    | .abort => none
    | .fail => sshAuthLoop sc (if f > 0 ∨ a ≠ .none ∨ nc' ≠ 1 then f + 1 else f) nc' rest

/-- the `ssh.ServerConfig` pkg/ssh/gateway.go `NewGateway` builds (source facts `sshCfgWrites`, `sshCfgLits`):
    `&ssh.ServerConfig{}`, then `NoClientAuth = cfg.AuthorizedKeysFile == ""` and `PublicKeyCallback = …`; no other
    authentication field is ever given a value.  `akSet` = `cfg.AuthorizedKeysFile != ""`. -/
def gwSshCfg (akSet : Bool) (file : Option (List (PubKey × Str))) : SshSrvCfg :=
  { noClientAuth := !akSet, noClientAuthCb := none, pubkeyCb := some (pubkeyCallback file),
    passwordCb := none, kbdCb := none, gssapi := none }

/-- `ssh.NewServerConn(conn, sshConfig)` for a client sending the requests `reqs`.
    `none` = the handshake fails and `TunnelServer.Run` returns; `some user` = accepted, `user` = the permission
    extension "user" ("" when there are no permissions: with NoClientAuth the "none" method, which every
    client sends first, succeeds). -/
def sshHandshake (akSet : Bool) (file : Option (List (PubKey × Str))) (reqs : List SshAuth) : Option Str :=
  sshAuthLoop (gwSshCfg akSet file) 0 0 reqs

/-- what `parseClientAndProxyConfigurer` extracts from the exec payload (`--proxy_name`, `--user`, `--token`) -/
structure GwCmd where
  name  : Str
  user  : Str
  token : Str
  deriving DecidableEq, Repr

/-- one ssh connection to the gateway -/
structure Tunnel where
  reqs  : List SshAuth      -- the user-auth requests the client sends, in order (clients start with "none")
  file  : Option (List (PubKey × Str))
  cmd   : Option GwCmd      -- none: no forward request / command within 3 s, unsupported proxy type, bad flag, help
  conn  : ConnId            -- control connection of the virtual client (a net.Pipe put on the internal listener)
  wconn : ConnId            -- its pooled work connection
  ts    : Int               -- time.Now().Unix() in the virtual client's token setter
  genId : RunId             -- what util.RandID() returns for this login
  deriving DecidableEq, Repr

/-- `clientCfg.User = util.EmptyOr(sshConn.Permissions.Extensions["user"], clientCfg.User)` -/
def gwUser (permUser : Str) (c : GwCmd) : Str := if permUser = [] then c.user else permUser

/-- `pc.Complete(clientCfg.User)`: `Name = (prefix == "" ? "" : prefix + ".") + Name` -/
def gwProxyName (user name : Str) : Str := if user = [] then name else user ++ Str.dot :: name

/-- the Login of the virtual client: `Spec.AlwaysAuthPass = !s.sc.NoClientAuth`; key from the token setter with
    `--token`; `PoolCount` 1 (ClientCommonConfig.Complete); no run id -/
def gwLogin (pr : Prim) (akSet : Bool) (t : Tunnel) (c : GwCmd) : Login :=
  { runId := [], ts := t.ts, key := pr.H c.token t.ts, aap := akSet, poolCount := 1, genId := t.genId }

inductive GwOut
  | authFail                              -- ssh handshake refused: nothing reaches frps
  | closed                                -- handshake fine, tunnel closed again (command / login / proxy error)
  | up (rid : RunId) (proxy : Str)        -- success banner written, tunnel stays
  deriving DecidableEq, Repr

/-- `Gateway.handleConn` → `TunnelServer.Run` as far as the tables of frps are concerned.  The virtual client's
    work connection carries no key (its setter has no additional scopes).  A proxy that cannot be started
    (`waitProxyStatusReady` error) closes the virtual client, i.e. ends the session. -/
def gwTunnel (fixed : Bool) (P : Plugins) (pr : Prim) (cfg : Cfg) (akSet : Bool) (srv : Srv) (t : Tunnel) :
    Srv × GwOut :=
  match sshHandshake akSet t.file t.reqs with
  | none => (srv, .authFail)
  | some pu =>
    match t.cmd with
    | none => (srv, .closed)
    | some c =>
      let r1 := handleFirstG fixed P pr cfg srv true t.conn (.login (gwLogin pr akSet t c))
      match r1.2.reply with
      | .loginOk rid =>
        let name := gwProxyName (gwUser pu c) c.name
        let r2 := handleNewProxy r1.1 t.conn name
        match r2.2.reply with
        | .proxyOk =>
          ((handleFirstG fixed P pr cfg r2.1 true t.wconn (.work { runId := rid, ts := 0, key := [] })).1,
           .up rid name)
        | _ => ((sessionEnd r2.1 t.conn).1, .closed)
      | _ => (r1.1, .closed)

/-- what reaches frps from the network listeners (tcp, tls, websocket, kcp, quic): there is no `internal` to
    choose - `HandleListener(l, false)` / `handleConnection(ctx, stream, false)` (source facts) -/
inductive NetEv
  | first (conn : ConnId) (m : First)
  | ping (conn : ConnId) (m : Ping)
  | newProxy (conn : ConnId) (name : Str)
  | closeProxy (conn : ConnId) (name : Str)
  | drop (conn : ConnId)
  | user (name : Str)
  deriving DecidableEq, Repr

def NetEv.toEv : NetEv → Ev
  | .first c m => .first false c m
  | .ping c m => .ping c m
  | .newProxy c n => .newProxy c n
  | .closeProxy c n => .closeProxy c n
  | .drop c => .drop c
  | .user n => .user n

/-- everything that happens to a frps with the gateway enabled -/
inductive SysEv
  | net (e : NetEv)
  | ssh (t : Tunnel)
  deriving DecidableEq, Repr

def sysStep (fixed : Bool) (P : Plugins) (pr : Prim) (cfg : Cfg) (akSet : Bool) (srv : Srv) : SysEv → Srv
  | .net e => (stepG fixed P pr cfg srv e.toEv).1
  | .ssh t => (gwTunnel fixed P pr cfg akSet srv t).1

def sysRun (fixed : Bool) (P : Plugins) (pr : Prim) (cfg : Cfg) (akSet : Bool) (srv : Srv) (evs : List SysEv) : Srv :=
  evs.foldl (sysStep fixed P pr cfg akSet) srv

end AuthGate
end Frp
