import Frp.Model.Str
/-
  AuthGate: what frps does with the FIRST message of a connection and with heartbeats, as far as
  client credentials are concerned.  Mirrors, as the code is now:

    server/service.go   handleConnection, RegisterControl, RegisterWorkConn, RegisterVisitorConn
    server/control.go   ControlManager.Add/Del/GetByID, NewControl, handlePing, handleNewProxy (name table only),
                        Control.RegisterWorkConn (bounded pool), worker (session end)
    pkg/auth/token.go   VerifyLogin / VerifyPing / VerifyNewWorkConn
    pkg/auth/oidc.go    OidcAuthConsumer (subjectsFromLogin)
    pkg/auth/pass.go    AlwaysPassVerifier
    pkg/util/util/util.go GetAuthKey  (abstract `Prim.H`)

  Abstract primitives (nothing is assumed about them):
    `Prim.H token ts`      = util.GetAuthKey(token, ts) = hex(md5(token ++ decimal(ts)))   [no separator
                             between token and timestamp; no freshness check on ts anywhere]
    `Prim.oidcVerify key`  = go-oidc `Verify(ctx, key)`: `none` = error, `some sub` = token.Subject
  Plugins (`pluginManager.Login/NewWorkConn/Ping`) are arbitrary functions `msg → Option msg`
  (`none` = rejected / error); C15 is about the chain itself.

  Not modelled: the visitor manager's decision (C08; input `vmOk`), port allocation of proxies (the
  name table only), `NewControl` failing (`crypto.NewWriter` error) or panicking for
  `PoolCount < -10` (DESIGN §7 #4, C16) - pool counts are `Nat` here.
-/
namespace Frp
namespace AuthGate

abbrev RunId := Str
abbrev Key := Str
abbrev Subject := Str
abbrev ConnId := Nat

inductive Method | token | oidc
  deriving DecidableEq, Repr

/-- `cfg.Auth` + `cfg.Transport.MaxPoolCount` -/
structure Cfg where
  method  : Method
  hb      : Bool        -- slices.Contains(additionalScopes, HeartBeats)
  wc      : Bool        -- slices.Contains(additionalScopes, NewWorkConns)
  token   : Str
  maxPool : Nat
  deriving DecidableEq, Repr

structure Prim where
  H : Str → Int → Key
  oidcVerify : Key → Option Subject

/-- which verifier object a session holds (`Control.authVerifier`) -/
inductive VKind | cfg | alwaysPass
  deriving DecidableEq, Repr

structure Login where
  runId : RunId
  ts : Int
  key : Key
  aap : Bool            -- ClientSpec.AlwaysAuthPass (json `client_spec.always_auth_pass`)
  poolCount : Nat
  genId : RunId         -- what util.RandID() returns if runId is empty (non-deterministic input)
  deriving DecidableEq, Repr

structure WorkConn where
  runId : RunId
  ts : Int
  key : Key
  deriving DecidableEq, Repr

structure Ping where
  ts : Int
  key : Key
  deriving DecidableEq, Repr

structure Plugins where
  login : Login → Option Login
  work  : WorkConn → Option WorkConn
  ping  : Ping → Option Ping

def Plugins.id : Plugins := { login := some, work := some, ping := some }

/-- one `Control` as far as this property is concerned -/
structure Session where
  runId    : RunId
  ctl      : ConnId          -- the control connection
  vk       : VKind
  poolCap  : Nat             -- cap(workConnCh) = min(PoolCount, MaxPoolCount) + 10
  pool     : List ConnId     -- queued work connections
  proxies  : List Str
  lastPing : Nat             -- number of accepted heartbeats (logical clock of `lastPing.Store`)
  deriving DecidableEq, Repr

/-- `ControlManager.ctlsByRunID` (association list) + `OidcAuthConsumer.subjectsFromLogin` -/
structure Srv where
  sessions : List Session
  subjects : List Subject
  deriving DecidableEq, Repr

def Srv.empty : Srv := { sessions := [], subjects := [] }

def lookup (srv : Srv) (rid : RunId) : Option Session := srv.sessions.find? (·.runId = rid)
def byCtl (srv : Srv) (c : ConnId) : Option Session := srv.sessions.find? (·.ctl = c)
def allProxies (srv : Srv) : List Str := srv.sessions.flatMap (·.proxies)

def updSession (srv : Srv) (rid : RunId) (f : Session → Session) : Srv :=
  { srv with sessions := srv.sessions.map (fun s => if s.runId = rid then f s else s) }

/-! ### verifiers -/

/-- `VerifyLogin`: `none` = error, `some subjects'` = accepted (OIDC appends the subject) -/
def verifyLogin (pr : Prim) (cfg : Cfg) (subjects : List Subject) (vk : VKind) (m : Login) :
    Option (List Subject) :=
  match vk with
  | .alwaysPass => some subjects
  | .cfg =>
    match cfg.method with
    | .token => if pr.H cfg.token m.ts = m.key then some subjects else none
    | .oidc =>
      match pr.oidcVerify m.key with
      | none => none
      | some sub => some (if sub ∈ subjects then subjects else subjects ++ [sub])

/-- `verifyPostLoginToken` -/
def oidcPost (pr : Prim) (subjects : List Subject) (key : Key) : Bool :=
  match pr.oidcVerify key with
  | none => false
  | some sub => decide (sub ∈ subjects)

/-- is `key` what the configured method accepts for `ts` (scope check NOT included) -/
def keyOk (pr : Prim) (cfg : Cfg) (subjects : List Subject) (ts : Int) (key : Key) : Bool :=
  match cfg.method with
  | .token => decide (pr.H cfg.token ts = key)
  | .oidc => oidcPost pr subjects key

/-- `VerifyPing` -/
def verifyPing (pr : Prim) (cfg : Cfg) (subjects : List Subject) (vk : VKind) (m : Ping) : Bool :=
  match vk with
  | .alwaysPass => true
  | .cfg => !cfg.hb || keyOk pr cfg subjects m.ts m.key

/-- `VerifyNewWorkConn` -/
def verifyWork (pr : Prim) (cfg : Cfg) (subjects : List Subject) (vk : VKind) (m : WorkConn) : Bool :=
  match vk with
  | .alwaysPass => true
  | .cfg => !cfg.wc || keyOk pr cfg subjects m.ts m.key

/-- RegisterControl: `if internal && loginMsg.ClientSpec.AlwaysAuthPass { authVerifier = AlwaysPassVerifier }` -/
def verifierFor (internal : Bool) (m : Login) : VKind :=
  if internal && m.aap then .alwaysPass else .cfg

/--
  Switch for the repair proposed in hooks/C04-fix-workconn-verifier.patch:
  `false` = the code as it is (RegisterWorkConn verifies with `ctl.authVerifier`, i.e. the verifier the
  SESSION was created with, whatever listener the work connection arrived on);
  `true`  = a work connection that did not arrive on the internal listener is verified with the
  configured verifier.
-/
def workVerifierIsFixed : Bool := true

def workVerifier (fixed : Bool) (internal : Bool) (s : Session) : VKind :=
  if fixed && !internal then .cfg else s.vk

/-! ### replies -/

inductive Reply
  | none                       -- nothing written
  | loginOk (rid : RunId)      -- LoginResp{RunID, Error: ""}
  | loginErr                   -- LoginResp{Error}
  | startWorkErr               -- StartWorkConn{Error}
  | visitorOk | visitorErr     -- NewVisitorConnResp
  | pongOk | pongErr
  | proxyOk | proxyErr
  deriving DecidableEq, Repr

structure Out where
  reply  : Reply
  closed : Bool                -- the server closed the connection
  deriving DecidableEq, Repr

/-! ### first message of a connection -/

inductive First
  | login (m : Login)
  | work (m : WorkConn)
  | visitor (runId : RunId) (vmOk : Bool)   -- vmOk = VisitorManager.NewConn returned nil (C08)
  | other                                   -- any other registered message type
  | garbage                                 -- ReadMsg failed (unknown type byte, bad length, bad JSON, timeout)
  deriving DecidableEq, Repr

def effRunId (m : Login) : RunId := if m.runId = [] then m.genId else m.runId

/-- `Service.RegisterControl` (after the plugin) -/
def registerControl (pr : Prim) (cfg : Cfg) (srv : Srv) (internal : Bool) (conn : ConnId) (m : Login) :
    Srv × Out :=
  let rid := effRunId m
  let vk := verifierFor internal m
  match verifyLogin pr cfg srv.subjects vk m with
  | none => (srv, { reply := .loginErr, closed := true })
  | some subj' =>
    let s : Session := { runId := rid, ctl := conn, vk := vk,
                         poolCap := min m.poolCount cfg.maxPool + 10,
                         pool := [], proxies := [], lastPing := 0 }
    -- ctlManager.Add: an old control with the same run id is Replaced (closed, waited for), then overwritten
    ({ sessions := srv.sessions.filter (fun o => o.runId ≠ rid) ++ [s], subjects := subj' },
     { reply := .loginOk rid, closed := false })

/-- `Service.RegisterWorkConn` + `Control.RegisterWorkConn` -/
def registerWork (fixed : Bool) (P : Plugins) (pr : Prim) (cfg : Cfg) (srv : Srv) (internal : Bool)
    (conn : ConnId) (m : WorkConn) : Srv × Out :=
  match lookup srv m.runId with
  | none => (srv, { reply := .none, closed := true })               -- no reply, caller closes
  | some s =>
    match P.work m with
    | none => (srv, { reply := .startWorkErr, closed := true })
    | some m' =>
      if verifyWork pr cfg srv.subjects (workVerifier fixed internal s) m' then
        if s.pool.length < s.poolCap then
          (updSession srv s.runId (fun x => { x with pool := x.pool ++ [conn] }),
           { reply := .none, closed := false })
        else (srv, { reply := .none, closed := true })             -- "pool is full, discarding"
      else (srv, { reply := .startWorkErr, closed := true })

/-- `Service.handleConnection` -/
def handleFirstG (fixed : Bool) (P : Plugins) (pr : Prim) (cfg : Cfg) (srv : Srv) (internal : Bool)
    (conn : ConnId) : First → Srv × Out
  | .login m =>
    match P.login m with
    | none => (srv, { reply := .loginErr, closed := true })
    | some m' => registerControl pr cfg srv internal conn m'
  | .work m => registerWork fixed P pr cfg srv internal conn m
  | .visitor rid vmOk =>
    if rid ≠ [] ∧ (lookup srv rid).isNone then (srv, { reply := .visitorErr, closed := true })
    else if vmOk then (srv, { reply := .visitorOk, closed := false })
    else (srv, { reply := .visitorErr, closed := true })
  | .other => (srv, { reply := .none, closed := true })
  | .garbage => (srv, { reply := .none, closed := true })

/-- the code as it is -/
def handleFirst := handleFirstG workVerifierIsFixed

/-! ### messages on an established control connection -/

/-- `Control.handlePing` for the session whose control connection is `conn`.  An invalid ping is
    answered with `Pong{Error}`; the session is NOT closed (it dies when the heartbeat timeout fires). -/
def handlePing (P : Plugins) (pr : Prim) (cfg : Cfg) (srv : Srv) (conn : ConnId) (m : Ping) : Srv × Out :=
  match byCtl srv conn with
  | none => (srv, { reply := .none, closed := true })
  | some s =>
    match P.ping m with
    | none => (srv, { reply := .pongErr, closed := false })
    | some m' =>
      if verifyPing pr cfg srv.subjects s.vk m' then
        (updSession srv s.runId (fun x => { x with lastPing := x.lastPing + 1 }),
         { reply := .pongOk, closed := false })
      else (srv, { reply := .pongErr, closed := false })

/-- `handleNewProxy` reduced to the name table (`pxyManager.Exist` / `Add`, `ctl.proxies`) -/
def handleNewProxy (srv : Srv) (conn : ConnId) (name : Str) : Srv × Out :=
  match byCtl srv conn with
  | none => (srv, { reply := .none, closed := true })
  | some s =>
    if name ∈ allProxies srv then (srv, { reply := .proxyErr, closed := false })
    else (updSession srv s.runId (fun x => { x with proxies := x.proxies ++ [name] }),
          { reply := .proxyOk, closed := false })

/-- control connection `conn` ends: `worker` drains the pool, closes the proxies; `ctlManager.Del(runID, ctl)`
    deletes only if the table still holds this very control -/
def sessionEnd (srv : Srv) (conn : ConnId) : Srv × Out :=
  ({ srv with sessions := srv.sessions.filter (fun s => s.ctl ≠ conn) }, { reply := .none, closed := true })

/-! ### histories -/

inductive Ev
  | first (internal : Bool) (conn : ConnId) (m : First)
  | ping (conn : ConnId) (m : Ping)
  | newProxy (conn : ConnId) (name : Str)
  | drop (conn : ConnId)
  deriving DecidableEq, Repr

def stepG (fixed : Bool) (P : Plugins) (pr : Prim) (cfg : Cfg) (srv : Srv) : Ev → Srv × Out
  | .first i c m => handleFirstG fixed P pr cfg srv i c m
  | .ping c m => handlePing P pr cfg srv c m
  | .newProxy c n => handleNewProxy srv c n
  | .drop c => sessionEnd srv c

def step := stepG workVerifierIsFixed

def runG (fixed : Bool) (P : Plugins) (pr : Prim) (cfg : Cfg) (srv : Srv) (evs : List Ev) : Srv :=
  evs.foldl (fun s e => (stepG fixed P pr cfg s e).1) srv

def run := runG workVerifierIsFixed

end AuthGate
end Frp
