import Frp.Model.Reconcile
/-
  Which configuration a (re-)login registers — client/service.go, at the level of `Service`.

    UpdateAllConfigurer(p, v) : cfgMu.Lock(); svr.proxyCfgs = p; svr.visitorCfgs = v; cfgMu.Unlock()
                                ctl := svr.ctl (under ctlMu);  if ctl != nil { ctl.UpdateAllConfigurer(p, v) }
                                -- ctl may be a control whose session is already over: its managers are
                                -- updated all the same, nothing reaches the server
    keepControllerWorking     : <-svr.ctl.Done(); BackoffUntil(func{ loopLoginUntilSuccess(20 s, false); … })
    loopLoginUntilSuccess     : loginFunc := func {
                                    conn, connector, err := svr.login()          -- refused ⇒ return false, err
                                    cfgMu.RLock(); proxyCfgs := svr.proxyCfgs; visitorCfgs := …; cfgMu.RUnlock()
                                    ctl := NewControl(…); ctl.Run(proxyCfgs, visitorCfgs)   -- pm.UpdateAll(proxyCfgs)
                                    ctlMu.Lock(); old.Close(); svr.ctl = ctl; ctlMu.Unlock() }
                                BackoffUntil(loginFunc, …)
  The configuration is read AFTER login() has succeeded, inside loginFunc: event `loginRun`
  (snapshot + NewControl + Run) and event `loginSwap` (`svr.ctl = ctl`) are two steps, a reload can
  fall between them (then it updates the old control and the new one keeps the snapshot; see
  `C14.reload_in_window_witness`).  `early` = the snapshot is taken when loopLoginUntilSuccess is
  entered instead (frp: false); it exists only to show that the theorems notice the difference.

  The proxy manager is `Reconcile.Mgr` (C19's model of client/proxy/proxy_manager.go UpdateAll); the
  visitor manager's UpdateAll has the same diff on names and is driven by the same two calls.
-/
namespace Frp
namespace Rereg
open Wrapper Reconcile

/-- a `client.Control` as far as registrations go -/
structure Ctl where
  pm : Mgr
  alive : Bool := true       -- its session is open: what its wrappers send reaches the server
deriving Repr

structure St where
  early : Bool := false            -- snapshot at loop entry (not frp)
  store : List Cfg := []           -- svr.proxyCfgs
  ctl : Option Ctl := none         -- svr.ctl
  pend : Option Ctl := none        -- loginFunc between `ctl.Run(snapshot)` and `svr.ctl = ctl`
  loopSnap : List Cfg := []        -- read only when `early`
deriving Repr

inductive Ev
  | reload (cfgs : List Cfg)       -- Service.UpdateAllConfigurer
  | sessionEnd                     -- the session of svr.ctl is over (its worker ran pm.Close())
  | loopStart                      -- loopLoginUntilSuccess is entered
  | loginRun                       -- loginFunc: login() succeeded; snapshot; NewControl; ctl.Run(snapshot)
  | loginSwap                      -- loginFunc: svr.ctl = ctl
deriving Repr

/-- one event at time `now`; the output = the (name, message) pairs that reach the server: on the
    live session for `reload`, on the new session for `loginRun` -/
def step (s : St) (now : Nat) : Ev → St × List (Nat × Msg)
  | .reload cfgs =>
    match s.ctl with
    | none => ({ s with store := cfgs }, [])
    | some c =>
      let r := updateAll c.pm cfgs now
      ({ s with store := cfgs, ctl := some { c with pm := r.1 } }, if c.alive then r.2.2 else [])
  | .sessionEnd =>
    match s.ctl with
    | none => (s, [])
    | some c => ({ s with ctl := some { pm := (closeAll c.pm).1, alive := false } }, [])
  | .loopStart => ({ s with loopSnap := s.store }, [])
  | .loginRun =>
    let snap := if s.early then s.loopSnap else s.store
    let r := updateAll Reconcile.init snap now
    ({ s with pend := some { pm := r.1, alive := true } }, r.2.2)
  | .loginSwap =>
    match s.pend with
    | none => (s, [])
    | some p => ({ s with ctl := some p, pend := none }, [])

def run (s : St) (now : Nat) : List Ev → St
  | [] => s
  | e :: es => run (step s now e).1 now es

/-- (name, variant) of the wrappers a manager runs: what the server has been told to expose -/
def view (pm : Mgr) : List (Nat × Nat) := pm.proxies.map (fun w => (w.cfg.name, w.cfg.variant))

end Rereg
end Frp
