import Frp.Model.Router
/-
  Model of the SERVER-SIDE registration layer that feeds the vhost route tables (property C06):

    server/proxy/http.go    `HTTPProxy.Run` / `Close`   (customDomains × locations, then
                             subdomain.subDomainHost × locations; group and non-group path;
                             `closeFuncs`, rollback by the deferred `pxy.Close()`)
    server/proxy/https.go   `HTTPSProxy.Run` / `BaseProxy.Close`   (Muxer.Listen per domain, listeners)
    server/proxy/tcpmux.go  `TCPMuxProxy.httpConnectRun` / `BaseProxy.Close`  (non-group path)
    server/group/http.go    `HTTPGroupController.Register/UnRegister`, `HTTPGroup.Register/UnRegister`

  on top of the route table model `Frp/Model/Router.lean` (pkg/util/vhost/router.go).

  A route's payload says who serves it:  `2*id`  = the proxy instance `id` (RouteConfig.CreateConnFn =
  pxy.GetRealConn, or the vhost.Listener the proxy accepts on);  `2*gid+1` = the HTTPGroup object
  number `gid` (CreateConnFn = g.createConn: one of the group's members).
-/
namespace Frp
namespace VhostReg
open Str Router

/-- what `Run` reads from the proxy configuration -/
structure Cfg where
  name      : Str
  domains   : List Str        -- customDomains
  sub       : Str             -- subdomain ("" = none)
  locations : List Str        -- http only; https / tcpmux: []
  user      : Str             -- routeByHTTPUser (http, tcpmux)
  group     : Str             -- loadBalancer.group ("" = none)
  groupKey  : Str
deriving DecidableEq, Repr

/-- `locations := pxy.cfg.Locations; if len(locations) == 0 { locations = []string{""} }` -/
def locsOf (c : Cfg) : List Str := if c.locations = [] then [[]] else c.locations

/-- the custom domains (`if domain == "" { continue }`), then `SubDomain + "." + SubDomainHost` -/
def domainsOf (sh : Str) (c : Cfg) : List Str :=
  c.domains.filter (fun d => !d.isEmpty) ++ (if c.sub = [] then [] else [c.sub ++ dot :: sh])

/-- the (domain, location) pairs `Run` registers, in the order of the two nested loops -/
def triples (sh : Str) (c : Cfg) : List (Str × Str) :=
  (domainsOf sh c).flatMap (fun d => (locsOf c).map (fun l => (d, l)))

/-- `HTTPGroup` -/
structure Group where
  gid      : Nat                 -- identity of the Go object (fixes the route's payload)
  group    : Str
  key      : Str
  domain   : Str
  location : Str
  user     : Str
  members  : List (Str × Nat)    -- createFuncs / pxyNames: proxy name ↦ proxy instance
deriving DecidableEq, Repr

/-- `HTTPGroupController.groups` (map[group name]*HTTPGroup) as an association list read through
    `get`; a later entry for a name is shadowed by an earlier one, `none` = deleted -/
structure Groups where
  tbl : List (Str × Option Group)

def Groups.get (G : Groups) (n : Str) : Option Group :=
  match G.tbl.lookup n with
  | some v => v
  | none => none

def Groups.set (G : Groups) (n : Str) (v : Option Group) : Groups := ⟨(n, v) :: G.tbl⟩

/-- the tables behind one `controller.ResourceController` entry point: the `vhost.Routers`, the group
    controller that shares it, and the counter naming new group objects -/
structure Tab where
  R     : Routers
  G     : Groups
  nextG : Nat

def Tab.empty : Tab := { R := Router.empty, G := ⟨[]⟩, nextG := 0 }

/-- a proxy instance together with what it has registered so far (`closeFuncs` / `listeners`) -/
structure Holder where
  id    : Nat
  name  : Str
  user  : Str
  group : Str
  keys  : List (Str × Str)      -- (domain, location) as given to Register, oldest first
deriving DecidableEq, Repr

inductive Err | conflict | params | auth | repeated
deriving DecidableEq, Repr

/-- `g, ok := ctl.groups[indexKey]; if !ok { g = NewHTTPGroup(ctl); ctl.groups[indexKey] = g }`
    (the new, empty group stays in the map even when the registration below is refused) -/
def ensureGroup (T : Tab) (group : Str) : Tab :=
  match T.G.get group with
  | some _ => T
  | none =>
    { T with
      G := T.G.set group (some { gid := T.nextG, group := [], key := [], domain := [], location := [],
                                 user := [], members := [] }),
      nextG := T.nextG + 1 }

/-- `HTTPGroup.Register` on the group object `g` stored under `group` -/
def groupJoin (T : Tab) (g : Group) (name : Str) (id : Nat) (group key d l u : Str) : Tab × Option Err :=
  if g.members = [] then
    -- the first proxy in this group
    match add T.R d l u (2 * g.gid + 1) with
    | (_, .conflict) => (T, some .conflict)
    | (R', .ok) =>
      ({ T with R := R',
                G := T.G.set group (some { g with group := group, key := key, domain := d, location := l,
                                                  user := u, members := [(name, id)] }) }, none)
  else if g.group ≠ group ∨ g.domain ≠ d ∨ g.location ≠ l ∨ g.user ≠ u then (T, some .params)
  else if g.key ≠ key then (T, some .auth)
  else if g.members.any (fun m => m.1 = name) then (T, some .repeated)
  else ({ T with G := T.G.set group (some { g with members := g.members ++ [(name, id)] }) }, none)

/-- `HTTPGroupController.Register` -/
def groupRegister (T : Tab) (name : Str) (id : Nat) (group key d l u : Str) : Tab × Option Err :=
  let T0 := ensureGroup T group
  match T0.G.get group with
  | some g => groupJoin T0 g name id group key d l u
  | none => (T0, some .params)     -- unreachable: `ensureGroup` has just stored one

/-- `HTTPGroupController.UnRegister` + `HTTPGroup.UnRegister` -/
def groupUnRegister (T : Tab) (name group : Str) : Tab :=
  match T.G.get group with
  | none => T
  | some g =>
    let ms := g.members.filter (fun m => m.1 ≠ name)
    if ms = [] then { T with R := del T.R g.domain g.location g.user, G := T.G.set group none }
    else { T with G := T.G.set group (some { g with members := ms }) }

/-- one iteration of the loops in `Run`: register (domain, location) for the proxy -/
def regOne (T : Tab) (p : Holder) (gkey : Str) (d l : Str) : Tab × Option Err :=
  if p.group ≠ [] then groupRegister T p.name p.id p.group gkey d l p.user
  else
    match add T.R d l p.user (2 * p.id) with
    | (R', .ok) => ({ T with R := R' }, none)
    | (_, .conflict) => (T, some .conflict)

/-- one `closeFuncs` entry / one `Listener.Close` -/
def unregOne (T : Tab) (p : Holder) (d l : Str) : Tab :=
  if p.group ≠ [] then groupUnRegister T p.name p.group
  else { T with R := del T.R d l p.user }

/-- the loops of `Run`: register pair after pair, remembering what was registered; stop at the
    first refusal -/
def claim (T : Tab) (p : Holder) (gkey : Str) : List (Str × Str) → Tab × Holder × Option Err
  | [] => (T, p, none)
  | (d, l) :: rest =>
    match regOne T p gkey d l with
    | (T', none) => claim T' { p with keys := p.keys ++ [(d, l)] } gkey rest
    | (T', some e) => (T', p, some e)

/-- `Close`: every `closeFuncs` entry / every listener, oldest first -/
def releaseKeys (T : Tab) (p : Holder) : List (Str × Str) → Tab
  | [] => T
  | (d, l) :: rest => releaseKeys (unregOne T p d l) p rest

def release (T : Tab) (p : Holder) : Tab := releaseKeys T p p.keys

/-- one route table with the proxies registered in it -/
structure St where
  tab : Tab
  hs  : List Holder           -- proxies whose `Run` succeeded and that were not closed since

def St.empty : St := { tab := Tab.empty, hs := [] }

inductive Res | ok | busy | err (e : Err)
deriving DecidableEq, Repr

def holderOf (id : Nat) (c : Cfg) (keys : List (Str × Str)) : Holder :=
  { id := id, name := c.name, user := c.user, group := c.group, keys := keys }

/-- `pxy := NewProxy(cfg); pxy.Run()` with the rollback `defer func() { if err != nil { pxy.Close() } }()` -/
def run (sh : Str) (S : St) (id : Nat) (c : Cfg) : St × Res :=
  if S.hs.any (fun h => h.id = id) then (S, .busy)
  else
    match claim S.tab (holderOf id c []) c.groupKey (triples sh c) with
    | (T', p, none) => ({ tab := T', hs := p :: S.hs }, .ok)
    | (T', p, some e) => ({ tab := release T' p, hs := S.hs }, .err e)

/-- `pxy.Close()` of a running proxy -/
def close (S : St) (id : Nat) : St :=
  match S.hs.find? (fun h => h.id = id) with
  | none => S
  | some p => { tab := release S.tab p, hs := S.hs.filter (fun h => h.id ≠ id) }

/-- the group object with number `gid` -/
def groupByGid (G : Groups) (gid : Nat) : Option Group :=
  G.tbl.findSome? (fun e =>
    match G.get e.1 with
    | some g => if g.gid = gid then some g else none
    | none => none)

/-- the proxy instances a route with this payload hands a request to -/
def servers (T : Tab) (payload : Nat) : List Nat :=
  if payload % 2 = 0 then [payload / 2]
  else match groupByGid T.G (payload / 2) with
    | some g => g.members.map (·.2)
    | none => []

/-- SPEC side: the routes the live proxies stand for, derived from what they hold only
    (payload = the proxy instance itself) -/
def liveRoutes (hs : List Holder) : List Route :=
  hs.flatMap (fun h => h.keys.map (fun k =>
    ({ domain := toLower k.1, location := k.2, user := h.user, payload := h.id } : Route)))

/-! ### Credentials of http routes (`RouteConfig.Username` / `Password` = the proxy's httpUser / httpPassword)

  server/proxy/http.go `Run` puts the proxy's credentials into the `RouteConfig` it registers;
  pkg/util/vhost/http.go `authorize` / `CheckAuth` compares the request's basic-auth pair with the credentials
  of the route the request resolves to.  For a load-balancing group the stored route is a copy of the FIRST
  member's config (server/group/http.go `HTTPGroup.Register`: `tmp := routeConfig`), and a joining member's
  config is compared in group, domain, location, routeByHTTPUser and key only — not in its credentials
  (server/group/tcpmux.go compares them). -/

/-- (Username, Password) -/
abbrev Creds := Str × Str

/-- `CheckAuth`: refuse iff `(checkUser != "" || checkPasswd != "") && (checkUser != user || checkPasswd != passwd)` -/
def checkAuth (c : Creds) (u p : Str) : Bool :=
  !(decide (c.1 ≠ [] ∨ c.2 ≠ []) && decide (c.1 ≠ u ∨ c.2 ≠ p))

/-- does `HTTPGroup.Register` compare the credentials of a joining member with the group's?  `false` = the code
    as it is; `true` = with hooks/C06-fix-httpgroup-credentials.patch applied -/
def groupChecksCreds : Bool := true

/-- the part of an `HTTPGroup` that matters for credentials: the route stored in the table carries the first
    member's, each member (proxy instance) is configured with its own -/
structure CGroup where
  route   : Creds
  members : List (Nat × Creds)
deriving DecidableEq, Repr

inductive GOp
  | join (id : Nat) (c : Creds)     -- a proxy with the group's name, key, domain, location and route user
  | leave (id : Nat)
deriving DecidableEq, Repr

/-- `HTTPGroup.Register` / `UnRegister` on one group (`none` = the group does not exist); `chk` = joins
    compare the credentials too and are refused (`ErrGroupParamsInvalid`) when they differ -/
def cstep (chk : Bool) : Option CGroup → GOp → Option CGroup
  | none, .join id c => some { route := c, members := [(id, c)] }
  | some g, .join id c =>
    if chk = true ∧ g.route ≠ c then some g else some { g with members := g.members ++ [(id, c)] }
  | none, .leave _ => none
  | some g, .leave id =>
    if g.members.filter (fun m => m.1 ≠ id) = [] then none
    else some { g with members := g.members.filter (fun m => m.1 ≠ id) }

def crun (chk : Bool) (ops : List GOp) : Option CGroup := ops.foldl (cstep chk) none

def cmembers : Option CGroup → List (Nat × Creds)
  | none => []
  | some g => g.members

/-- the proxies a request with basic-auth pair (u, p) resolving to the group's route may be handed to:
    `CheckAuth` against the ROUTE's credentials, then any member (`createConn` / `createConnByEndpoint`) -/
def cserve (g : Option CGroup) (u p : Str) : List Nat :=
  match g with
  | none => []
  | some g => if checkAuth g.route u p then g.members.map (·.1) else []

end VhostReg
end Frp
