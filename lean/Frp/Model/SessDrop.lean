import Frp.Model.RegSteps
/-
  C10 — the control connection of a session drops WHILE THE SESSION'S OWN REGISTRATION IS RUNNING
  (property: "every point at which the control connection can drop", "released on every termination path").

  server/control.go: `Control.worker` starts the teardown only after `<-ctl.msgDispatcher.Done()`.
  pkg/msg/handler.go: `Dispatcher.readLoop` calls the handler of a message SYNCHRONOUSLY —
  `ctl.msgDispatcher.RegisterHandler(&msg.NewProxy{}, ctl.handleNewProxy)` is not wrapped in
  `msg.AsyncHandler` — so while `handleNewProxy → RegisterProxy` runs, the read loop does not read, does not
  see the closed connection and does not close `doneCh`.  The teardown (`for _, pxy := range ctl.proxies
  { pxy.Close(); pxyManager.Del }`) therefore runs strictly AFTER the registration returned and sees the
  proxy it stored in `ctl.proxies`.

  `DState` = the concurrent registration model (Frp/Model/RegSteps.lean) plus the set of sessions whose
  connection is gone but whose worker still waits for the dispatcher (`ending`).
-/
namespace Frp
namespace SessDrop
open Release RegSteps

structure DState where
  c      : CState
  ending : List Nat := []      -- conn closed, `worker` blocked in `<-ctl.msgDispatcher.Done()`
deriving Repr

def DState.init (maxPorts : Nat) : DState := { c := CState.init maxPorts }

inductive DRes
  | r (x : Res)       -- the answer of the underlying step
  | pending           -- the connection is closed, the teardown waits for the registration in progress
  | gone              -- the registration returned, the dispatcher finished, `worker` tore the session down
deriving DecidableEq, Repr

/-- the control connection of `sid` drops (`ctl.conn.Close()`: client exit, network, heartbeat timeout, replacement) -/
def DState.drop (s : DState) (sid : Nat) : DState × DRes :=
  if s.c.busy sid then
    ({ s with ending := if s.ending.contains sid then s.ending else sid :: s.ending }, .pending)
  else ({ s with c := (s.c.sessionEnd sid).1 }, .r .done)

/-- the next section of the session's registration; when it was the last one and the connection is
    already gone: handler returns → `ReadMsg` fails → `doneCh` closed → `worker` runs -/
def DState.step (s : DState) (sid : Nat) : DState × DRes :=
  let c1 := (s.c.step sid).1
  if s.ending.contains sid && !c1.busy sid then
    ({ c := (c1.sessionEnd sid).1, ending := s.ending.filter (· ≠ sid) }, .gone)
  else ({ s with c := c1 }, .r (s.c.step sid).2)

def DState.begin (s : DState) (sid : Nat) (name : Str) (keys : List Key) (n : Nat) : DState × DRes :=
  ({ s with c := (s.c.begin sid name keys n).1 }, .r (s.c.begin sid name keys n).2)

def DState.close (s : DState) (sid : Nat) (name : Str) : DState × DRes :=
  ({ s with c := (s.c.close sid name).1 }, .r (s.c.close sid name).2)

inductive Op
  | begin (sid : Nat) (name : Str) (keys : List Key) (n : Nat)
  | step (sid : Nat)
  | close (sid : Nat) (name : Str)
  | drop (sid : Nat)

def apply (s : DState) : Op → DState
  | .begin sid name keys n => (s.begin sid name keys n).1
  | .step sid => (s.step sid).1
  | .close sid name => (s.close sid name).1
  | .drop sid => (s.drop sid).1

end SessDrop
end Frp
