import Frp.Model.NatHole
/-
  Model of the SERVER-SIDE xtcp proxy (server/proxy/xtcp.go) composed with the nat hole controller
  (Frp/Model/NatHole.lean, pkg/nathole/controller.go).

  xtcp.go:

      func (pxy *XTCPProxy) Run() (remoteAddr string, err error) {
          …
          sidCh, err := pxy.rc.NatHoleController.ListenClient(pxy.GetName(), pxy.cfg.Secretkey, allowUsers)
          if err != nil { return "", err }
          go func() {
              for {
                  select {
                  case <-pxy.closeCh: return
                  case sid := <-sidCh:
                      workConn, errRet := pxy.GetWorkConnFromPool(nil, nil)     -- may take as long as the owner takes
                      if errRet != nil { continue }
                      errRet = msg.WriteMsg(workConn, &msg.NatHoleSid{Sid: sid}) …
                      workConn.Close()
                  }
              }
          }()
          return
      }

      func (pxy *XTCPProxy) Close() {
          pxy.closeOnce.Do(func() {
              pxy.BaseProxy.Close()
              pxy.rc.NatHoleController.CloseClient(pxy.GetName())
              close(pxy.closeCh)
          })
      }

  In the composed system the controller's `listen` / `close` / `notify` labels are not free any
  more: ListenClient is called by `Run`, CloseClient by `Close`, and the receive on `sidCh` is a
  step of the proxy's dispatch goroutine.  Every other controller label (HandleVisitor's steps,
  HandleClient, HandleReport, Analyzer.Clean) stays free.

  `Close()` is called only on a proxy whose `Run()` succeeded (server/control.go RegisterProxy
  returns before its deferred `pxy.Close()` is installed when Run fails; CloseProxy and the control's
  teardown close the proxies stored after a successful Run).
-/
namespace Frp
namespace NatProxy
open NatHole

/-! ## proxy instances by id -/

def nget {α : Type} : List (Nat × α) → Nat → Option α
  | [], _ => none
  | (k', v) :: r, k => if k' = k then some v else nget r k

def nput {α : Type} : List (Nat × α) → Nat → α → List (Nat × α)
  | [], k, v => [(k, v)]
  | (k', v') :: r, k, v => if k' = k then (k, v) :: r else (k', v') :: nput r k v

theorem nget_nput {α : Type} (l : List (Nat × α)) (k k' : Nat) (v : α) :
    nget (nput l k v) k' = if k = k' then some v else nget l k' := by
  induction l with
  | nil => simp only [nput, nget]
  | cons h t ih =>
    obtain ⟨hk, hv⟩ := h
    simp only [nput]
    by_cases e : hk = k
    · subst e
      by_cases e2 : hk = k' <;> simp [nget, e2]
    · by_cases e2 : hk = k'
      · subst e2
        have : ¬ k = hk := fun h => e h.symm
        simp [nget, e, this]
      · simp [nget, e, e2, ih]

/-- where the goroutine started by `XTCPProxy.Run` stands -/
inductive Loop
  | idle                        -- in `select { case <-pxy.closeCh: … case sid := <-sidCh: … }`
  | delivering (sid : Str)      -- inside `GetWorkConnFromPool` / `WriteMsg(NatHoleSid)` / `workConn.Close()` for this sid
  | stopped                     -- returned (took the `closeCh` branch)
  deriving DecidableEq, Repr

structure Pxy where
  name : Str                    -- pxy.GetName()
  chan : Nat                    -- identity of the `sidCh` returned by ListenClient to this Run
  closed : Bool := false        -- `closeOnce` has fired: Close() ran
  loop : Loop := .idle
  deriving DecidableEq, Repr

structure PState where
  ctl : State := {}
  pxs : List (Nat × Pxy) := []  -- the proxies whose Run() succeeded, by instance id

inductive PLabel
  | run (id : Nat) (name sk : Str) (allow : List Str)   -- Run() of a fresh XTCPProxy (`allow` = the effective allow list)
  | close (id : Nat)                                    -- Close()
  | recv (id : Nat) (sid : Str)                         -- the dispatch loop's select takes `sid := <-sidCh`
  | fetched (id : Nat) (ok : Bool)                      -- GetWorkConnFromPool returned (ok: NatHoleSid written, conn closed)
  | exit (id : Nat)                                     -- the dispatch loop's select takes `<-pxy.closeCh`
  | ctl (l : Label)                                     -- a step of the controller that is not ListenClient / CloseClient / the receive

/-- controller labels that stay free in the composed system -/
def ctlFree : Label → Bool
  | .listen _ _ _ => false
  | .close _ => false
  | .notify _ => false
  | _ => true

/-- sids handed to owners: (proxy instance, sid written as `NatHoleSid`) -/
abbrev Sids := List (Nat × Str)

/-- one atomic action of the composed system; `none` = not enabled.
    `unregAtClose = true` is xtcp.go as it is: `Close()` calls `CloseClient`.  `false` is the
    variant in which the dispatch goroutine unregisters when it returns (kept for the witness
    `deferred_unregister_witness`; no theorem about the real code uses it). -/
def pstepWith (unregAtClose : Bool) (s : PState) : PLabel → Option (PState × Out × Sids)
  | .run id name sk allow =>
    match nget s.pxs id with
    | some _ => none                                    -- an instance is Run once
    | none =>
      match aget s.ctl.cfgs name with
      | some _ => some (s, [], [])                      -- ListenClient: "proxy [..] is repeated": Run returns the error, nothing is started
      | none =>
        some ({ ctl := { s.ctl with cfgs := aput s.ctl.cfgs name { sk := sk, allow := allow, chan := s.ctl.nextChan },
                                    nextChan := s.ctl.nextChan + 1 },
                pxs := nput s.pxs id { name := name, chan := s.ctl.nextChan } }, [], [])
  | .close id =>
    match nget s.pxs id with
    | none => none                                      -- only proxies whose Run succeeded are closed
    | some p =>
      if p.closed then some (s, [], [])                 -- closeOnce
      else
        some ({ ctl := if unregAtClose then { s.ctl with cfgs := adel s.ctl.cfgs p.name } else s.ctl,
                pxs := nput s.pxs id { p with closed := true } }, [], [])
  | .recv id sid =>
    match nget s.pxs id, aget s.ctl.sessions sid with
    | some p, some sess =>
      -- with `closeCh` closed AND a sender ready Go's select may take either branch: `recv` stays enabled
      if p.loop = .idle ∧ sess.phase = .notifying p.chan then
        some ({ ctl := { s.ctl with sessions := aput s.ctl.sessions sid { sess with phase := .waiting } },
                pxs := nput s.pxs id { p with loop := .delivering sid } }, [], [])
      else none
    | _, _ => none
  | .fetched id ok =>
    match nget s.pxs id with
    | some p =>
      match p.loop with
      | .delivering sid =>
        some ({ s with pxs := nput s.pxs id { p with loop := .idle } }, [], if ok then [(id, sid)] else [])
      | _ => none
    | none => none
  | .exit id =>
    match nget s.pxs id with
    | some p =>
      if p.loop = .idle ∧ p.closed = true then
        some ({ ctl := if unregAtClose then s.ctl else { s.ctl with cfgs := adel s.ctl.cfgs p.name },
                pxs := nput s.pxs id { p with loop := .stopped } }, [], [])
      else none
    | none => none
  | .ctl l =>
    if ctlFree l then
      match step s.ctl l with
      | some (c', o) => some ({ s with ctl := c' }, o, [])
      | none => none
    else none

/-- server/proxy/xtcp.go + pkg/nathole/controller.go as they are -/
def pstep (s : PState) (l : PLabel) : Option (PState × Out × Sids) := pstepWith true s l

def prunWith (b : Bool) : PState → List PLabel → Option (PState × Out × Sids)
  | s, [] => some (s, [], [])
  | s, l :: ls =>
    match pstepWith b s l with
    | none => none
    | some (s', o, d) =>
      match prunWith b s' ls with
      | none => none
      | some (s'', o', d') => some (s'', o ++ o', d ++ d')

def prun (s : PState) (ls : List PLabel) : Option (PState × Out × Sids) := prunWith true s ls

/-- the proxy is live: Run returned without error, Close has not been called -/
def liveNamed (s : PState) (name : Str) : Bool :=
  s.pxs.any (fun q => q.2.name == name && !q.2.closed)

end NatProxy
end Frp
