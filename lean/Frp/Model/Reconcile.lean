import Frp.Model.Wrapper
/-
  Client proxy manager reload — client/proxy/proxy_manager.go `Manager.UpdateAll`
  (client/visitor/visitor_manager.go `Manager.UpdateAll` has the same two loops over `cfgs`).

  ```
  proxyCfgsMap := lo.KeyBy(proxyCfgs, name)                 -- LAST entry wins for a duplicate name
  for name, pxy := range pm.proxies {                       -- delete loop
      cfg, ok := proxyCfgsMap[name]
      if !ok || !reflect.DeepEqual(pxy.Cfg, cfg) { delete(pm.proxies, name); pxy.Stop() } }
  for _, cfg := range proxyCfgs {                           -- add loop, in slice order
      if _, ok := pm.proxies[name]; !ok {
          cfg = proxyCfgsMap[name]                          -- added by fix eab68f8
          pxy := NewWrapper(cfg…); pm.proxies[name] = pxy; pxy.Start() } }
  ```
  `updateAll` is the code as it is now (after fix eab68f8): delete loop and add loop both use
  the LAST entry of a duplicated name.  `updateAllOld` is the code before that fix, where the add
  loop started the FIRST entry while the delete loop compared with the LAST, so that every reload
  of the same configuration restarted such a proxy (kept for `C19.reload_dup_witness`).
  The visitor manager's UpdateAll still has the old shape (it is modelled in Engines/Client.lean).
-/
namespace Frp
namespace Reconcile
open Wrapper

/-- pm.proxies: a Go map name → *Wrapper (iteration order is random in Go; nothing below depends
    on the order except the order of emitted events, which the correspondence compares sorted) -/
structure Mgr where
  proxies : List W := []
  nextId : Nat := 1          -- stamp for wrappers created by the next UpdateAll
  deriving Repr

def init : Mgr := {}

/-- `lo.KeyBy(cfgs, name)[n]` -/
def lookupLast (cfgs : List Cfg) (n : Nat) : Option Cfg := cfgs.reverse.find? (fun c => c.name == n)

/-- the delete loop keeps a wrapper iff `ok && reflect.DeepEqual(pxy.Cfg, cfg)` -/
def keeps (cfgs : List Cfg) (w : W) : Bool := lookupLast cfgs w.cfg.name == some w.cfg

def hasName (ws : List W) (n : Nat) : Bool := ws.any (fun w => w.cfg.name == n)

/-- the add loop BEFORE fix eab68f8 (each entry started as it stands in the slice) -/
def addLoop (id now : Nat) : List W → List Cfg → List W × List (Nat × Msg)
  | ws, [] => (ws, [])
  | ws, c :: cs =>
    if hasName ws c.name then addLoop id now ws cs
    else
      let r := start (mk c id) now
      let rest := addLoop id now (ws ++ [r.1]) cs
      (rest.1, r.2.map (fun m => (c.name, m)) ++ rest.2)

/-- messages emitted by stopping each of `ws` -/
def stopEvents (ws : List W) : List (Nat × Msg) :=
  ws.flatMap (fun w => (step w .stop).2.1.map (fun m => (w.cfg.name, m)))

/-- the stopped wrapper objects (no longer in the map; late callbacks may still reach them) -/
def stopAll (ws : List W) : List W := ws.map (fun w => (step w .stop).1)

/-- `cfg = proxyCfgsMap[name]` for an entry `c` of the slice (the key is always present) -/
def sel (all : List Cfg) (c : Cfg) : Cfg :=
  match lookupLast all c.name with
  | some c' => c'
  | none => c

/-- the add loop as it is now: the wrapper is built from `proxyCfgsMap[name]` -/
def addLoopNew (id now : Nat) (all : List Cfg) : List W → List Cfg → List W × List (Nat × Msg)
  | ws, [] => (ws, [])
  | ws, c :: cs =>
    if hasName ws c.name then addLoopNew id now all ws cs
    else
      let r := start (mk (sel all c) id) now
      let rest := addLoopNew id now all (ws ++ [r.1]) cs
      (rest.1, r.2.map (fun m => (c.name, m)) ++ rest.2)

/-- `UpdateAll(cfgs)` at time `now`: new manager, the stopped wrappers, the emitted messages
    tagged with the proxy name -/
def updateAll (m : Mgr) (cfgs : List Cfg) (now : Nat) : Mgr × List W × List (Nat × Msg) :=
  let kept := m.proxies.filter (keeps cfgs)
  let gone := m.proxies.filter (fun w => !keeps cfgs w)
  let r := addLoopNew m.nextId now cfgs kept cfgs
  ({ proxies := r.1, nextId := m.nextId + 1 }, stopAll gone, stopEvents gone ++ r.2)

/-- `UpdateAll` BEFORE fix eab68f8 -/
def updateAllOld (m : Mgr) (cfgs : List Cfg) (now : Nat) : Mgr × List W × List (Nat × Msg) :=
  let kept := m.proxies.filter (keeps cfgs)
  let gone := m.proxies.filter (fun w => !keeps cfgs w)
  let r := addLoop m.nextId now kept cfgs
  ({ proxies := r.1, nextId := m.nextId + 1 }, stopAll gone, stopEvents gone ++ r.2)

/-- `Close()`: stop everything, empty map -/
def closeAll (m : Mgr) : Mgr × List W × List (Nat × Msg) :=
  ({ m with proxies := [] }, stopAll m.proxies, stopEvents m.proxies)

def find (m : Mgr) (n : Nat) : Option W := m.proxies.find? (fun w => w.cfg.name == n)

/-- deliver an event to the wrapper registered under `n` (StartProxy / HandleWorkConn / its own
    worker and monitor); `none` when the name is not in the map -/
def deliver (m : Mgr) (n : Nat) (e : Event) : Option (Mgr × List Msg × Res) :=
  match find m n with
  | none => none
  | some w =>
    let r := step w e
    some ({ m with proxies := m.proxies.map (fun x => if x.cfg.name == n then r.1 else x) }, r.2.1, r.2.2)

end Reconcile
end Frp
