import Frp.Model.RegSteps
/-
  C10 — REPLACEMENT of a session by a new login with the same run id, with a teardown of ANY duration
  (property: "end or replacement of its session … every server resource it held is released.  Consequently an
  identical registration submitted … on a new session shortly after the old one ended succeeds").

  server/service.go RegisterControl, for a Login that passed authentication:

      ctl := NewControl(…)
      if oldCtl := svr.ctlManager.Add(runID, ctl); oldCtl != nil {   -- Add: old.Replaced(ctl) closes old's connection
          oldCtl.WaitClosed()                                        -- <-oldCtl.doneCh : NO bound
      }
      ctl.Start()                                                    -- LoginResp; go ctl.worker(): messages are handled

  server/control.go worker() of the OLD session, the only place that closes doneCh:

      <-ctl.msgDispatcher.Done()        -- the read loop runs handleNewProxy / handleCloseProxy / handlePing
                                           SYNCHRONOUSLY: as long as such a handler has not returned (slow server
                                           plugin, a registration between two of its sections) nothing below runs
      (gate worker.dispDone)  ctl.conn.Close(); ctl.mu.Lock(); close+drain the pool   (gate worker.drained)
      for _, pxy := range ctl.proxies { pxy.Close(); pxyManager.Del(name) }            -- the release
      (gate worker.beforeDone)  close(ctl.doneCh)

  The duration of every stretch is arbitrary: the model has no clock.  `start` (the new session is acknowledged and
  its dispatcher begins to handle messages) is a label that may be ATTEMPTED at any moment — "however long the
  teardown of the old session takes" is "after any number of other labels".  `unbounded = true` is the code as it
  is written (regenerated facts Frp/Gen/ReplaceFacts.lean): the attempt goes through only once the old session's
  doneCh is closed.  `unbounded = false` is a wait that may give up (timer, context, select with a default): the
  attempt always goes through.

  The resource tables are those of Frp/Model/RegSteps.lean (exclusive keys: ports, routes, visitor listeners; name
  table; per-session own table; quota counters; registrations in flight, section by section).
-/
namespace Frp
namespace SessReplace
open Release RegSteps

/-- where one session (one server.Control) stands -/
inductive Ph
  | absent
  | waiting (closed : Bool)   -- in the table (ControlManager.Add done), inside the wait for the session it replaced;
                              -- `closed`: its own connection has been closed meanwhile (peer, or replaced in turn)
  | live                      -- ctl.Start(): LoginResp written, the dispatcher handles its messages
  | ending                    -- connection closed, the dispatcher is still inside a synchronous handler
  | parked                    -- dispatcher done; worker() somewhere before the walk over ctl.proxies
  | walked                    -- worker() closed every proxy; doneCh not yet closed
  | gone                      -- close(doneCh)
deriving DecidableEq, Repr

def Ph.started : Ph → Bool
  | .live | .ending | .parked | .walked | .gone => true
  | _ => false

structure PState where
  c   : CState
  ph  : Nat → Ph               -- session ↦ phase
  cur : Nat → Option Nat       -- ControlManager.ctlsByRunID : run id ↦ session
  old : Nat → Option Nat       -- what ControlManager.Add returned to the session's RegisterControl

def PState.init (maxPorts : Nat) : PState :=
  { c := CState.init maxPorts, ph := fun _ => .absent, cur := fun _ => none, old := fun _ => none }

def PState.setPh (s : PState) (n : Nat) (p : Ph) : PState := { s with ph := fun m => if m = n then p else s.ph m }

inductive Ans
  | r (x : Res)     -- the answer of the registration machinery
  | ack             -- LoginResp: the session is started
  | ackClosed       -- started on a connection that is already closed: its worker goes straight to the teardown
  | pending         -- inside the wait for the replaced session
  | notlive         -- no dispatcher handles this session's messages
  | wparked         -- the handler returned on a closed connection: dispatcher done, worker before the walk
  | ok
  | disabled
deriving DecidableEq, Repr

/-- the connection of session `n` is closed (`ctl.conn.Close()`: peer, heartbeat, `Replaced`) -/
def PState.closeConn (s : PState) (n : Nat) : PState :=
  match s.ph n with
  | .waiting _ => s.setPh n (.waiting true)
  | .live => s.setPh n (if s.c.busy n then .ending else .parked)
  | _ => s

/-- ControlManager.Add, first half: `old.Replaced(ctl)` closes the connection of the designated session -/
def PState.closeOld (s : PState) : Option Nat → PState
  | some o => s.closeConn o
  | none => s

/-- ControlManager.Add, second half: the run id designates the new session `n`; `o` is what Add returns -/
def PState.added (s : PState) (n rid : Nat) (o : Option Nat) : PState :=
  { s with ph := fun m => if m = n then .waiting false else s.ph m,
           cur := fun r => if r = rid then some n else s.cur r,
           old := fun m => if m = n then o else s.old m }

/-- RegisterControl after the wait: `ctl.Start()` -/
def PState.mayStart (unbounded : Bool) (s : PState) (n : Nat) : Bool :=
  match s.old n with
  | none => true
  | some o => !unbounded || decide (s.ph o = .gone)

def PState.start (unbounded : Bool) (s : PState) (n : Nat) : PState × Ans :=
  match s.ph n with
  | .waiting closed =>
    if s.mayStart unbounded n then
      (if closed then (s.setPh n .parked, .ackClosed) else (s.setPh n .live, .ack))
    else (s, .pending)
  | _ => (s, .disabled)

/-- a Login with run id `rid` for the new session `n`: NewControl; ControlManager.Add (closes the connection of the
    session the run id designated); then the wait — which is over at once when there is nobody to wait for or the
    old session's doneCh is already closed -/
def PState.login (unbounded : Bool) (s : PState) (n rid : Nat) : PState × Ans :=
  if s.ph n ≠ .absent then (s, .disabled)
  else
    ((s.closeOld (s.cur rid)).added n rid (s.cur rid)).start unbounded n

inductive Lbl
  | login (n rid : Nat)
  | start (n : Nat)                                        -- the wait of RegisterControl is attempted to end
  | begin (n : Nat) (name : Str) (keys : List Key) (k : Nat)
  | step (n : Nat)
  | close (n : Nat) (name : Str)
  | drop (n : Nat)                                         -- the peer closes the connection
  | walk (n : Nat)                                         -- worker(): the loop over ctl.proxies
  | done (n : Nat)                                         -- worker(): close(doneCh)

def PState.apply (unbounded : Bool) (s : PState) : Lbl → PState × Ans
  | .login n rid => s.login unbounded n rid
  | .start n => s.start unbounded n
  | .begin n name keys k =>
    if s.ph n = .live then ({ s with c := (s.c.begin n name keys k).1 }, .r (s.c.begin n name keys k).2)
    else (s, .notlive)
  | .step n =>
    if s.ph n = .live then ({ s with c := (s.c.step n).1 }, .r (s.c.step n).2)
    else if s.ph n = .ending then
      let c1 := (s.c.step n).1
      if c1.busy n then ({ s with c := c1 }, .r (s.c.step n).2)
      else (({ s with c := c1 } : PState).setPh n .parked, .wparked)
    else (s, .notlive)
  | .close n name =>
    if s.ph n = .live then ({ s with c := (s.c.close n name).1 }, .r (s.c.close n name).2)
    else (s, .notlive)
  | .drop n => (s.closeConn n, .ok)
  | .walk n =>
    if s.ph n = .parked then (({ s with c := (s.c.sessionEnd n).1 } : PState).setPh n .walked, .ok)
    else (s, .disabled)
  | .done n =>
    if s.ph n = .walked then (s.setPh n .gone, .ok) else (s, .disabled)

def run (unbounded : Bool) (s : PState) (ops : List Lbl) : PState :=
  ops.foldl (fun t op => (t.apply unbounded op).1) s

/-- the answer to the last label of a history -/
def lastAns (unbounded : Bool) (s : PState) : List Lbl → Ans
  | [] => .ok
  | [op] => (s.apply unbounded op).2
  | op :: rest => lastAns unbounded (s.apply unbounded op).1 rest

end SessReplace
end Frp
