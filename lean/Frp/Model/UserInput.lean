import Frp.Model.Host
/-
  C16, USER side (strengthening round 4).

  1. Index / slice sites.  The parsers behind the user-facing listeners (pkg/util/http, pkg/util/vhost,
     pkg/util/tcpmux) run on bytes chosen by somebody who never logged in; vhost.(*Muxer).handle runs them in a
     bare goroutine: an `index out of range` there ends frps.  translate/gen_indexfacts.go lists every `x[i]` /
     `x[a:b]` of these packages with the guards that dominate it; which guards SUFFICE is decided here
     (`IdxSite.ok`), and `IdxSite.ok_safe` proves that the judgement implies Go's run-time check for every
     assignment of lengths and integers that satisfies the guards.
  2. `hasPort` / `CanonicalHost` with Go's indexing made explicit (`Go.panic`): proved equal to the total model
     `Host.canonicalHost` on every input.
  3. frpc teardown against ACTIVE requests of a plugin that embeds an http.Server: Control.worker after the
     dispatcher has ended, small-step, with the Close method of the plugin as a list of calls
     (translate/gen_pluginclose.go).
-/
namespace Frp
namespace UserIn
open Str

/-! ## 1. index / slice sites -/

/-- an index or a slice bound, as far as the extractor understands it -/
inductive Bound
  | const (n : Nat)                   -- 0, 1, …
  | lenOf (v : String)                -- len(v)
  | var (i : String)                  -- i
  | varPlus (i : String) (k : Nat)    -- i + k
  | lenMinus (v : String) (k : Nat)   -- len(v) - k
  | other (s : String)                -- anything else
  deriving DecidableEq, Repr

/-- the type a sum `k + E` is computed in (E a big-endian uint32 / uint16 read from the input) -/
inductive NumT
  | u32     -- uint32: Go's arithmetic wraps modulo 2^32
  | wide    -- int / int64 / uint64 (64 bits on the platforms the harness runs on)
  deriving DecidableEq, Repr

/-- what dominates a site (established by a test on every path to it and not invalidated by an assignment) -/
inductive GFact
  | lenGe (v : String) (n : Nat)      -- n ≤ len(v):   `len(v) < n` left early, `v == ""` left early, strings.Count(v, "x") != 0 …
  | lenGeLen (v p : String)           -- len(p) ≤ len(v)
  | idxIn (i v : String)              -- 0 ≤ i < len(v): i := strings.IndexByte(v, c) and `i < 0` left early
  | varLeLen (i v : String)           -- i ≤ len(v):   `len(v) < i` left early (conversions that keep the value stripped)
  | defPlus (i : String) (k : Nat) (t : NumT)  -- i := k + E computed in type t, 0 ≤ E < 2^32
  deriving DecidableEq, Repr

inductive OpKind
  | map        -- a map: a lookup never panics
  | seq        -- string / slice / array: Go checks the bounds at run time
  | unknown    -- the extractor could not tell
  deriving DecidableEq, Repr

inductive Shape
  | index (i : Bound)
  | slice (lo hi : Option Bound)
  deriving DecidableEq, Repr

structure IdxSite where
  file : String
  fn : String
  line : Nat
  expr : String
  operand : String
  opKind : OpKind
  shape : Shape
  facts : List GFact
  deriving DecidableEq, Repr

/-- the best constant lower bound of len(x) among the facts -/
def minLen (fs : List GFact) (x : String) : Nat :=
  fs.foldl (fun m f => match f with
    | .lenGe v n => if v = x then max m n else m
    | _ => m) 0

/-- `0 ≤ i` follows from the way i was computed (a sum of naturals in an unsigned or a non-wrapping type) -/
def nonnegVar (fs : List GFact) (i : String) : Bool :=
  fs.any (fun f => match f with
    | .defPlus j k _ => j = i && k < 4294967296
    | _ => false)

/-- `a ≤ i` follows from `i := k + E` computed in a type that does NOT wrap, with a ≤ k.  In uint32 nothing follows:
    4 + 0xFFFFFFFC = 0 -/
def constLeVar (fs : List GFact) (a : Nat) (i : String) : Bool :=
  fs.any (fun f => match f with
    | .defPlus j k .wide => j = i && a ≤ k && k < 4294967296
    | _ => false)

/-- `0 ≤ b ≤ len(x)` follows from the facts -/
def leLen (fs : List GFact) (x : String) : Bound → Bool
  | .const n => n ≤ minLen fs x
  | .lenOf p => p = x || fs.contains (.lenGeLen x p)
  | .var i => fs.contains (.idxIn i x) || (fs.contains (.varLeLen i x) && nonnegVar fs i)
  | .varPlus i k => k ≤ 1 && fs.contains (.idxIn i x)
  | .lenMinus v k => v = x && k ≤ minLen fs x
  | .other _ => false

/-- `0 ≤ b < len(x)` follows from the facts -/
def ltLen (fs : List GFact) (x : String) : Bound → Bool
  | .const n => n < minLen fs x
  | .var i => fs.contains (.idxIn i x)
  | .lenMinus v k => v = x && 1 ≤ k && k ≤ minLen fs x
  | _ => false

/-- `lo ≤ hi` follows from the facts (few shapes; everything else is rejected) -/
def leBound (fs : List GFact) (x : String) : Bound → Bound → Bool
  | .const a, .const b => a ≤ b
  | .const a, .lenMinus v k => v = x && a + k ≤ minLen fs x
  | .const a, .lenOf v => v = x && a ≤ minLen fs x
  | .const a, .var i => constLeVar fs a i
  | _, _ => false

def Shape.ok (fs : List GFact) (x : String) : Shape → Bool
  | .index b => ltLen fs x b
  | .slice none none => true
  | .slice none (some hi) => leLen fs x hi
  | .slice (some lo) none => leLen fs x lo
  | .slice (some lo) (some hi) => leLen fs x hi && leBound fs x lo hi

/-- the judgement: unknown operands and unknown shapes are REJECTED -/
def IdxSite.ok (s : IdxSite) : Bool :=
  match s.opKind with
  | .map => true
  | .seq => s.shape.ok s.facts s.operand
  | .unknown => false

/-! semantics -/

structure Env where
  len : String → Nat
  int : String → Int

def Bound.eval (ρ : Env) : Bound → Option Int
  | .const n => some n
  | .lenOf v => some (ρ.len v)
  | .var i => some (ρ.int i)
  | .varPlus i k => some (ρ.int i + k)
  | .lenMinus v k => some ((ρ.len v : Int) - k)
  | .other _ => none

/-- Go's arithmetic in the type: uint32 wraps modulo 2^32, the 64-bit types modulo 2^64 (never reached by k + E with
    k, E < 2^32) -/
def NumT.wrap : NumT → Nat → Nat
  | .u32, x => x % 4294967296
  | .wide, x => x % 18446744073709551616

def GFact.holds (ρ : Env) : GFact → Prop
  | .lenGe v n => n ≤ ρ.len v
  | .lenGeLen v p => ρ.len p ≤ ρ.len v
  | .idxIn i v => 0 ≤ ρ.int i ∧ ρ.int i < ρ.len v
  | .varLeLen i v => ρ.int i ≤ ρ.len v
  | .defPlus i k t => ∃ e : Nat, e < 4294967296 ∧ ρ.int i = (t.wrap (k + e) : Nat)

/-- Go's run-time check (runtime.panicIndex / panicSlice*): the expression does not panic -/
def Shape.safe (ρ : Env) (x : String) : Shape → Prop
  | .index b => ∃ n : Int, b.eval ρ = some n ∧ 0 ≤ n ∧ n < ρ.len x
  | .slice lo hi =>
    ∃ a b : Int, (match lo with | none => some (0 : Int) | some l => l.eval ρ) = some a ∧
           (match hi with | none => some (ρ.len x : Int) | some h => h.eval ρ) = some b ∧
           0 ≤ a ∧ a ≤ b ∧ b ≤ ρ.len x

/-! ## 2. hasPort / CanonicalHost with Go's indexing explicit -/

inductive Go (α : Type)
  | ok (a : α)
  | panic
  deriving DecidableEq, Repr

/-- `s[i]` -/
def goIndex (s : Str) (i : Nat) : Go Nat :=
  match s[i]? with
  | some c => .ok c
  | none => .panic

/-- pkg/util/http/http.go `hasPort`, line by line: `host[0]` is reached only with two or more colons -/
def hasPortG (h : Str) : Go Bool :=
  let colons := Host.count colon h
  if colons = 0 then .ok false
  else if colons = 1 then .ok true
  else
    match goIndex h 0 with
    | .panic => .panic
    | .ok c => .ok (c = Host.lbr && Host.containsRbrColon h)

/-- pkg/util/http/http.go `CanonicalHost` (`none` = it returns an error); net.SplitHostPort and
    strings.TrimSuffix are total (standard library) -/
def canonicalHostG (host : Str) : Go (Option Str) :=
  let h := toLower host
  match hasPortG h with
  | .panic => .panic
  | .ok true => .ok ((Host.splitHostPort h).map Host.trimDot)
  | .ok false => .ok (some (Host.trimDot h))

/-! ## 3. frpc teardown against active plugin requests -/

/-- what a plugin's `Close()` calls (pkg/plugin/client/*.go) -/
inductive CloseCall
  | srvClose                 -- (*http.Server).Close(): closes the listeners and EVERY connection, returns
  | lnClose                  -- this package's (*Listener).Close(): mutex, close(chan) once
  | mutex                    -- Lock / Unlock / RLock / RUnlock
  | chanClose                -- close(ch)
  | shutdown (deadline : Bool) -- (*http.Server).Shutdown(ctx): returns when NO connection is active any more, or ctx is done
  | wait (what : String)     -- `<-ch`, select, (*sync.WaitGroup).Wait
  | other (callee : String)  -- any other call
  deriving DecidableEq, Repr

structure CloseFact where
  file : String
  recv : String
  line : Nat
  calls : List CloseCall
  deriving DecidableEq, Repr

/-- can the call wait for somebody else (a user, a backend)?  `pinned` = callees read by hand -/
def CloseCall.mayWait (pinned : List String) : CloseCall → Bool
  | .srvClose => false
  | .lnClose => false
  | .mutex => false
  | .chanClose => false
  | .shutdown dl => !dl
  | .wait _ => true
  | .other c => !pinned.contains c

def CloseFact.nonBlocking (pinned : List String) (f : CloseFact) : Bool :=
  f.calls.all (fun c => !c.mayWait pinned)

/-- Control.worker (client/control.go) from the moment the dispatcher has ended:
      pc 0  ctl.closeSession()   with tcpMux the yamux session goes and every work connection with it
      pc 1  ctl.pm.Close()       → Wrapper.Stop → BaseProxy.Close → plugin.Close()
      pc 2  close(ctl.doneCh)
      pc 3  Service.keepControllerWorking: login again
      pc 4  logged in
    `active` = user requests the plugin's http.Server is serving on work connections that are still open -/
structure Tear where
  pc : Nat := 0
  active : Nat
  deriving DecidableEq, Repr

inductive PLabel
  | worker         -- the worker goroutine is scheduled
  | userFinishes   -- one of the active requests ends by itself (backend answered, user read / sent the rest, user went away)
  deriving DecidableEq, Repr

/-- one call of Close with `active` requests: does it return, and how many are active afterwards -/
def callStep (active : Nat) : CloseCall → Option Nat
  | .srvClose => some 0
  | .shutdown true => some active
  | .shutdown false => if active = 0 then some 0 else none
  | .wait _ => none
  | _ => some active

/-- the whole Close method: returns iff every call returns -/
def closeRun : List CloseCall → Nat → Option Nat
  | [], a => some a
  | c :: cs, a =>
    match callStep a c with
    | none => none
    | some a' => closeRun cs a'

def pstep (mux : Bool) (calls : List CloseCall) (s : Tear) : PLabel → Tear
  | .userFinishes => { s with active := s.active - 1 }
  | .worker =>
    match s.pc with
    | 0 => { pc := 1, active := if mux then 0 else s.active }
    | 1 =>
      (match closeRun calls s.active with
       | some a => { pc := 2, active := a }
       | none => s)                       -- Close has not returned: the worker stands in it
    | 2 => { s with pc := 3 }
    | 3 => { s with pc := 4 }
    | _ => s

def prun (mux : Bool) (calls : List CloseCall) (s : Tear) (ls : List PLabel) : Tear :=
  ls.foldl (pstep mux calls) s

def workerTicks (ls : List PLabel) : Nat := (ls.filter (· = .worker)).length

end UserIn
end Frp
