import Frp.Model.Frame
/-
  The ONE codec object of a process: golib msg/json `MsgCtl` (msg.go), held by pkg/msg/ctl.go in the package
  variable `msgCtl` and shared by every connection, every message type, frps and frpc alike.  Only what matters
  for the length bound of `readMsg` is modelled: the field `maxMsgLength` and who writes it.

  ```
  var defaultMaxMsgLength int64 = 10240
  func NewMsgCtl() *MsgCtl { return &MsgCtl{ …, maxMsgLength: defaultMaxMsgLength } }
  func (msgCtl *MsgCtl) RegisterMsg(typeByte byte, msg interface{}) { … the two maps … }
  func (msgCtl *MsgCtl) SetMaxMsgLength(length int64) { msgCtl.maxMsgLength = length }
  readMsg: if length > msgCtl.maxMsgLength { err = ErrMaxMsgLength }
  ```
  The limit is a `Nat` here (`Frame.decodeFull` takes it as one); a negative argument of SetMaxMsgLength — it would
  make the decoder refuse every frame — is outside the model.
-/
namespace Frp
namespace CodecProc
open Frame

structure Ctl where
  max : Nat            -- maxMsgLength
  types : List Nat     -- keys of typeMap
  deriving DecidableEq, Repr

/-- msg.go `NewMsgCtl` (pkg/msg/ctl.go `init` makes the process's object with it) -/
def newCtl : Ctl := ⟨maxLen, []⟩

/-- what a process can do with its codec object -/
inductive Op
  | register (t : Nat)            -- RegisterMsg (pkg/msg/ctl.go init, once per message type)
  | setMax (n : Nat)              -- SetMaxMsgLength(n)
  | read (inp : Str)              -- ReadMsg / ReadMsgInto on some connection: reads the limit, writes nothing
  | write (t : Nat) (body : Str)  -- WriteMsg (Pack): does not look at the limit
  deriving DecidableEq, Repr

def Op.isSetMax : Op → Bool
  | .setMax _ => true
  | _ => false

def step (c : Ctl) : Op → Ctl
  | .register t => { c with types := t :: c.types }
  | .setMax n => { c with max := n }
  | .read _ => c
  | .write _ _ => c

/-- the object after a history of the process (from its creation in `init`) -/
def run (ops : List Op) : Ctl := ops.foldl step newCtl

end CodecProc
end Frp
