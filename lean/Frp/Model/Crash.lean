import Frp.Model.LockDisc
/-
  C16 obligations 2 and 3b: small total models of the two places where a peer-chosen value or an
  arbitrary frame meets code that runs in a goroutine without recover.

  * `NewControl` (server/control.go): poolCount computation and `make(chan net.Conn, poolCount+10)`.
  * `Dispatcher.readLoop` (pkg/msg/handler.go) + the first-message switch of `handleConnection`
    (server/service.go): what one frame does to a set of sessions.
  * `discoverConn` (pkg/nathole/discovery.go): reader goroutine vs. Close (client side).
  * the readers behind the OTHER connection kinds (work connections, visitor connections): what frps
    parses on them, which message fields it follows (server/proxy/udp.go workConnReaderFn,
    pkg/proto/udp/udp.go ForwardUserConn / Forwarder).
  * `Control.RegisterWorkConn` racing `Control.worker`'s teardown (server/control.go).
-/
namespace Frp
namespace Crash
open LockDisc

/-! ## NewControl -/

/-- repaired variant: a negative pool count is clamped to 0 before it sizes the channel
    (hooks/C16-fix-poolcount.patch). `false` = the code as it is in /repo now. -/
def poolCountIsFixed : Bool := true

/-- server/control.go NewControl:
      poolCount := loginMsg.PoolCount
      if poolCount > int(serverCfg.Transport.MaxPoolCount) { poolCount = int(serverCfg.Transport.MaxPoolCount) }
    (+ repaired: if poolCount < 0 { poolCount = 0 }) -/
def poolCount (fixed : Bool) (maxPool login : Int) : Int :=
  let p := if login > maxPool then maxPool else login
  if fixed && p < 0 then 0 else p

/-- `workConnCh: make(chan net.Conn, poolCount+10)` -/
def chanCap (fixed : Bool) (maxPool login : Int) : Int := poolCount fixed maxPool login + 10

/-- runtime.makechan panics ("makechan: size out of range") iff the size is negative (the upper
    limit, maxAlloc / elemsize, is out of reach: the capacity is bounded by maxPool + 10) -/
def makechanPanics (cap : Int) : Bool := decide (cap < 0)

/-- what a Login that passed authentication does to frps: NewControl runs in the connection's
    goroutine (Service.handleConnection → RegisterControl → NewControl) which has no recover -/
inductive Outcome | alive | processDies
  deriving DecidableEq, Repr

def loginOutcome (fixed : Bool) (maxPool login : Int) : Outcome :=
  if makechanPanics (chanCap fixed maxPool login) then .processDies else .alive

/-- server/proxy/proxy.go GetWorkConnFromPool: `for i := 0; i < pxy.poolCount+1; i++ { … }` (pxy.poolCount is
    the session's poolCount).  With no iteration at all the function returns (nil, nil); every caller
    then uses the nil connection: tcp-class proxies `defer workConn.Close()`, the udp proxy wraps it and
    its reader goroutine reads from it — a nil dereference in a goroutine without recover. -/
def workConnAttempts (fixed : Bool) (maxPool login : Int) : Int := poolCount fixed maxPool login + 1

def getWorkConnReturnsNil (fixed : Bool) (maxPool login : Int) : Bool :=
  decide (workConnAttempts fixed maxPool login ≤ 0)

/-- what the first user connection to (or, for udp, the start of) a proxy of such a session does -/
def proxyUseOutcome (fixed : Bool) (maxPool login : Int) : Outcome :=
  if getWorkConnReturnsNil fixed maxPool login then .processDies else .alive

/-! ## Dispatcher -/

/-- what ReadMsg makes of the next frame of a connection -/
inductive Frame
  | known (typeName : String)     -- a registered type byte and a body that unmarshals
  | bad                           -- unknown type byte, negative / oversized length, malformed JSON, EOF
  deriving DecidableEq, Repr

/-- one session as the dispatcher sees it: still reading or done, and the handler invocations so far -/
structure Sess where
  alive : Bool := true
  handled : List String := []
  deriving DecidableEq, Repr

/-- pkg/msg/handler.go readLoop, one iteration:
      m, err := ReadMsg(d.rw); if err != nil { close(d.doneCh); return }
      if handler, ok := d.msgHandlers[reflect.TypeOf(m)]; ok { handler(m) } else if d.defaultHandler != nil { … }
    (no default handler is registered on either side: Gen.LockFacts.*HandlersDefault = false) -/
def readLoopStep (handlers : List String) (s : Sess) (f : Frame) : Sess :=
  if !s.alive then s else
  match f with
  | .bad => { s with alive := false }
  | .known t => if handlers.contains t then { s with handled := t :: s.handled } else s

/-- a frame arriving on session `i` of a table of sessions -/
def deliver (handlers : List String) : List Sess → Nat → Frame → List Sess
  | [], _, _ => []
  | s :: rest, 0, f => readLoopStep handlers s f :: rest
  | s :: rest, i + 1, f => s :: deliver handlers rest i f

def run (handlers : List String) (ss : List Sess) (evs : List (Nat × Frame)) : List Sess :=
  evs.foldl (fun acc e => deliver handlers acc e.1 e.2) ss

/-- server/service.go handleConnection, the first message of a fresh connection: only the three
    listed types start something, everything else (and every read error) closes THIS connection -/
inductive FirstOutcome | login | workConn | visitorConn | closed
  deriving DecidableEq, Repr

def firstMsg : Frame → FirstOutcome
  | .known "Login" => .login
  | .known "NewWorkConn" => .workConn
  | .known "NewVisitorConn" => .visitorConn
  | _ => .closed

/-! ## Connection kinds

  server/service.go handleConnection reads ONE message of a fresh connection (`firstMsg`).  What frps
  reads afterwards depends on what the connection became:

  * `control`   — Dispatcher.readLoop (above);
  * `pooled`    — a work connection sitting in `workConnCh`: nothing is read;
  * `relay`     — a work connection joined with a user / visitor connection (tcp, stcp, xtcp-less
                  classes; sudp on the server is a relay too), or a visitor connection: bytes are
                  copied (possibly through the decrypt / decompress wrappers), never parsed as messages;
  * `udpWork`   — the work connection of a udp proxy: server/proxy/udp.go `workConnReaderFn` parses
                  frames, `ForwardUserConn` consumes the packets. -/

inductive ConnKind | control | pooled | relay | udpWork
  deriving DecidableEq, Repr

/-- a `*net.UDPAddr` as decoded from the peer's JSON: `none` = field absent or `null` (nil pointer);
    any other value (zero address, port out of range, garbage zone) is a non-nil pointer -/
structure UAddr where
  ipLen : Nat
  port : Int
  deriving DecidableEq, Repr

/-- msg.UDPPacket as the reader sees it -/
structure UdpPkt where
  contentOk : Bool            -- `c` is valid base64
  laddr : Option UAddr        -- `l`
  raddr : Option UAddr        -- `r`
  deriving DecidableEq, Repr

/-- what ReadMsg makes of the next frame of a udp work connection -/
inductive WFrame
  | ping
  | udp (p : UdpPkt)
  | other (typeName : String)   -- any other registered type with a body that unmarshals
  | bad                         -- unknown type byte, bad length, malformed JSON (also: a field of the wrong JSON type), EOF
  deriving DecidableEq, Repr

/-- is the pointer behind field `f` nil in packet `p`? -/
def UdpPkt.isNil (p : UdpPkt) (field : String) : Bool :=
  if field = "UDPPacket.RemoteAddr" then p.raddr.isNone
  else if field = "UDPPacket.LocalAddr" then p.laddr.isNone
  else false

/-- one listed use of a pointer field, executed on packet `p`: a load through a nil pointer outside
    any guard is a SIGSEGV panic — in these goroutines (no recover) the process dies -/
def useOutcome (nilSafe : List (String × String)) (tolerant : List String) (u : PtrUse) (p : UdpPkt) : Outcome :=
  if p.isNil u.field && !u.guarded && u.derefs nilSafe tolerant then .processDies else .alive

/-- all uses a consumer goroutine makes of one packet (over-approximation: every listed use of the
    function is taken as reached, in any order) -/
def consume (nilSafe : List (String × String)) (tolerant : List String) (uses : List PtrUse) (p : UdpPkt) : Outcome :=
  if uses.any (fun u => useOutcome nilSafe tolerant u p == .processDies) then .processDies else .alive

/-- pkg/proto/udp/udp.go ForwardUserConn, the reader goroutine, as the code is:
      for udpMsg := range readCh {
        buf, err := GetContent(udpMsg); if err != nil { continue }
        _, _ = udpConn.WriteToUDP(buf, udpMsg.RemoteAddr) }
    `WriteToUDP` with a nil address returns errMissingAddress (ignored). -/
inductive FwdResult | skipped | writeErr | written
  deriving DecidableEq, Repr

def forwardUserOne (p : UdpPkt) : FwdResult :=
  if !p.contentOk then .skipped
  else match p.raddr with
    | none => .writeErr
    | some a => if 0 < a.port ∧ a.port ≤ 65535 ∧ (a.ipLen = 4 ∨ a.ipLen = 16) then .written else .writeErr

/-- the work connection of one udp proxy (server/proxy/udp.go) -/
structure UdpWork where
  open_ : Bool := true
  queued : List UdpPkt := []      -- pushed into pxy.readCh, in order
  renew : Nat := 0                -- notifications on checkCloseCh: the proxy asks for a new work connection
  deriving DecidableEq, Repr

/-- workConnReaderFn, one iteration:
      if rawMsg, errRet = msg.ReadMsg(conn); errRet != nil { conn.Close(); checkCloseCh <- 1; return }
      switch m := rawMsg.(type) { case *msg.Ping: continue
                                  case *msg.UDPPacket: pxy.readCh <- m }      (no default case) -/
def udpReaderStep (w : UdpWork) (f : WFrame) : UdpWork :=
  if !w.open_ then w else
  match f with
  | .bad => { w with open_ := false, renew := w.renew + 1 }
  | .ping => w
  | .other _ => w
  | .udp p => { w with queued := w.queued ++ [p] }

/-- frps as far as frames can reach it: the process, the control sessions, the udp work connections -/
structure Srv where
  alive : Bool := true
  ctls : List Sess := []
  works : List UdpWork := []
  deriving DecidableEq, Repr

inductive Ev
  | ctl (i : Nat) (f : Frame)       -- a frame on control connection i
  | work (j : Nat) (f : WFrame)     -- a frame on udp work connection j
  | bytes (kind : ConnKind)         -- bytes on a pooled / relayed connection: not parsed
  deriving DecidableEq, Repr

def deliverW : List UdpWork → Nat → WFrame → List UdpWork
  | [], _, _ => []
  | w :: rest, 0, f => udpReaderStep w f :: rest
  | w :: rest, j + 1, f => w :: deliverW rest j f

/-- `fwdUses` = the listed uses inside the consumer of readCh (ForwardUserConn's reader goroutine) -/
def srvStep (handlers : List String) (nilSafe : List (String × String)) (tolerant : List String)
    (fwdUses : List PtrUse) (s : Srv) (e : Ev) : Srv :=
  if !s.alive then s else
  match e with
  | .ctl i f => { s with ctls := deliver handlers s.ctls i f }
  | .bytes _ => s
  | .work j f =>
    let s' := { s with works := deliverW s.works j f }
    match f with
    | .udp p =>
      -- the packet is consumed only if the connection was open (else it was never read)
      if (s.works[j]?.map (·.open_)).getD false && consume nilSafe tolerant fwdUses p == .processDies
      then { s' with alive := false } else s'
    | _ => s'

def srvRun (handlers : List String) (nilSafe : List (String × String)) (tolerant : List String)
    (fwdUses : List PtrUse) (s : Srv) (evs : List Ev) : Srv :=
  evs.foldl (srvStep handlers nilSafe tolerant fwdUses) s

/-! ## RegisterWorkConn against the session's teardown (server/control.go)

  `Control.worker`, after the dispatcher is done, under ctl.mu:
      close(ctl.workConnCh); drain            (label closeCh)
      for each proxy: Close, Del …            (label closeProxies)
      close(ctl.doneCh)                       (label closeDone)
  and the goroutine started by RegisterControl then removes the session from ControlManager (label del).
  A NewWorkConn for the run id may be handled at ANY point in between (label offer): Service.RegisterWorkConn
  finds the session as long as it is in the table and calls
      func (ctl *Control) RegisterWorkConn(conn) (err error) {
        defer func() { if r := recover(); r != nil { …; err = ErrCtlClosed } }()
        select { case ctl.workConnCh <- conn: return nil; default: return "pool is full" } }
  A send on a closed channel panics (the select picks it: a closed channel is always ready for a send
  to panic on).  The caller is the connection's goroutine (HandleListener → handleConnection): no recover. -/

structure Ctl where
  chOpen : Bool := true
  doneOpen : Bool := true
  inTable : Bool := true
  pooled : Nat := 0
  cap : Nat := 10
  deriving DecidableEq, Repr

/-- how RegisterWorkConn is written: `recover_` = the deferred recover is there;
    `doneCheck` = an up-front `select { case <-ctl.doneCh: return ErrCtlClosed; default: }` -/
structure RegVariant where
  recover_ : Bool
  doneCheck : Bool
  deriving DecidableEq, Repr

inductive RegResult | pooled | full | errClosed | notFound | panics
  deriving DecidableEq, Repr

def registerWorkConn (v : RegVariant) (c : Ctl) : Ctl × RegResult :=
  if !c.inTable then (c, .notFound)
  else if v.doneCheck && !c.doneOpen then (c, .errClosed)
  else if !c.chOpen then (c, if v.recover_ then .errClosed else .panics)
  else if c.pooled < c.cap then ({ c with pooled := c.pooled + 1 }, .pooled)
  else (c, .full)

inductive TLabel | closeCh | closeProxies | closeDone | del | offer
  deriving DecidableEq, Repr

def tstep (v : RegVariant) (st : Ctl × Outcome) : TLabel → Ctl × Outcome
  | .closeCh => ({ st.1 with chOpen := false, pooled := 0 }, st.2)
  | .closeProxies => st
  | .closeDone => ({ st.1 with doneOpen := false }, st.2)
  | .del => ({ st.1 with inTable := false }, st.2)
  | .offer =>
    match st.2 with
    | .processDies => st
    | .alive =>
      let r := registerWorkConn v st.1
      (r.1, if r.2 = .panics then .processDies else .alive)

def trun (v : RegVariant) (c : Ctl) (ls : List TLabel) : Ctl × Outcome :=
  ls.foldl (tstep v) (c, .alive)

/-- the schedule the engine's `tear` op forces with the gate it parks the worker at:
    n offers at the gate, the rest of the teardown, one late offer -/
def tearSchedule (gate : String) (n : Nat) : List TLabel :=
  let offers := List.replicate n TLabel.offer
  if gate = "dispDone" then offers ++ [.closeCh, .closeProxies, .closeDone, .del, .offer]
  else if gate = "drained" then [.closeCh] ++ offers ++ [.closeProxies, .closeDone, .del, .offer]
  else if gate = "beforeDone" then [.closeCh, .closeProxies] ++ offers ++ [.closeDone, .del, .offer]
  else if gate = "beforeDel" then [.closeCh, .closeProxies, .closeDone] ++ offers ++ [.del, .offer]
  else [.closeCh, .closeProxies, .closeDone, .del] ++ offers

/-! ## discoverConn (client side, pkg/nathole/discovery.go)

  `readLoop` pushes every datagram into `messageChan` (capacity 10) with a plain send;
  `Discover` consumes one datagram per STUN request and then runs the deferred `Close`, which
  closes `messageChan` first and the socket second.  A sender blocked on a full channel panics
  when the channel is closed. -/

def discoverIsFixed : Bool := true

def discoverBuf : Nat := 10

/-- datagrams the peer sent in answer to `reqs` requests; the reader is blocked in its send when
    `Close` runs iff more datagrams are left than the buffer holds -/
def readerBlockedAtClose (sent reqs : Nat) : Bool := decide (sent - reqs > discoverBuf)

/-- may frpc die? (the repaired reader selects on a done channel, the channel is never closed) -/
def discoverMayDie (fixed : Bool) (sent reqs : Nat) : Bool :=
  !fixed && readerBlockedAtClose sent reqs

/-! ## StartWorkConn addresses on the client (client/proxy/proxy.go HandleTCPWorkConnection)

      if m.SrcAddr != "" && m.SrcPort != 0 {
        if m.DstAddr == "" { m.DstAddr = "127.0.0.1" }
        srcAddr, _ := net.ResolveTCPAddr("tcp", net.JoinHostPort(m.SrcAddr, …))      -- error DISCARDED
        dstAddr, _ := net.ResolveTCPAddr("tcp", net.JoinHostPort(m.DstAddr, …))
        connInfo.SrcAddr = srcAddr; connInfo.DstAddr = dstAddr                      -- net.Addr ← (*net.TCPAddr)(nil)
      }
      if baseCfg.Transport.ProxyProtocolVersion != "" && m.SrcAddr != "" && m.SrcPort != 0 {
        h := &pp.Header{Command: pp.PROXY, SourceAddr: connInfo.SrcAddr, DestinationAddr: connInfo.DstAddr}
        if strings.Contains(m.SrcAddr, ".") { h.TransportProtocol = pp.TCPv4 } else { h.TransportProtocol = pp.TCPv6 }
        if … == "v1" { h.Version = 1 } else if … == "v2" { h.Version = 2 }
        connInfo.ProxyProtocolHeader = h
      }
      … dial the local service …
      if connInfo.ProxyProtocolHeader != nil {
        if _, err := connInfo.ProxyProtocolHeader.WriteTo(localConn); err != nil { workConn.Close(); return } }

  go-proxyproto v0.7.0: formatVersion1 does `sourceAddr, sourceOK := header.SourceAddr.(*net.TCPAddr)` (likewise dest),
  returns ErrInvalidAddress if an assertion fails, then loads `sourceAddr.IP`, `destAddr.IP`; formatVersion2 goes through
  Header.IPs → TCPAddrs (the same assertions) → `sourceAddr.IP`.  A typed nil pointer inside the interface PASSES the
  assertion and the load is a nil dereference — in the work connection's goroutine, which has no recover: frpc dies.
  An untyped nil fails the assertion: ErrInvalidAddress, the work connection is closed. -/

/-- repaired variant (hooks/C16-fix-startworkconn-addr.patch): an address that does not resolve is not stored.
    `false` = the code as it is in /repo now. -/
def startWorkAddrIsFixed : Bool := true

/-- what net.ResolveTCPAddr made of host:port -/
inductive AddrRes | v4 | v6 | bad
  deriving DecidableEq, Repr

/-- the net.Addr interface value in connInfo / the header -/
inductive AddrVal
  | absent                 -- untyped nil
  | typedNil               -- (*net.TCPAddr)(nil)
  | tcp (isV4 : Bool)      -- a resolved address (isV4: IP.To4() != nil)
  deriving DecidableEq, Repr

def storeAddr (fixed : Bool) : AddrRes → AddrVal
  | .v4 => .tcp true
  | .v6 => .tcp false
  | .bad => if fixed then .absent else .typedNil

/-- transport.proxyProtocolVersion of the proxy -/
inductive PPVer | unset | v1 | v2 | other
  deriving DecidableEq, Repr

inductive SwcOut
  | crash      -- nil dereference in go-proxyproto: the process dies
  | hdr        -- the header is written to the local service, the connections are joined
  | nohdr      -- no header; the connections are joined
  | closed     -- WriteTo returned an error: the work connection is closed
  deriving DecidableEq, Repr

/-- Header.WriteTo for version 1 and 2 (the address part is the same in both: assert, load, To4 / To16) -/
def headerWrite (ver : PPVer) (protoV4 : Bool) (src dst : AddrVal) : SwcOut :=
  match ver with
  | .unset => .nohdr
  | .other => .closed                                   -- Version 0: ErrUnknownProxyProtocolVersion
  | _ =>
    match src, dst with
    | .absent, _ => .closed                             -- assertion fails: ErrInvalidAddress
    | _, .absent => .closed
    | .typedNil, _ => .crash                            -- sourceAddr.IP
    | _, .typedNil => .crash                            -- destAddr.IP
    | .tcp s4, .tcp d4 =>
      if protoV4 then (if s4 && d4 then .hdr else .closed)   -- To4() == nil: ErrInvalidAddress
      else .hdr                                              -- To16() of an IP is never nil

/-- HandleTCPWorkConnection as far as the addresses go.  `srcGiven` = m.SrcAddr != "" && m.SrcPort != 0,
    `srcHasDot` = strings.Contains(m.SrcAddr, "."), src / dst = what the resolver made of them -/
def handleStartWork (fixed : Bool) (ver : PPVer) (srcGiven srcHasDot : Bool) (src dst : AddrRes) : SwcOut :=
  if !srcGiven then .nohdr
  else headerWrite ver srcHasDot (storeAddr fixed src) (storeAddr fixed dst)

/-! ## the reader of a udp proxy's user socket against the proxy's Close (pkg/proto/udp ForwardUserConn, server/proxy/udp.go)

  ForwardUserConn, the writer half, runs in its own goroutine (no recover):
      for { n, remoteAddr, err := udpConn.ReadFromUDP(buf); if err != nil { return }       (label recv)
            udpMsg := NewUDPPacket(…)
            select { case sendCh <- udpMsg: default: } }                                   (label send)
  UDPProxy.Close (CloseProxy, session teardown — another goroutine): … pxy.udpConn.Close()  (label closeSock)
      close(pxy.checkCloseCh); close(pxy.readCh); close(pxy.sendCh)                         (label closeCh)
  A datagram read just before closeSock is handed over after closeCh: send on a closed channel.  The same function
  serves the sudp visitor on the client (client/visitor/sudp.go, channel closed by SUDPVisitor.Close). -/

/-- repaired variant (hooks/C16-fix-udp-forward-send.patch): the send is wrapped in errors.PanicToError, as in
    Forwarder.  `false` = the code as it is in /repo now. -/
def udpForwardSendIsFixed : Bool := true

structure Fwd where
  sockOpen : Bool := true
  chOpen : Bool := true
  inHand : Bool := false      -- a datagram has been read and not yet handed over
  running : Bool := true      -- the goroutine has not returned
  deriving DecidableEq, Repr

inductive FLabel | recv | send | closeSock | closeCh
  deriving DecidableEq, Repr

def fstep (recovered : Bool) (st : Fwd × Outcome) : FLabel → Fwd × Outcome
  | .recv =>
    if st.1.running && !st.1.inHand then
      (if st.1.sockOpen then ({ st.1 with inHand := true }, st.2) else ({ st.1 with running := false }, st.2))
    else st
  | .send =>
    if st.1.running && st.1.inHand then
      (if st.1.chOpen then ({ st.1 with inHand := false }, st.2)
       else if recovered then ({ st.1 with running := false, inHand := false }, st.2)
       else (st.1, .processDies))
    else st
  | .closeSock => ({ st.1 with sockOpen := false }, st.2)
  | .closeCh => ({ st.1 with chOpen := false }, st.2)

def frun (recovered : Bool) (f : Fwd) (ls : List FLabel) : Fwd × Outcome :=
  ls.foldl (fstep recovered) (f, .alive)

end Crash
end Frp
