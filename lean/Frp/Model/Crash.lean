/-
  C16 obligations 2 and 3b: small total models of the two places where a peer-chosen value or an
  arbitrary frame meets code that runs in a goroutine without recover.

  * `NewControl` (server/control.go): poolCount computation and `make(chan net.Conn, poolCount+10)`.
  * `Dispatcher.readLoop` (pkg/msg/handler.go) + the first-message switch of `handleConnection`
    (server/service.go): what one frame does to a set of sessions.
  * `discoverConn` (pkg/nathole/discovery.go): reader goroutine vs. Close (client side).
-/
namespace Frp
namespace Crash

/-! ## NewControl -/

/-- repaired variant: a negative pool count is clamped to 0 before it sizes the channel
    (hooks/C16-fix-poolcount.patch). `false` = the code as it is in /repo now. -/
def poolCountIsFixed : Bool := true

/-- server/control.go NewControl:
      poolCount := loginMsg.PoolCount
      if poolCount > int(serverCfg.Transport.MaxPoolCount) { poolCount = int(serverCfg.Transport.MaxPoolCount) }
    (+ repaired: if poolCount < 0 { poolCount = 0 }) -/
def poolCount (fixed : Bool) (maxPool login : Int) : Int :=
  let p := if login > maxPool then maxPool else login
  if fixed && p < 0 then 0 else p

/-- `workConnCh: make(chan net.Conn, poolCount+10)` -/
def chanCap (fixed : Bool) (maxPool login : Int) : Int := poolCount fixed maxPool login + 10

/-- runtime.makechan panics ("makechan: size out of range") iff the size is negative (the upper
    limit, maxAlloc / elemsize, is out of reach: the capacity is bounded by maxPool + 10) -/
def makechanPanics (cap : Int) : Bool := decide (cap < 0)

/-- what a Login that passed authentication does to frps: NewControl runs in the connection's
    goroutine (Service.handleConnection → RegisterControl → NewControl) which has no recover -/
inductive Outcome | alive | processDies
  deriving DecidableEq, Repr

def loginOutcome (fixed : Bool) (maxPool login : Int) : Outcome :=
  if makechanPanics (chanCap fixed maxPool login) then .processDies else .alive

/-- server/proxy/proxy.go GetWorkConnFromPool: `for i := 0; i < pxy.poolCount+1; i++ { … }` (pxy.poolCount is
    the session's poolCount).  With no iteration at all the function returns (nil, nil); every caller
    then uses the nil connection: tcp-class proxies `defer workConn.Close()`, the udp proxy wraps it and
    its reader goroutine reads from it — a nil dereference in a goroutine without recover. -/
def workConnAttempts (fixed : Bool) (maxPool login : Int) : Int := poolCount fixed maxPool login + 1

def getWorkConnReturnsNil (fixed : Bool) (maxPool login : Int) : Bool :=
  decide (workConnAttempts fixed maxPool login ≤ 0)

/-- what the first user connection to (or, for udp, the start of) a proxy of such a session does -/
def proxyUseOutcome (fixed : Bool) (maxPool login : Int) : Outcome :=
  if getWorkConnReturnsNil fixed maxPool login then .processDies else .alive

/-! ## Dispatcher -/

/-- what ReadMsg makes of the next frame of a connection -/
inductive Frame
  | known (typeName : String)     -- a registered type byte and a body that unmarshals
  | bad                           -- unknown type byte, negative / oversized length, malformed JSON, EOF
  deriving DecidableEq, Repr

/-- one session as the dispatcher sees it: still reading or done, and the handler invocations so far -/
structure Sess where
  alive : Bool := true
  handled : List String := []
  deriving DecidableEq, Repr

/-- pkg/msg/handler.go readLoop, one iteration:
      m, err := ReadMsg(d.rw); if err != nil { close(d.doneCh); return }
      if handler, ok := d.msgHandlers[reflect.TypeOf(m)]; ok { handler(m) } else if d.defaultHandler != nil { … }
    (no default handler is registered on either side: Gen.LockFacts.*HandlersDefault = false) -/
def readLoopStep (handlers : List String) (s : Sess) (f : Frame) : Sess :=
  if !s.alive then s else
  match f with
  | .bad => { s with alive := false }
  | .known t => if handlers.contains t then { s with handled := t :: s.handled } else s

/-- a frame arriving on session `i` of a table of sessions -/
def deliver (handlers : List String) : List Sess → Nat → Frame → List Sess
  | [], _, _ => []
  | s :: rest, 0, f => readLoopStep handlers s f :: rest
  | s :: rest, i + 1, f => s :: deliver handlers rest i f

def run (handlers : List String) (ss : List Sess) (evs : List (Nat × Frame)) : List Sess :=
  evs.foldl (fun acc e => deliver handlers acc e.1 e.2) ss

/-- server/service.go handleConnection, the first message of a fresh connection: only the three
    listed types start something, everything else (and every read error) closes THIS connection -/
inductive FirstOutcome | login | workConn | visitorConn | closed
  deriving DecidableEq, Repr

def firstMsg : Frame → FirstOutcome
  | .known "Login" => .login
  | .known "NewWorkConn" => .workConn
  | .known "NewVisitorConn" => .visitorConn
  | _ => .closed

/-! ## discoverConn (client side, pkg/nathole/discovery.go)

  `readLoop` pushes every datagram into `messageChan` (capacity 10) with a plain send;
  `Discover` consumes one datagram per STUN request and then runs the deferred `Close`, which
  closes `messageChan` first and the socket second.  A sender blocked on a full channel panics
  when the channel is closed. -/

def discoverIsFixed : Bool := true

def discoverBuf : Nat := 10

/-- datagrams the peer sent in answer to `reqs` requests; the reader is blocked in its send when
    `Close` runs iff more datagrams are left than the buffer holds -/
def readerBlockedAtClose (sent reqs : Nat) : Bool := decide (sent - reqs > discoverBuf)

/-- may frpc die? (the repaired reader selects on a done channel, the channel is never closed) -/
def discoverMayDie (fixed : Bool) (sent reqs : Nat) : Bool :=
  !fixed && readerBlockedAtClose sent reqs

end Crash
end Frp
