/-
  Small-step model of the server's session bookkeeping (property C12)
    server/service.go     Service.RegisterControl
    server/control.go     ControlManager.Add / Del / GetByID, Control.Replaced / WaitClosed / Start /
                          worker / RegisterProxy / CloseProxy
    server/proxy/proxy.go Manager.Add / Del / Exist
    pkg/msg/handler.go    Dispatcher.readLoop (handlers run sequentially; Done closes after the last one)

  A label is ONE atomic action of the Go code: a critical section under one mutex, one channel
  operation, or the stretch between two gate points (`verifhook.At`, commit 75a0848).  The labels of
  different sessions interleave freely; `step` returns `none` when the label is not enabled.

  Sessions are numbered (the harness puts the number into Login.Hostname), run ids and proxy names are
  numbers.  Pointer equality `c == ctl` of ControlManager.Del is equality of session numbers.

  Resources behind a proxy: the two rendez-vous tables that are keyed BY PROXY NAME are modelled
    server/visitor/visitor.go  Manager.listeners   (stcp, sudp: Listen / CloseListener)      `St.vis`
    pkg/nathole/controller.go  Controller.clientCfgs (xtcp: ListenClient / CloseClient)      `St.nat`
  because `Close()` of these proxy types releases the entry by name, whoever created it
  (server/proxy/stcp.go, sudp.go, xtcp.go).  Ports and routes (tcp, udp, http …) are private to the proxy
  object that acquired them (released by the value the object holds: C09/C10); whether `Run` gets them is an oracle.

  NOT modelled: ports / routes held by a proxy (C09/C10), the work-connection pool (C11),
  MaxPortsPerClient, `Control.runID = ""` written by Replaced (only read for LoginResp and plugin
  notifications), plugins, heartbeat timing (a timeout is a `connClose`).
-/
namespace Frp
namespace Sess

/-! ### tables -/

/-- association list keyed by numbers; read through `get`, written through `set` -/
structure Tbl (α : Type) where
  l : List (Nat × α) := []
deriving Repr

def look {α : Type} : List (Nat × α) → Nat → Option α
  | [], _ => none
  | (k, v) :: l, k' => if k' = k then some v else look l k'

def Tbl.get {α : Type} [Inhabited α] (t : Tbl α) (k : Nat) : α := (look t.l k).getD default

def Tbl.set {α : Type} (t : Tbl α) (k : Nat) (v : α) : Tbl α :=
  ⟨(k, v) :: t.l.filter (fun e => e.1 != k)⟩

theorem look_filter_ne {α : Type} (l : List (Nat × α)) {k k' : Nat} (h : k' ≠ k) :
    look (l.filter (fun e => e.1 != k)) k' = look l k' := by
  induction l with
  | nil => rfl
  | cons e l ih =>
    obtain ⟨a, v⟩ := e
    by_cases ha : a = k
    · subst ha
      simp only [List.filter, bne_self_eq_false, look, if_neg h, ih]
    · have : (a != k) = true := by simp [bne_iff_ne, ha]
      simp only [List.filter, this, look, ih]

@[simp] theorem Tbl.get_set {α : Type} [Inhabited α] (t : Tbl α) (k k' : Nat) (v : α) :
    (t.set k v).get k' = if k' = k then v else t.get k' := by
  unfold Tbl.get Tbl.set
  by_cases h : k' = k
  · simp [look, h]
  · simp only [look, if_neg h, look_filter_ne _ h]

/-! ### state -/

/-- where the goroutines of one session stand (RegisterControl, then Control.worker) -/
inductive Phase
  | none        -- no such session
  | created     -- RegisterControl: NewControl done, standing before ctlManager.Add   (gate ctl.beforeAdd)
  | added       -- ctlManager.Add done                                                (gate ctl.beforeWait / ctl.beforeStart)
  | waited      -- oldCtl.WaitClosed() returned                                        (gate ctl.beforeStart)
  | running     -- ctl.Start(): LoginResp written (ack), worker + dispatcher running
  | dispDone    -- worker: `<-ctl.msgDispatcher.Done()` passed                         (gate worker.dispDone)
  | drained     -- worker: conn closed, pool closed and drained, iterating ctl.proxies  (gates worker.drained / worker.proxy)
  | done        -- worker: close(ctl.doneCh)                                           (after gate worker.beforeDone)
deriving DecidableEq, Repr, Inhabited

/-- where the (single, sequential) message handler of a session stands -/
inductive HP
  | idle
  | checked (p : Nat)    -- RegisterProxy: pxyManager.Exist said no                    (gate reg.checked)
  | ran (p : Nat)        -- pxy.Run() succeeded                                        (gate reg.ran)
  | added (p : Nat)      -- pxyManager.Add succeeded                                   (gate reg.added)
  | closing (p : Nat)    -- CloseProxy: pxy.Close(); pxyManager.Del done               (gate close.deleted)
deriving DecidableEq, Repr, Inhabited

/-- what `pxy.Run()` acquires: something private to the proxy object (`plain`: a port, routes), or an
    entry under the proxy's NAME in the visitor manager (`vis`: stcp, sudp) / nat hole controller (`nat`: xtcp) -/
inductive Kind
  | plain | vis | nat
deriving DecidableEq, Repr, Inhabited

structure Rec where
  rid : Nat := 0                 -- loginMsg.RunID (after RandID for a login without run id)
  fresh : Bool := false          -- the login came without run id (ghost)
  phase : Phase := .none
  old : Option Nat := none       -- what ctlManager.Add returned
  stamp : Nat := 0               -- ghost: position of this session's Add in the order of all Adds
  hp : HP := .idle
  own : List Nat := []           -- ctl.proxies (keys)
  todo : List Nat := []          -- worker: keys of ctl.proxies not yet visited by the range loop
  deleted : Bool := false        -- the goroutine `WaitClosed; Del` has run its Del
  vres : List Nat := []          -- names of this session's open proxy objects whose Run created a visitor listener
  nres : List Nat := []          -- … a nat hole client entry
deriving DecidableEq, Repr

instance : Inhabited Rec := ⟨{}⟩

structure St where
  sess : Tbl Rec := {}
  byRun : Tbl (Option Nat) := {}     -- ControlManager.ctlsByRunID
  names : Tbl (Option Nat) := {}     -- proxy.Manager.pxys : name ↦ session whose proxy object is stored
  closed : Tbl Bool := {}            -- the control connection of the session is closed (by either side)
  ctr : Nat := 0                     -- ghost: number of Adds so far
  ids : List Nat := []               -- ghost: sessions created so far
  vis : Tbl (Option Nat) := {}       -- visitor.Manager.listeners : name ↦ session whose proxy object created the entry
  nat : Tbl (Option Nat) := {}       -- nathole.Controller.clientCfgs : name ↦ session whose proxy object created the entry
deriving Repr

def St.s (S : St) (n : Nat) : Rec := S.sess.get n
def St.upd (S : St) (n : Nat) (f : Rec → Rec) : St := { S with sess := S.sess.set n (f (S.s n)) }

def Phase.started : Phase → Bool
  | .running | .dispDone | .drained | .done => true
  | _ => false

/-- `Add` has run -/
def Phase.isAdded : Phase → Bool
  | .none | .created => false
  | _ => true

/-- acknowledged and not yet completely torn down -/
def Phase.live : Phase → Bool
  | .running | .dispDone | .drained => true
  | _ => false

def insertKey (p : Nat) (l : List Nat) : List Nat := if p ∈ l then l else p :: l
def removeKey (p : Nat) (l : List Nat) : List Nat := l.filter (fun q => q != p)

/-- `pxy.Close()` of session `n`'s proxy object named `p`, rendez-vous part: STCPProxy/SUDPProxy.Close call
    `VisitorManager.CloseListener(name)`, XTCPProxy.Close calls `NatHoleController.CloseClient(name)` — a delete
    BY NAME, whoever is stored there.  (`p ∈ vres/nres` is the kind of the object being closed.) -/
def relVis (S : St) (n p : Nat) : Tbl (Option Nat) := if p ∈ (S.s n).vres then S.vis.set p none else S.vis
def relNat (S : St) (n p : Nat) : Tbl (Option Nat) := if p ∈ (S.s n).nres then S.nat.set p none else S.nat

inductive Label
  | login (n r : Nat) (fresh : Bool)   -- RegisterControl up to ctlManager.Add (RandID if the login carries no run id)
  | add (n : Nat)                      -- ControlManager.Add under cm.mu, incl. old.Replaced(ctl)
  | waitOld (n : Nat)                  -- oldCtl.WaitClosed() returns
  | start (n : Nat)                    -- ctl.Start(): the login is acknowledged
  | connClose (n : Nat)                -- the peer closes / heartbeat timeout closes the control connection
  | dispDone (n : Nat)                 -- the dispatcher's read loop ends (closed connection, no handler running)
  | drain (n : Nat)                    -- worker: conn.Close; ctl.mu.Lock; close(workConnCh); drain
  | closeProxy (n p : Nat)             -- worker: pxy.Close(); pxyManager.Del(name) for one entry of ctl.proxies
  | done (n : Nat)                     -- worker: close(doneCh)
  | del (n : Nat)                      -- ctlManager.Del(runID, ctl) by the goroutine that waited for doneCh
  | regExist (n p : Nat)               -- RegisterProxy up to pxyManager.Exist
  | regRun (n p : Nat) (k : Kind) (ok : Bool)  -- pxy.Run() of a proxy of kind k (ok: oracle for `plain`)
  | regAdd (n p : Nat)                 -- pxyManager.Add (+ deferred pxy.Close() on error)
  | regOwn (n p : Nat)                 -- ctl.proxies[name] = pxy
  | closeReq (n p : Nat)               -- CloseProxy: own-table lookup, pxy.Close, pxyManager.Del
  | closeFin (n p : Nat)               -- CloseProxy: delete(ctl.proxies, name)
deriving DecidableEq, Repr

/-- what the caller / peer of the action observes -/
inductive Res
  | none | refused | proceed | noop | old (o : Nat) | noOld
deriving DecidableEq, Repr

def step (S : St) : Label → Option St
  | .login n r fresh =>
    if (S.s n).phase ≠ .none then none
    -- the id generator is abstract: a generated id is one that no session has (util.RandID, 64 random bits)
    else if fresh = true ∧ S.ids.any (fun m => (S.s m).rid == r) = true then none
    -- an id cannot be presented before it was disclosed (it is disclosed by the LoginResp of `start`)
    else if fresh = false ∧
        S.ids.any (fun m => (S.s m).fresh && (S.s m).rid == r && !(S.s m).phase.started) = true then none
    else some { S.upd n (fun _ => { rid := r, fresh := fresh, phase := .created }) with ids := n :: S.ids }
  | .add n =>
    let x := S.s n
    if x.phase ≠ .created then none else
    -- old, ok = cm.ctlsByRunID[runID]; if ok { old.Replaced(ctl) }; cm.ctlsByRunID[runID] = ctl
    let o := S.byRun.get x.rid
    some { S.upd n (fun y => { y with phase := .added, old := o, stamp := S.ctr }) with
             byRun := S.byRun.set x.rid (some n)
             closed := (match o with | some o => S.closed.set o true | none => S.closed)
             ctr := S.ctr + 1 }
  | .waitOld n =>
    let x := S.s n
    match x.old with
    | none => none
    | some o =>
      if x.phase = .added ∧ (S.s o).phase = .done then some (S.upd n (fun y => { y with phase := .waited }))
      else none
  | .start n =>
    let x := S.s n
    if (x.phase = .added ∧ x.old = none) ∨ x.phase = .waited then
      some (S.upd n (fun y => { y with phase := .running }))
    else none
  | .connClose n =>
    if (S.s n).phase = .none then none else some { S with closed := S.closed.set n true }
  | .dispDone n =>
    let x := S.s n
    if x.phase = .running ∧ x.hp = .idle ∧ S.closed.get n = true then
      some (S.upd n (fun y => { y with phase := .dispDone }))
    else none
  | .drain n =>
    let x := S.s n
    if x.phase = .dispDone then some (S.upd n (fun y => { y with phase := .drained, todo := y.own })) else none
  | .closeProxy n p =>
    let x := S.s n
    -- pxy.Close(); ctl.pxyManager.Del(pxy.GetName())  — Del is BY NAME, whoever is stored there
    if x.phase = .drained ∧ p ∈ x.todo then
      some { S.upd n (fun y => { y with todo := removeKey p y.todo, vres := removeKey p y.vres, nres := removeKey p y.nres }) with
               names := S.names.set p none, vis := relVis S n p, nat := relNat S n p }
    else none
  | .done n =>
    let x := S.s n
    if x.phase = .drained ∧ x.todo = [] then some (S.upd n (fun y => { y with phase := .done })) else none
  | .del n =>
    let x := S.s n
    if x.phase = .done ∧ x.deleted = false then
      -- if c, ok := cm.ctlsByRunID[runID]; ok && c == ctl { delete(cm.ctlsByRunID, runID) }
      some { S.upd n (fun y => { y with deleted := true }) with
               byRun := if S.byRun.get x.rid = some n then S.byRun.set x.rid none else S.byRun }
    else none
  | .regExist n p =>
    let x := S.s n
    if x.phase = .running ∧ x.hp = .idle then
      -- if ctl.pxyManager.Exist(name) { err = "proxy already exists" }
      if (S.names.get p).isSome then some S else some (S.upd n (fun y => { y with hp := .checked p }))
    else none
  | .regRun n p k ok =>
    if (S.s n).hp = .checked p then
      match k with
      | .plain => some (S.upd n (fun y => { y with hp := if ok then .ran p else .idle }))
      | .vis =>
        -- VisitorManager.Listen(name, …): "custom listener for [name] is repeated" iff the name has an entry;
        -- a failed Run returns at once: nothing was acquired, nothing is released
        if (S.vis.get p).isSome then some (S.upd n (fun y => { y with hp := .idle }))
        else some { S.upd n (fun y => { y with hp := .ran p, vres := insertKey p y.vres }) with vis := S.vis.set p (some n) }
      | .nat =>
        -- NatHoleController.ListenClient(name, …): "proxy [name] is repeated" iff the name has an entry
        if (S.nat.get p).isSome then some (S.upd n (fun y => { y with hp := .idle }))
        else some { S.upd n (fun y => { y with hp := .ran p, nres := insertKey p y.nres }) with nat := S.nat.set p (some n) }
    else none
  | .regAdd n p =>
    if (S.s n).hp = .ran p then
      -- err = ctl.pxyManager.Add(name, pxy): refuses an occupied name; deferred pxy.Close() of the NEW proxy
      if (S.names.get p).isSome then
        some { S.upd n (fun y => { y with hp := .idle, vres := removeKey p y.vres, nres := removeKey p y.nres }) with
                 vis := relVis S n p, nat := relNat S n p }
      else some { S.upd n (fun y => { y with hp := .added p }) with names := S.names.set p (some n) }
    else none
  | .regOwn n p =>
    if (S.s n).hp = .added p then some (S.upd n (fun y => { y with hp := .idle, own := insertKey p y.own }))
    else none
  | .closeReq n p =>
    let x := S.s n
    if x.phase = .running ∧ x.hp = .idle then
      -- pxy, ok := ctl.proxies[name]; if !ok { return }; pxy.Close(); ctl.pxyManager.Del(pxy.GetName())
      if p ∈ x.own then
        some { S.upd n (fun y => { y with hp := .closing p, vres := removeKey p y.vres, nres := removeKey p y.nres }) with
                 names := S.names.set p none, vis := relVis S n p, nat := relNat S n p }
      else some S
    else none
  | .closeFin n p =>
    if (S.s n).hp = .closing p then
      some (S.upd n (fun y => { y with hp := .idle, own := removeKey p y.own }))
    else none

/-- what the action reports (evaluated on the state BEFORE the step) -/
def res (S : St) : Label → Res
  | .add n => match S.byRun.get (S.s n).rid with | some o => .old o | none => .noOld
  | .regExist _ p => if (S.names.get p).isSome then .refused else .proceed
  | .regAdd _ p => if (S.names.get p).isSome then .refused else .proceed
  | .regRun _ p .vis _ => if (S.vis.get p).isSome then .refused else .proceed
  | .regRun _ p .nat _ => if (S.nat.get p).isSome then .refused else .proceed
  | .regRun _ _ .plain ok => if ok then .proceed else .refused
  | .closeReq n p => if p ∈ (S.s n).own then .proceed else .noop
  | _ => .none

def init : St := {}

/-- the session a label belongs to -/
def Label.sid : Label → Nat
  | .login n _ _ | .add n | .waitOld n | .start n | .connClose n | .dispDone n | .drain n
  | .closeProxy n _ | .done n | .del n | .regExist n _ | .regRun n _ _ _ | .regAdd n _ | .regOwn n _
  | .closeReq n _ | .closeFin n _ => n

/-- run a label list; `none` if some label is not enabled -/
def run : St → List Label → Option St
  | S, [] => some S
  | S, l :: ls => match step S l with
    | none => none
    | some S' => run S' ls

/-- reachable from the empty server by some interleaving -/
def Reachable (S : St) : Prop := ∃ ls, run init ls = some S

end Sess
end Frp
