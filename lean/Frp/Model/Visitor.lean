import Frp.Model.Str
import Frp.Model.NatHole
/-
  Admission of visitors to secret proxies (stcp / sudp / xtcp), server side, as the Go code has it:

    server/visitor/visitor.go     Manager.Listen / NewConn / CloseListener          (stcp, sudp)
    pkg/util/net/listener.go      InternalListener.PutConn / Close (cap 128, closed flag)
    server/service.go             RegisterVisitorConn (visitor user := user of the session with that run id),
                                  RegisterControl (a login with the run id of a live session replaces it)
    server/proxy/{stcp,sudp,xtcp}.go  Run (default allow list = [owner's user]), Close
    server/control.go             RegisterProxy (name must be free), CloseProxy (own proxies only)
    pkg/nathole/controller.go     ListenClient / CloseClient / HandleVisitor (pre-check branch and
                                  the critical section of the session branch)

  The key derivation `util.GetAuthKey(sk, ts) = hex(md5(sk ++ decimal ts))` is a parameter
  `H : Str → Str` applied to `NatHole.authInput sk ts` (the bytes fed to md5): the theorems hold for
  every `H`; the driver instantiates `H := Md5.hexDigest`.

  `natFixed` is the switch between the code as it is (false: the session branch of HandleVisitor does
  not consult allowUsers) and the proposed repair hooks/C08-fix-nathole-allowusers.patch (true).
-/
namespace Frp
namespace Visitor
open NatHole (aget aput adel authInput)

/-- `false` = pkg/nathole/controller.go as it is now; `true` = with hooks/C08-fix-nathole-allowusers.patch.
    Flip this (and commit the patch to /repo) to make the driver follow the repaired code. -/
def natFixed : Bool := true

inductive Err
  | noRun        -- "no client control found for run id"
  | noListener   -- "custom listener for [..] doesn't exist" / "xtcp server for [..] doesn't exist"
  | authFailed   -- "... auth failed"
  | notAllowed   -- "... user [..] not allowed"
  | lclosed      -- "put conn error: listener is closed"
  | encFailed    -- "create encryption connection failed: .." (libio.WithEncryption: the IV source failed)
  deriving DecidableEq, Repr

/-- an element of an InternalListener's accept channel, with ghost fields recording the request that put it there -/
structure QItem where
  conn : Nat
  user : Str
  sign : Str
  ts : Int
  deriving DecidableEq, Repr

/-- visitor.go `listenerBundle` + the `InternalListener` it points to -/
structure Listener where
  sk : Str
  allow : List Str
  lid : Nat                  -- identity of the InternalListener made by this Listen call (held by the owner)
  owner : Str := []          -- run id of the registering session (service layer; "" when driven directly)
  closed : Bool := false     -- InternalListener.closed
  queue : List QItem := []   -- acceptCh, oldest first (capacity 128)
  deriving DecidableEq, Repr

/-- nathole `ClientCfg` -/
structure NatCfg where
  sk : Str
  allow : List Str
  chan : Nat                 -- identity of the sidCh made by this ListenClient call (held by the owner loop)
  owner : Str := []
  deriving DecidableEq, Repr

/-- ghost record of a stored nathole session: who is being notified and for which request -/
structure NatSess where
  chan : Nat
  sk : Str
  allow : List Str
  user : Str
  sign : Str
  ts : Int
  deriving DecidableEq, Repr

def acceptCap : Nat := 128

/-- `slices.Contains(allowUsers, user) || slices.Contains(allowUsers, "*")` -/
def allowedB (allow : List Str) (user : Str) : Bool := allow.contains user || allow.contains [Str.star]

/-- `util.GetAuthKey(sk, ts)` -/
def authKey (H : Str → Str) (sk : Str) (ts : Int) : Str := H (authInput sk ts)

/-- stcp.go / sudp.go / xtcp.go `Run`: `if len(allowUsers) == 0 { allowUsers = []string{owner user} }` -/
def effectiveAllow (cfgAllow : List Str) (ownerUser : Str) : List Str :=
  if cfgAllow.length = 0 then [ownerUser] else cfgAllow

/-- service.go `RegisterVisitorConn`: empty run id ⇒ user "" (compatibility path); unknown ⇒ error -/
def resolveUser (ctls : List (Str × Str)) (rid : Str) : Except Err Str :=
  if rid = [] then .ok []
  else match aget ctls rid with
    | none => .error .noRun
    | some u => .ok u

inductive ConnOut
  | queued (lid : Nat)       -- handed to the owner's accept channel; the visitor is told ""
  | dropped (lid : Nat)      -- accept channel full: PutConn closes the connection and returns nil; visitor told ""
  | err (e : Err)
  deriving DecidableEq, Repr

/-- visitor.go `Manager.NewConn` (+ `InternalListener.PutConn`) -/
def newConn (H : Str → Str) (ls : List (Str × Listener)) (name : Str) (ts : Int) (sign user : Str) (conn : Nat) :
    List (Str × Listener) × ConnOut :=
  match aget ls name with
  | none => (ls, .err .noListener)
  | some l =>
    if authKey H l.sk ts ≠ sign then (ls, .err .authFailed)
    else if !allowedB l.allow user then (ls, .err .notAllowed)
    else if l.closed then (ls, .err .lclosed)                 -- send on the closed channel panics → error
    else if l.queue.length ≥ acceptCap then (ls, .dropped l.lid)
    else (aput ls name { l with queue := l.queue ++ [{ conn := conn, user := user, sign := sign, ts := ts }] }, .queued l.lid)

inductive NatOut
  | preOk                    -- pre-check answered with Error = ""; nothing stored, nobody notified
  | granted (chan : Nat)    -- session stored; its sid is sent on the owner's channel `chan`
  | err (e : Err)
  deriving DecidableEq, Repr

/-- controller.go `HandleVisitor`: the pre-check branch, and the critical section of the session branch.
    `fixed` = with the allowUsers test added to the session branch. -/
def natVisit (fixed : Bool) (H : Str → Str) (cfgs : List (Str × NatCfg)) (sess : List (Str × NatSess))
    (sid name : Str) (ts : Int) (sign user : Str) (pre : Bool) : List (Str × NatSess) × NatOut :=
  if pre then
    match aget cfgs name with
    | none => (sess, .err .noListener)
    | some c => if !allowedB c.allow user then (sess, .err .notAllowed) else (sess, .preOk)   -- the key is not looked at
  else
    match aget cfgs name with
    | none => (sess, .err .noListener)
    | some c =>
      if sign ≠ authKey H c.sk ts then (sess, .err .authFailed)
      else if fixed && !allowedB c.allow user then (sess, .err .notAllowed)
      else (aput sess sid { chan := c.chan, sk := c.sk, allow := c.allow, user := user, sign := sign, ts := ts },
            .granted c.chan)

/-! ## the server-side bookkeeping as a state machine -/

structure State where
  ctls : List (Str × Str) := []             -- ControlManager: run id → login user
  listeners : List (Str × Listener) := []   -- visitor.Manager.listeners
  natCfgs : List (Str × NatCfg) := []       -- nathole Controller.clientCfgs
  natSess : List (Str × NatSess) := []      -- nathole Controller.sessions
  nextId : Nat := 0
  deriving Repr

inductive Kind
  | stcp | sudp | xtcp
  deriving DecidableEq, Repr

inductive Op
  | login (rid user : Str)                                   -- RegisterControl: ControlManager.Add; a control still registered
                                                             -- under this run id is Replaced and waited for (its proxies are closed)
  | logout (rid : Str)                                       -- session ends: its proxies closed, then ControlManager.Del
  | listen (name sk : Str) (allow : List Str)                -- Manager.Listen, driven directly
  | natListen (name sk : Str) (allow : List Str)             -- Controller.ListenClient, driven directly
  | register (rid : Str) (kind : Kind) (name sk : Str) (cfgAllow : List Str)   -- Control.RegisterProxy → Run
  | closeListener (name : Str)                               -- Manager.CloseListener
  | natClose (name : Str)                                    -- Controller.CloseClient
  | closeProxy (rid name : Str)                              -- Control.CloseProxy
  | lclose (name : Str)                                      -- InternalListener.Close alone (BaseProxy.Close, before CloseListener)
  | accept (name : Str)                                      -- the owner's accept loop takes one connection
  | newConn (name : Str) (ts : Int) (sign user : Str) (conn : Nat)     -- Manager.NewConn, driven directly
  | visitorConn (name : Str) (ts : Int) (sign rid : Str) (conn : Nat)  -- Service.RegisterVisitorConn
  | natVisit (sid name : Str) (ts : Int) (sign user : Str) (pre : Bool)  -- Controller.HandleVisitor
  | natVisitBy (sid name : Str) (ts : Int) (sign rid : Str) (pre : Bool) -- Control.handleNatHoleVisitor (user of own session)
  | natDone (sid : Str)                                      -- the handler's deferred delete
  deriving Repr

inductive Out
  | ok
  | repeated                     -- Listen / ListenClient: name taken
  | nameExists                   -- RegisterProxy: "proxy already exists"
  | conn (o : ConnOut)
  | nat (o : NatOut)
  | accepted (c : Option Nat)
  deriving DecidableEq, Repr

def doListen (s : State) (name sk : Str) (allow : List Str) (owner : Str) : State × Out :=
  match aget s.listeners name with
  | some _ => (s, .repeated)
  | none => ({ s with listeners := aput s.listeners name { sk := sk, allow := allow, lid := s.nextId, owner := owner },
                      nextId := s.nextId + 1 }, .ok)

def doNatListen (s : State) (name sk : Str) (allow : List Str) (owner : Str) : State × Out :=
  match aget s.natCfgs name with
  | some _ => (s, .repeated)
  | none => ({ s with natCfgs := aput s.natCfgs name { sk := sk, allow := allow, chan := s.nextId, owner := owner },
                      nextId := s.nextId + 1 }, .ok)

def step (fixed : Bool) (H : Str → Str) (s : State) : Op → State × Out
  | .login rid user =>
    -- service.go RegisterControl: `old := ctlManager.Add(runID, ctl)` (control.go Add: `old.Replaced(ctl)`; the map now
    -- holds the new control), `old.WaitClosed()` (the old control's worker has closed all its proxies), `ctl.Start()`.
    -- The old control's later `Del(runID, old)` finds another pointer and does nothing (Frp/Model/CtlMgr.lean).
    ({ s with ctls := aput s.ctls rid user,
              listeners := s.listeners.filter (fun p => p.2.owner ≠ rid),
              natCfgs := s.natCfgs.filter (fun p => p.2.owner ≠ rid) }, .ok)
  | .logout rid =>
    ({ s with ctls := adel s.ctls rid,
              listeners := s.listeners.filter (fun p => p.2.owner ≠ rid),
              natCfgs := s.natCfgs.filter (fun p => p.2.owner ≠ rid) }, .ok)
  | .listen name sk allow => doListen s name sk allow []
  | .natListen name sk allow => doNatListen s name sk allow []
  | .register rid kind name sk cfgAllow =>
    match aget s.ctls rid with
    | none => (s, .conn (.err .noRun))           -- not reachable through the protocol (NewProxy arrives on the session)
    | some user =>
      -- control.go: `ctl.pxyManager.Exist(name)` — one name space for all proxy types
      if (aget s.listeners name).isSome || (aget s.natCfgs name).isSome then (s, .nameExists)
      else
        let allow := effectiveAllow cfgAllow user
        match kind with
        | .xtcp => doNatListen s name sk allow rid
        | _ => doListen s name sk allow rid
  | .closeListener name => ({ s with listeners := adel s.listeners name }, .ok)
  | .natClose name => ({ s with natCfgs := adel s.natCfgs name }, .ok)
  | .closeProxy rid name =>
    -- control.go CloseProxy: `ctl.proxies[name]` — only a proxy of this very session
    ({ s with listeners := s.listeners.filter (fun p => ¬ (p.1 = name ∧ p.2.owner = rid)),
              natCfgs := s.natCfgs.filter (fun p => ¬ (p.1 = name ∧ p.2.owner = rid)) }, .ok)
  | .lclose name =>
    match aget s.listeners name with
    | none => (s, .ok)
    | some l => ({ s with listeners := aput s.listeners name { l with closed := true } }, .ok)
  | .accept name =>
    match aget s.listeners name with
    | none => (s, .accepted none)
    | some l =>
      match l.queue with
      | [] => (s, .accepted none)
      | q :: rest => ({ s with listeners := aput s.listeners name { l with queue := rest } }, .accepted (some q.conn))
  | .newConn name ts sign user conn =>
    let (ls, o) := newConn H s.listeners name ts sign user conn
    ({ s with listeners := ls }, .conn o)
  | .visitorConn name ts sign rid conn =>
    match resolveUser s.ctls rid with
    | .error e => (s, .conn (.err e))
    | .ok user =>
      let (ls, o) := newConn H s.listeners name ts sign user conn
      ({ s with listeners := ls }, .conn o)
  | .natVisit sid name ts sign user pre =>
    let (ss, o) := natVisit fixed H s.natCfgs s.natSess sid name ts sign user pre
    ({ s with natSess := ss }, .nat o)
  | .natVisitBy sid name ts sign rid pre =>
    match aget s.ctls rid with
    | none => (s, .nat (.err .noRun))            -- not reachable: the message arrives on a live session
    | some user =>
      let (ss, o) := natVisit fixed H s.natCfgs s.natSess sid name ts sign user pre
      ({ s with natSess := ss }, .nat o)
  | .natDone sid => ({ s with natSess := adel s.natSess sid }, .ok)

def run (fixed : Bool) (H : Str → Str) : State → List Op → State × List Out
  | s, [] => (s, [])
  | s, op :: ops =>
    let (s', o) := step fixed H s op
    let (s'', os) := run fixed H s' ops
    (s'', o :: os)

/-- the final state only -/
def runS (fixed : Bool) (H : Str → Str) : State → List Op → State
  | s, [] => s
  | s, op :: ops => runS fixed H (step fixed H s op).1 ops

/-! ## wrapper stacks of an admitted stream (which end applies which layer)

  leg 1 (visitor frpc ↔ frps), key = the proxy's secret key:
    client/visitor/stcp.go `handleConn`:  enc (if visitor.useEncryption) then comp (if visitor.useCompression)
    server/visitor/visitor.go `NewConn`:  enc (if NewVisitorConn.UseEncryption) then comp (if .UseCompression)
  leg 2 (frps ↔ owner frpc), key = the auth token:
    server/proxy/proxy.go `handleUserTCPConnection`: enc (if proxy.useEncryption) then comp (if proxy.useCompression)
    client/proxy/proxy.go `HandleTCPWorkConnection`: enc (if proxy.useEncryption) then comp (if proxy.useCompression)
-/
inductive Layer
  | enc (key : Nat)      -- 0 = secret key, 1 = auth token
  | comp
  deriving DecidableEq, Repr

def stack (key : Nat) (useEnc useComp : Bool) : List Layer :=
  (if useEnc then [Layer.enc key] else []) ++ (if useComp then [Layer.comp] else [])

/-- what the visitor's frpc puts on its end of leg 1 -/
def visitorEnd (vEnc vComp : Bool) : List Layer := stack 0 vEnc vComp
/-- what frps puts on its end of leg 1: the flags travel in NewVisitorConn -/
def serverVisitorEnd (msgEnc msgComp : Bool) : List Layer := stack 0 msgEnc msgComp
/-- what frps puts on its end of leg 2: from the proxy's registered configuration -/
def serverWorkEnd (pEnc pComp : Bool) : List Layer := stack 1 pEnc pComp
/-- what the owner's frpc puts on its end of leg 2 -/
def ownerEnd (pEnc pComp : Bool) : List Layer := stack 1 pEnc pComp

/-- an abstract wire format: applying the layers of one end, outermost last -/
def encode (ls : List Layer) (payload : List (List Layer × Nat)) : List (List Layer × Nat) :=
  payload.map (fun p => (ls ++ p.1, p.2))

/-- the peer end strips exactly its own layer list if it is what was applied; otherwise garbage (`none`) -/
def decode (ls : List Layer) : List (List Layer × Nat) → Option (List (List Layer × Nat))
  | [] => some []
  | p :: t =>
    if p.1.take ls.length = ls then (decode ls t).map (fun r => (p.1.drop ls.length, p.2) :: r) else none

end Visitor
end Frp
