import Frp.Model.Router
import Frp.Model.Host
import Frp.Model.HttpRewrite
/-
  Model of the idle backend-connection pool behind `vhost.HTTPReverseProxy` (C02, with C06/C10):

    pkg/util/vhost/http.go   Rewrite closure: `req.URL.Host = domain.b64(location).b64(routeUser).b64(endpoint)`
                             when a route config is attached, `req.URL.Host = req.Host` when none is;
                             Transport{DialContext: rp.CreateConnection(...)}; `Register` / `UnRegister`
    GOROOT/src/net/http/transport.go  idle connections are kept per `connectMethodKey`: for a direct
                             request (scheme, URL.Host:port), in proxy mode (absolute-form request, the
                             `Proxy` hook returns `req.URL`) the whole URL string (ASSUMED, sampled)

  `UnRegister` only deletes the route: idle connections stay in the Transport under the synthetic
  host, which names (domain, location, routeUser, endpoint) but not the registration that dialled
  them; and a request that matches NO route is given `URL.Host = req.Host`, so a `Host` header that
  spells a synthetic name selects that route's idle connections.

  `fixed = false`: the code as it is.  `fixed = true`: the repaired code (hooks/C02-fix-pool-key.patch):
  the registration id is part of the pool key and a request without route is answered 404 without
  reaching the Transport.
-/
namespace Frp
namespace HttpPool
open Str Router HttpRewrite

/-- the model the driver engine `http` runs: `false` = /repo as it is.  Switch to `true` once the
    repair (hooks/C02-fix-pool-key.patch) is committed to /repo. -/
def poolIsFixed : Bool := true

/-- the Transport's idle-pool key -/
structure Key where
  host  : Str                          -- `URL.Host`
  via   : Option (Str × Option Str)    -- proxy mode: path and query are part of the key
  nonce : Option Nat                   -- repaired code: registration id (`none` in the code as it is)
deriving DecidableEq, Repr

/-- a backend connection; `owner` = payload id of the registration whose CreateConnFn dialled it -/
structure Conn where
  id    : Nat
  owner : Nat
deriving DecidableEq, Repr

structure Cfg where
  rc        : RouteCfg
  reachable : Bool                     -- CreateConnFn returns a connection (false: returns an error)
deriving DecidableEq, Repr

structure St where
  R    : Routers
  cfgs : List (Nat × Cfg)              -- payload id ↦ the RouteConfig stored with the route
  idle : List (Key × Conn)             -- the Transport's idle connections, most recent first

def St.init : St := { R := Router.empty, cfgs := [], idle := [] }

def St.cfgOf (s : St) (id : Nat) : Option Cfg := s.cfgs.lookup id

def canon (h : Str) : Str := (Host.canonicalHost h).getD []

inductive Op
  | reg (id : Nat) (c : Cfg)
  | unreg (domain location user : Str)
  /-- one proxied request.  `reuse` = the idle connection the Transport picked (none = it dialled;
      naming a connection that is not idle under the request's key also means it dialled);
      `newId` = id of the connection a dial creates; `keep` = the exchange leaves the backend
      connection reusable -/
  | serve (host path user : Str) (via : Option (Str × Option Str)) (reuse : Option Nat) (newId : Nat) (keep : Bool)
deriving DecidableEq, Repr

inductive Out
  | ok | conflict
  | answered (owner : Nat) (conn : Nat) (reused : Bool)
  | notFound
deriving DecidableEq, Repr

/-- the route `injectRequestInfoToCtx` attaches and `CreateConnection` dials -/
def routeOf (s : St) (host path user : Str) : Option Route := getVhost s.R (canon host) path user

/-- `URL.Host` after the Rewrite closure (+ the Transport's proxy-mode component) -/
def keyOf (fixed : Bool) (s : St) (r : Option Route) (host : Str) (via : Option (Str × Option Str)) : Key :=
  match r with
  | some r =>
    match s.cfgOf r.payload with
    | some c => { host := poolKey c.rc.domain c.rc.location c.rc.routeUser [], via := via,
                  nonce := if fixed then some r.payload else none }
    | none => { host := host, via := via, nonce := none }      -- unreachable: every route has a cfg
  | none => { host := host, via := via, nonce := none }

def takeIdle (idle : List (Key × Conn)) (k : Key) (c : Nat) : Option Conn :=
  (idle.find? (fun e => e.1 = k ∧ e.2.id = c)).map (·.2)

def dropIdle (idle : List (Key × Conn)) (k : Key) (c : Nat) : List (Key × Conn) :=
  idle.filter (fun e => ¬(e.1 = k ∧ e.2.id = c))

def step (fixed : Bool) (s : St) : Op → St × Out
  | .reg id c =>
    match add s.R c.rc.domain c.rc.location c.rc.routeUser id with
    | (R', .ok) => ({ s with R := R', cfgs := (id, c) :: s.cfgs }, .ok)
    | (_, .conflict) => (s, .conflict)
  | .unreg d l u => ({ s with R := Router.del s.R d l u }, .ok)       -- the pool is not touched
  | .serve host path user via reuse newId keep =>
    let r := routeOf s host path user
    if fixed ∧ r = none then (s, .notFound) else
    let k := keyOf fixed s r host via
    match reuse.bind (takeIdle s.idle k) with
    | some c =>
      let idle' := dropIdle s.idle k c.id
      ({ s with idle := if keep then (k, c) :: idle' else idle' }, .answered c.owner c.id true)
    | none =>
      -- DialContext → rp.CreateConnection(routeInfo): looks the route up again
      match r with
      | none => (s, .notFound)
      | some rt =>
        match s.cfgOf rt.payload with
        | some cfg =>
          if cfg.reachable then
            let c : Conn := { id := newId, owner := rt.payload }
            ({ s with idle := if keep then (k, c) :: s.idle else s.idle }, .answered rt.payload newId false)
          else (s, .notFound)
        | none => (s, .notFound)

def run (fixed : Bool) : St → List Op → St × List Out
  | s, [] => (s, [])
  | s, o :: os =>
    let (s', out) := step fixed s o
    let (s'', outs) := run fixed s' os
    (s'', out :: outs)

end HttpPool
end Frp
