import Frp.Model.Str
/-
  Server-side validation of a reconstructed proxy configuration.

  Go sources mirrored here:
    pkg/config/v1/validation/common.go   ValidatePort
    pkg/config/v1/validation/proxy.go    validateDomainConfigForServer,
                                         validateHTTP/HTTPS/TCPMuxProxyConfigForServer
-/
namespace Frp
namespace Validate
open Str

/-- `ValidatePort`: `0 <= port && port <= 65535` -/
def validatePort (port : Int) : Bool := 0 ≤ port && port ≤ 65535

/-- `strings.Contains s sub` (bytewise substring test) -/
def contains : Str → Str → Bool
  | [], sub => sub.isEmpty
  | c :: cs, sub => sub.isPrefixOf (c :: cs) || contains cs sub

inductive DomErr
  | belongs        -- custom domain [..] should not belong to subdomain host [..]
  | noSubHost      -- subdomain is not supported because this feature is not enabled in server
  | badChars       -- '.' and '*' are not supported in subdomain
  deriving DecidableEq, Repr

/-- the test applied to one custom domain, exactly as written in the Go code:
    `s.SubDomainHost != "" && len(Split(host,".")) < len(Split(domain,".")) && Contains(domain, host)`
    — bytewise, i.e. case-sensitive, and a substring (not a suffix) test. -/
def domainBelongs (host domain : Str) : Bool :=
  host ≠ [] && decide ((splitOn dot host).length < (splitOn dot domain).length) && contains domain host

/-- `validateDomainConfigForServer` (none = nil error) -/
def validateDomainForServer (host : Str) (customDomains : List Str) (subDomain : Str) : Option DomErr :=
  if customDomains.any (domainBelongs host) then some .belongs
  else if subDomain ≠ [] then
    if host = [] then some .noSubHost
    else if subDomain.contains dot || subDomain.contains star then some .badChars
    else none
  else none

/-- the repaired test: both sides lower-cased before comparing (the minimal fix proposed for
    finding C18-domain-case; switch the engine/theorems to this definition after a fix commit) -/
def domainBelongsFixed (host domain : Str) : Bool :=
  domainBelongs (toLower host) (toLower domain)

def validateDomainForServerFixed (host : Str) (customDomains : List Str) (subDomain : Str) : Option DomErr :=
  if customDomains.any (domainBelongsFixed host) then some .belongs
  else if subDomain ≠ [] then
    if host = [] then some .noSubHost
    else if subDomain.contains dot || subDomain.contains star then some .badChars
    else none
  else none

/-- which of the two the tree currently implements; the engine and `C18.domain_*` follow it.
    Set to `true` after the repair (lower-casing both sides) has been committed to /repo. -/
def domainCheckIsFixed : Bool := true

def validateDomainCurrent (host : Str) (customDomains : List Str) (subDomain : Str) : Option DomErr :=
  if domainCheckIsFixed then validateDomainForServerFixed host customDomains subDomain
  else validateDomainForServer host customDomains subDomain

/-- what routing does with a name: the router lower-cases route domains and request hosts
    (pkg/util/vhost/router.go, see Frp/Model/Router.lean), and a subdomain proxy is routed as
    `subdomain + "." + subDomainHost`.  A custom domain *collides with the subdomain space* when,
    case-insensitively, it is `label(s) + "." + host`. -/
def underSubDomainHost (host domain : Str) : Bool :=
  host ≠ [] && (dot :: toLower host).isSuffixOf (toLower domain)

end Validate
end Frp
