import Frp.Model.Str
/-
  Server-side validation of a reconstructed proxy configuration.

  Go sources mirrored here:
    pkg/config/v1/validation/common.go   ValidatePort
    pkg/config/v1/validation/proxy.go    validateDomainConfigForServer,
                                         validateHTTP/HTTPS/TCPMuxProxyConfigForServer
-/
namespace Frp
namespace Validate
open Str

/-- `ValidatePort`: `0 <= port && port <= 65535` -/
def validatePort (port : Int) : Bool := 0 ≤ port && port ≤ 65535

/-- `strings.Contains s sub` (bytewise substring test) -/
def contains : Str → Str → Bool
  | [], sub => sub.isEmpty
  | c :: cs, sub => sub.isPrefixOf (c :: cs) || contains cs sub

inductive DomErr
  | belongs        -- custom domain [..] should not belong to subdomain host [..]
  | noSubHost      -- subdomain is not supported because this feature is not enabled in server
  | badChars       -- '.' and '*' are not supported in subdomain
  deriving DecidableEq, Repr

/-- the test applied to one custom domain, exactly as written in the Go code:
    `s.SubDomainHost != "" && len(Split(host,".")) < len(Split(domain,".")) && Contains(domain, host)`
    — bytewise, i.e. case-sensitive, and a substring (not a suffix) test. -/
def domainBelongs (host domain : Str) : Bool :=
  host ≠ [] && decide ((splitOn dot host).length < (splitOn dot domain).length) && contains domain host

/-- `validateDomainConfigForServer` (none = nil error) -/
def validateDomainForServer (host : Str) (customDomains : List Str) (subDomain : Str) : Option DomErr :=
  if customDomains.any (domainBelongs host) then some .belongs
  else if subDomain ≠ [] then
    if host = [] then some .noSubHost
    else if subDomain.contains dot || subDomain.contains star then some .badChars
    else none
  else none

/-- the repaired test: both sides lower-cased before comparing (the minimal fix proposed for
    finding C18-domain-case; switch the engine/theorems to this definition after a fix commit) -/
def domainBelongsFixed (host domain : Str) : Bool :=
  domainBelongs (toLower host) (toLower domain)

def validateDomainForServerFixed (host : Str) (customDomains : List Str) (subDomain : Str) : Option DomErr :=
  if customDomains.any (domainBelongsFixed host) then some .belongs
  else if subDomain ≠ [] then
    if host = [] then some .noSubHost
    else if subDomain.contains dot || subDomain.contains star then some .badChars
    else none
  else none

/-- which of the two the tree currently implements; the engine and `C18.domain_*` follow it.
    Set to `true` after the repair (lower-casing both sides) has been committed to /repo. -/
def domainCheckIsFixed : Bool := true

def validateDomainCurrent (host : Str) (customDomains : List Str) (subDomain : Str) : Option DomErr :=
  if domainCheckIsFixed then validateDomainForServerFixed host customDomains subDomain
  else validateDomainForServer host customDomains subDomain

/-- what routing does with a name: the router lower-cases route domains and request hosts
    (pkg/util/vhost/router.go, see Frp/Model/Router.lean), and a subdomain proxy is routed as
    `subdomain + "." + subDomainHost`.  A custom domain *collides with the subdomain space* when,
    case-insensitively, it is `label(s) + "." + host`. -/
def underSubDomainHost (host domain : Str) : Bool :=
  host ≠ [] && (dot :: toLower host).isSuffixOf (toLower domain)

/-! ## client side: ValidateProxyConfigurerForClient, ValidateVisitorConfigurer; ValidateServerConfig

  Go sources mirrored here:
    pkg/config/v1/validation/proxy.go    validateProxyBaseConfigForClient, validateDomainConfigForClient,
                                         ValidateProxyConfigurerForClient and the eight validate<T>ProxyConfigForClient
    pkg/config/v1/validation/visitor.go  ValidateVisitorConfigurer, validateVisitorBaseConfig, validateXTCPVisitorConfig
    pkg/config/v1/validation/server.go   ValidateServerConfig
    pkg/config/v1/validation/common.go   validateWebServerConfig, validateLogConfig, ValidatePort
  Annotation keys (k8s IsQualifiedName) are outside the model: the driver skips lines that carry an
  annotation key outside the plain fragment.  The plugin block is modelled by its type string and the three
  options `ValidateClientPluginOptions` reads (pkg/config/v1/validation/plugin.go). -/

inductive PKind
  | tcp | udp | tcpmux | http | https | stcp | xtcp | sudp
  deriving DecidableEq, Repr

/-- the fields the client-side proxy validators read -/
structure ProxyView where
  name : Str
  proxyProtocolVersion : Str
  bandwidthLimitMode : Str
  pluginType : Str
  localPort : Int
  healthCheckType : Str
  healthCheckPath : Str
  subDomain : Str
  customDomains : List Str
  multiplexer : Str
  /-- `Plugin.ClientPluginOptions`: LocalAddr / LocalPath / UnixPath of the options struct selected by
      `pluginType` (empty when that struct has no such field) -/
  pluginLocalAddr : Str := []
  pluginLocalPath : Str := []
  pluginUnixPath : Str := []

inductive ClientErr
  | name | ppv | bwmode | port | hctype | hcpath | domains | mux | plugin
  deriving DecidableEq, Repr

def sV1 : Str := [118, 49]
def sV2 : Str := [118, 50]
def sClient : Str := [99, 108, 105, 101, 110, 116]
def sServer : Str := [115, 101, 114, 118, 101, 114]
def sTcp : Str := [116, 99, 112]
def sHttp : Str := [104, 116, 116, 112]
def sHttpConnect : Str := [104, 116, 116, 112, 99, 111, 110, 110, 101, 99, 116]
def sKcp : Str := [107, 99, 112]
def sQuic : Str := [113, 117, 105, 99]
def sHttp2Https : Str := [104, 116, 116, 112, 50, 104, 116, 116, 112, 115]
def sHttps2Http : Str := [104, 116, 116, 112, 115, 50, 104, 116, 116, 112]
def sHttps2Https : Str := [104, 116, 116, 112, 115, 50, 104, 116, 116, 112, 115]
def sStaticFile : Str := [115, 116, 97, 116, 105, 99, 95, 102, 105, 108, 101]
def sUnixDomainSocket : Str := [117, 110, 105, 120, 95, 100, 111, 109, 97, 105, 110, 95, 115, 111, 99, 107, 101, 116]
def sTls2Raw : Str := [116, 108, 115, 50, 114, 97, 119]

/-- `ValidateClientPluginOptions`: the option that must not be empty for the options struct of plugin
    type `t` (`none`: http_proxy, http2http, socks5, virtual_net, anything else — nothing is checked) -/
def pluginRequired (c : ProxyView) : Option Str :=
  if c.pluginType = sHttp2Https || c.pluginType = sHttps2Http || c.pluginType = sHttps2Https || c.pluginType = sTls2Raw
    then some c.pluginLocalAddr
  else if c.pluginType = sStaticFile then some c.pluginLocalPath
  else if c.pluginType = sUnixDomainSocket then some c.pluginUnixPath
  else none

/-! the blocks of `validateProxyBaseConfigForClient`, each reading only its own fields -/

/-- `if c.Name == ""` -/
def validateNameBlock (c : ProxyView) : Option ClientErr := if c.name = [] then some .name else none

/-- the two `slices.Contains` checks on `c.Transport` -/
def validateTransportBlock (c : ProxyView) : Option ClientErr :=
  if !([[], sV1, sV2].contains c.proxyProtocolVersion) then some .ppv
  else if !([sClient, sServer].contains c.bandwidthLimitMode) then some .bwmode
  else none

/-- `if c.Plugin.Type == "" { ValidatePort(c.LocalPort) }` -/
def validateLocalBlock (c : ProxyView) : Option ClientErr :=
  if c.pluginType = [] && !validatePort c.localPort then some .port else none

/-- the health check: type ∈ {"", tcp, http}; http needs a path -/
def validateHealthBlock (c : ProxyView) : Option ClientErr :=
  if !([[], sTcp, sHttp].contains c.healthCheckType) then some .hctype
  else if c.healthCheckType = sHttp && c.healthCheckPath = [] then some .hcpath
  else none

/-- `if c.Plugin.Type != "" { ValidateClientPluginOptions(c.Plugin.ClientPluginOptions) }` -/
def validatePluginBlock (c : ProxyView) : Option ClientErr :=
  if c.pluginType ≠ [] then
    match pluginRequired c with
    | some [] => some .plugin
    | _ => none
  else none

/-- `validateProxyBaseConfigForClient` (annotations valid), statement by statement -/
def validateProxyBaseForClient (c : ProxyView) : Option ClientErr :=
  if c.name = [] then some .name
  else if !([[], sV1, sV2].contains c.proxyProtocolVersion) then some .ppv
  else if !([sClient, sServer].contains c.bandwidthLimitMode) then some .bwmode
  else if c.pluginType = [] && !validatePort c.localPort then some .port
  else if !([[], sTcp, sHttp].contains c.healthCheckType) then some .hctype
  else if c.healthCheckType = sHttp && c.healthCheckPath = [] then some .hcpath
  else if c.pluginType ≠ [] then
    match pluginRequired c with
    | some [] => some .plugin
    | _ => none
  else none

/-- the first error of a sequence of checks (`if err := …; err != nil { return err }` chains) -/
def firstErr : List (Option ClientErr) → Option ClientErr
  | [] => none
  | some e :: _ => some e
  | none :: rest => firstErr rest

/-- `validateDomainConfigForClient` -/
def validateDomainForClient (c : ProxyView) : Option ClientErr :=
  if c.subDomain = [] && c.customDomains.length = 0 then some .domains else none

/-- the type-specific validator called at the end of `ValidateProxyConfigurerForClient` -/
def validateTypeBlock (k : PKind) (c : ProxyView) : Option ClientErr :=
  match k with
  | .tcpmux =>
    match validateDomainForClient c with
    | some e => some e
    | none => if !([sHttpConnect].contains c.multiplexer) then some .mux else none
  | .http | .https => validateDomainForClient c
  | _ => none

/-- `ValidateProxyConfigurerForClient` -/
def validateProxyForClient (k : PKind) (c : ProxyView) : Option ClientErr :=
  match validateProxyBaseForClient c with
  | some e => some e
  | none => validateTypeBlock k c

inductive VisitorErr
  | name | serverName | bindPort | protocol
  deriving DecidableEq, Repr

/-- `ValidateVisitorConfigurer` (`isXTCP` selects validateXTCPVisitorConfig) -/
def validateVisitor (isXTCP : Bool) (name serverName : Str) (bindPort : Int) (protocol : Str) : Option VisitorErr :=
  if name = [] then some .name
  else if serverName = [] then some .serverName
  else if bindPort = 0 then some .bindPort
  else if isXTCP && !([sKcp, sQuic].contains protocol) then some .protocol
  else none

/-- the fields `ValidateServerConfig` reads (http plugins left out) -/
structure ServerView where
  authMethod : Str
  scopes : List Str
  logLevel : Str
  webTLS : Option (Str × Str)          -- WebServer.TLS: certFile, keyFile
  webPort : Int
  bindPort : Int
  kcpBindPort : Int
  quicBindPort : Int
  vhostHTTPPort : Int
  vhostHTTPSPort : Int
  tcpmuxPort : Int

inductive ServerErr
  | auth | scopes | log | cert | key
  | port (field : Nat)      -- 0 webServer.port, 1 bindPort, 2 kcpBindPort, 3 quicBindPort, 4 vhostHTTPPort, 5 vhostHTTPSPort, 6 tcpMuxHTTPConnectPort
  | heartbeat | protocol    -- ValidateClientCommonConfig only
  deriving DecidableEq, Repr

def authMethods : List Str := [[116, 111, 107, 101, 110], [111, 105, 100, 99]]                       -- token, oidc
def authScopes : List Str := [[72, 101, 97, 114, 116, 66, 101, 97, 116, 115], [78, 101, 119, 87, 111, 114, 107, 67, 111, 110, 110, 115]]
def logLevels : List Str := [[116, 114, 97, 99, 101], [100, 101, 98, 117, 103], [105, 110, 102, 111], [119, 97, 114, 110], [101, 114, 114, 111, 114]]

/-- `validateWebServerConfig`: the first failing check only -/
def validateWebServer (tls : Option (Str × Str)) (port : Int) : List ServerErr :=
  match tls with
  | some (cert, key) =>
    if cert = [] then [.cert] else if key = [] then [.key] else (if validatePort port then [] else [.port 0])
  | none => if validatePort port then [] else [.port 0]

def portErr (p : Int) (i : Nat) : List ServerErr := if validatePort p then [] else [.port i]

/-- `ValidateServerConfig`: every failing check, in the order they are appended -/
def validateServer (c : ServerView) : List ServerErr :=
  (if authMethods.contains c.authMethod then [] else [.auth]) ++
  (if c.scopes.all (authScopes.contains ·) then [] else [.scopes]) ++
  (if logLevels.contains c.logLevel then [] else [.log]) ++
  validateWebServer c.webTLS c.webPort ++
  portErr c.bindPort 1 ++ portErr c.kcpBindPort 2 ++ portErr c.quicBindPort 3 ++
  portErr c.vhostHTTPPort 4 ++ portErr c.vhostHTTPSPort 5 ++ portErr c.tcpmuxPort 6

/-! ## the common validators as independent blocks

  `validateWebServerConfig` (pkg/config/v1/validation/common.go) is used by `ValidateServerConfig` (dashboard of
  frps) and by `ValidateClientCommonConfig` (admin API of frpc).  It has two blocks: the certificate pair of
  `webServer.tls` when that section is present, and `ValidatePort(webServer.port)` — the second is judged
  whatever the first contains.  Each block below is a function of its own fields only. -/

/-- the `if c.TLS != nil { … }` block of `validateWebServerConfig` -/
def webTLSBlock (tls : Option (Str × Str)) : List ServerErr :=
  match tls with
  | some (cert, key) => if cert = [] then [.cert] else if key = [] then [.key] else []
  | none => []

/-- `return ValidatePort(c.Port, "webServer.port")` -/
def webPortBlock (port : Int) : List ServerErr := portErr port 0

def authBlock (m : Str) : List ServerErr := if authMethods.contains m then [] else [.auth]
def scopesBlock (s : List Str) : List ServerErr := if s.all (authScopes.contains ·) then [] else [.scopes]
def logBlock (l : Str) : List ServerErr := if logLevels.contains l then [] else [.log]

/-- the fields `ValidateClientCommonConfig` reads for its errors (feature gates and include directories left
    out: generated definitions have no virtual network address and no includes; the three
    `transport.tls.*File is invalid when transport.tls.enable is false` findings are warnings, not errors) -/
structure ClientCommonView where
  authMethod : Str
  scopes : List Str
  logLevel : Str
  webTLS : Option (Str × Str)
  webPort : Int
  hbTimeout : Int
  hbInterval : Int
  protocol : Str

def sWebsocket : Str := [119, 101, 98, 115, 111, 99, 107, 101, 116]
def sWss : Str := [119, 115, 115]
/-- `SupportedTransportProtocols` -/
def transportProtocols : List Str := [sTcp, sKcp, sQuic, sWebsocket, sWss]

/-- `if c.Transport.HeartbeatTimeout > 0 && c.Transport.HeartbeatInterval > 0 { if timeout < interval … }` -/
def heartbeatBlock (timeout interval : Int) : List ServerErr :=
  if 0 < timeout && 0 < interval && decide (timeout < interval) then [.heartbeat] else []

def protocolBlock (p : Str) : List ServerErr := if transportProtocols.contains p then [] else [.protocol]

/-- `ValidateClientCommonConfig`: every failing check, in the order they are appended -/
def validateClientCommon (c : ClientCommonView) : List ServerErr :=
  (if authMethods.contains c.authMethod then [] else [.auth]) ++
  (if c.scopes.all (authScopes.contains ·) then [] else [.scopes]) ++
  (if logLevels.contains c.logLevel then [] else [.log]) ++
  validateWebServer c.webTLS c.webPort ++
  (if 0 < c.hbTimeout && 0 < c.hbInterval && decide (c.hbTimeout < c.hbInterval) then [.heartbeat] else []) ++
  (if transportProtocols.contains c.protocol then [] else [.protocol])

end Validate
end Frp
