import Frp.Model.Str
/-
  RFC 4648 base64, standard alphabet, with padding — Go's `base64.StdEncoding`
  (`EncodeToString` / `DecodeString`), as used by
    pkg/proto/udp/udp.go  NewUDPPacket / GetContent,
    HTTP basic auth (pkg/util/http), the reverse-proxy pool key.

  Bytes are `Nat`s (< 256), strings are `Frp.Str = List Nat`.

  API:  `Base64.encode : Str → Str`, `Base64.decode : Str → Option Str`
        (`none` = `CorruptInputError`), `Base64.inAlphabet`, `Base64.pad`.
  Lemmas are in `Frp/Lemmas/Base64.lean`.
-/
namespace Frp
namespace Base64

/-- '=' -/
def pad : Nat := 61

/-- sextet → character of "ABCDEFGHIJKLMNOPQRSTUVWXYZabcdefghijklmnopqrstuvwxyz0123456789+/" -/
def ch (n : Nat) : Nat :=
  if n < 26 then 65 + n
  else if n < 52 then 97 + (n - 26)
  else if n < 62 then 48 + (n - 52)
  else if n = 62 then 43
  else 47

/-- character → sextet (Go: `decodeMap[in]`, 0xff ↦ `none`) -/
def val (c : Nat) : Option Nat :=
  if 65 ≤ c ∧ c ≤ 90 then some (c - 65)
  else if 97 ≤ c ∧ c ≤ 122 then some (c - 97 + 26)
  else if 48 ≤ c ∧ c ≤ 57 then some (c - 48 + 52)
  else if c = 43 then some 62
  else if c = 47 then some 63
  else none

def inAlphabet (c : Nat) : Bool := (val c).isSome

/-- `Encoding.Encode`: 3 bytes → 4 characters, remainder of 1 or 2 bytes padded with '=' -/
def encode : Str → Str
  | [] => []
  | [a] => [ch (a / 4), ch ((a % 4) * 16), pad, pad]
  | [a, b] => [ch (a / 4), ch ((a % 4) * 16 + b / 16), ch ((b % 16) * 4), pad]
  | a :: b :: c :: rest =>
    ch (a / 4) :: ch ((a % 4) * 16 + b / 16) :: ch ((b % 16) * 4 + c / 64) :: ch (c % 64) :: encode rest

/-- the three bytes of a quantum of four sextets (`val<<18|…`, then `>>16, >>8, >>0` as bytes) -/
def b0 (x y : Nat) : Nat := (x * 4 + y / 16) % 256
def b1 (y z : Nat) : Nat := ((y % 16) * 16 + z / 4) % 256
def b2 (z w : Nat) : Nat := ((z % 4) * 64 + w) % 256

/-- `decodeQuantum` over an input from which CR/LF have been removed.
    Non-strict mode (as `StdEncoding`): trailing bits of a padded quantum are not checked.
    Padding is mandatory; "x===", "=…", a lone trailing character, and anything after the padding
    are `CorruptInputError`. -/
def decodeQ : Str → Option Str
  | [] => some []
  | a :: b :: c :: d :: rest =>
    match val a, val b with
    | some x, some y =>
      match val c, val d with
      | some z, some w => (decodeQ rest).map (fun r => b0 x y :: b1 y z :: b2 z w :: r)
      | some z, none => if d = pad ∧ rest = [] then some [b0 x y, b1 y z] else none
      | none, _ => if c = pad ∧ d = pad ∧ rest = [] then some [b0 x y] else none
    | _, _ => none
  | _ => none

/-- Go's decoder skips '\r' and '\n' wherever they occur -/
def isNL (c : Nat) : Bool := c = 10 || c = 13

/-- `Encoding.DecodeString` (error ↦ `none`) -/
def decode (s : Str) : Option Str := decodeQ (s.filter (fun c => !isNL c))

end Base64
end Frp
