import Frp.Model.Str
/-
  C01 — closing a QUIC stream (the work connection when `transport.protocol = quic`).

    pkg/util/net/conn.go  (*wrapQuicStream).Close   `conn.Stream.CancelRead(0); return conn.Stream.Close()`
    quic-go v0.48 send_stream.go / receive_stream.go
      Close()        closes the SEND side: a FIN follows the last written byte; everything written is still delivered
                     (retransmitted, subject to the peer's flow control) however slowly the peer reads
      CancelWrite()  RESET_STREAM: nothing more is (re)transmitted and the peer DISCARDS what it has buffered but not
                     yet handed to its application; its Read fails. No effect once the peer has consumed everything.
      CancelRead()   STOP_SENDING for the other direction; does not touch what this side wrote

  `k` below is how many bytes the PEER'S APPLICATION has consumed at the moment a call runs — any value up to what was
  written, since the peer (frps copying to a slow user, a paused reader) may be arbitrarily slow.
-/
namespace Frp
namespace QuicStream

inductive Call
  | cancelRead
  | close
  | cancelWrite
  deriving DecidableEq, Repr

structure Stream where
  written : List Nat                -- bytes accepted by Write so far
  fin : Bool := false               -- Close(): FIN after `written`
  resetAt : Option Nat := none      -- CancelWrite took effect when the peer had consumed this many bytes
  readCancelled : Bool := false
  deriving DecidableEq, Repr

def Stream.call (s : Stream) (k : Nat) : Call → Stream
  | .cancelRead => { s with readCancelled := true }
  | .close => if s.resetAt.isSome then s else { s with fin := true }
  | .cancelWrite =>
    if s.resetAt.isSome then s
    else if s.fin && s.written.length ≤ k then s          -- the stream has completed: nothing to reset
    else { s with resetAt := some (min k s.written.length) }

/-- run a program; `ks` gives, call by call, how far the peer's application has read when the call runs -/
def runCalls : Stream → List Call → List Nat → Stream
  | s, [], _ => s
  | s, c :: cs, [] => runCalls (s.call 0 c) cs []
  | s, c :: cs, k :: ks => runCalls (s.call k c) cs ks

/-- what the peer's application ends up with, and whether it reached a clean end-of-stream -/
def Stream.peerGets (s : Stream) : List Nat × Bool :=
  match s.resetAt with
  | some k => (s.written.take k, false)
  | none => (s.written, s.fin)

/-- `(*wrapQuicStream).Close` -/
def wrapperClose : List Call := [.cancelRead, .close]

/-- a method path as the generated fact spells it -/
def Call.ofSrc (path : String) : Option Call :=
  if path = "Stream.CancelRead" then some .cancelRead
  else if path = "Stream.Close" then some .close
  else if path = "Stream.CancelWrite" then some .cancelWrite else none

def Call.name : Call → String
  | .cancelRead => "CancelRead"
  | .close => "Close"
  | .cancelWrite => "CancelWrite"

end QuicStream
end Frp
