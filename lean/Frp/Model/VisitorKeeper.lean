import Frp.Model.VisitorMgr
/-
  The keeper goroutine of the client visitor manager — client/visitor/visitor_manager.go
  `keepVisitorsRunning`, and how `UpdateAll` starts it.

  ```
  UpdateAll(cfgs):  if len(cfgs) > 0 { vm.keepVisitorsRunningOnce.Do(func() { go vm.keepVisitorsRunning() }) }  …
  keepVisitorsRunning:
      ticker := time.NewTicker(vm.checkInterval)
      for { select {
            case <-vm.stopCh: return
            case <-ticker.C:
                vm.mu.Lock()
                select { case <-vm.stopCh: vm.mu.Unlock(); return; default: }
                for _, cfg := range vm.cfgs { if _, exist := vm.visitors[name]; !exist { _ = vm.startVisitor(cfg) } }
                vm.mu.Unlock() } }
  ```

  Frp/Model/VisitorMgr.lean has the two maps and one iteration of the loop body (`tryStart`); it takes
  for granted that iterations keep coming.  Here the goroutine itself is state: not started yet
  (`idle`), inside its loop (`alive`), returned (`exited`); `sync.Once` is the flag `once`; a firing of
  the ticker is the explicit event `tick order` (`order` = Go's map order over vm.cfgs for that pass)
  and does something only while the goroutine is alive.

  `exitOnEmpty = true` is NOT the code: it is the variant whose loop also returns when a tick finds no
  visitor configured.  It exists only to show that the theorems of Props/C19Keeper discriminate
  (`C19.keeper_exit_on_empty_witness`).  That the code's loop has no such exit is the regenerated
  fact `Gen.C19Facts.keeperExits` (`C19.keeper_source_shape`).
-/
namespace Frp
namespace VisitorKeeper
open VisitorMgr

inductive K
  | idle | alive | exited
  deriving DecidableEq, Repr

structure KM where
  m : Mgr := {}
  once : Bool := false      -- keepVisitorsRunningOnce has fired
  k : K := .idle
  deriving Repr

def init : KM := {}

inductive Ev
  | upd (cfgs : List VCfg)     -- UpdateAll
  | tick (order : List Nat)    -- the keeper's ticker fires
  | squat (p : Nat)            -- another program binds the address
  | free (p : Nat)             -- … lets go of it
  | close                      -- Close()
  deriving Repr

/-- the ticker fires -/
def tick (exitOnEmpty : Bool) (s : KM) (order : List Nat) : KM :=
  match s.k with
  | .alive =>
    if s.m.closed then { s with k := .exited }
    else if exitOnEmpty && s.m.cfgs.isEmpty then { s with k := .exited }
    else { s with m := activePass s.m order }
  | _ => s

/-- `UpdateAll`: the Once, then the reload.  A goroutine started on a closed manager finds stopCh
    closed at its first select and returns. -/
def upd (s : KM) (cfgs : List VCfg) : KM :=
  let s1 : KM := if !cfgs.isEmpty && !s.once then
      { s with once := true, k := if s.m.closed then .exited else .alive } else s
  { s1 with m := activeUpdateAll s1.m cfgs }

def stepG (exitOnEmpty : Bool) (s : KM) : Ev → KM
  | .upd cfgs => upd s cfgs
  | .tick order => tick exitOnEmpty s order
  | .squat p => { s with m := VisitorMgr.step s.m (.squat p) }
  | .free p => { s with m := VisitorMgr.step s.m (.free p) }
  | .close => { s with m := VisitorMgr.close s.m, k := match s.k with | .alive => .exited | k => k }

/-- the code as it is -/
def step (s : KM) (e : Ev) : KM := stepG false s e

def runG (x : Bool) (s : KM) (es : List Ev) : KM := es.foldl (stepG x) s
def run (s : KM) (es : List Ev) : KM := runG false s es

end VisitorKeeper
end Frp
