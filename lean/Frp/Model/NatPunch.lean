import Frp.Model.NatHole
/-
  The client side of hole punching: pkg/nathole/nathole.go `MakeHole`, `waitDetectMessage`,
  `sendSidMessage`, `sendSidMessageToRangePorts` and the sid-message codec of utils.go
  (`EncodeMessage` / `DecodeMessageInto`), as far as the C20 clause "two honest peers on an
  unfiltered network that follow the instructions do find each other" needs it.

  Each party runs `MakeHole(listenConn, resp, key)` on the `NatHoleResp` it received:
    1. (sender only) sleep SendDelayMs;
    2. send a NatHoleSid{Sid, Response:false} — with the instructed TTL — from every listening
       socket to every address of `detectAddrs`, then to every port of `CandidatePorts` on every
       candidate IP (`rangeAddrs`), then (in the background) to SendRandomPorts random ports;
    3. `waitDetectMessage` on every listening socket: loop over incoming datagrams (`waitOne`).
  Abstracted: time (delays, the read deadline is "the inbox ran dry"), TTL (on an unfiltered
  network every datagram arrives), the random-port probing (it can only add meetings), and the
  AES-CFB / JSON codec (a datagram either decodes with our key to a NatHoleSid or it does not).
-/
namespace Frp
namespace NatPunch
open NatBeh NatHole

/-- a datagram as `waitDetectMessage` sees it after `DecodeMessageInto(buf, key, &m)` -/
inductive Dgram
  | junk                                   -- does not decode with our key: garbage, truncated, other key
  | sid (sid : Str) (response : Bool)      -- a NatHoleSid that decodes with our key
  deriving DecidableEq, Repr

/-- the sid-message codec: `EncodeMessage(&NatHoleSid{..}, key)` then `DecodeMessageInto(.., key', ..)`.
    `intact` = the datagram arrives as it was sent (UDP does not fragment these ~60 byte messages). -/
def recode (sameKey intact : Bool) (sid : Str) (response : Bool) : Dgram :=
  if sameKey && intact then .sid sid response else .junk

/-- what one iteration of the `waitDetectMessage` loop does with a datagram -/
inductive WaitOut
  | skip                                   -- `continue`
  | reply                                  -- write the message back with Response = true, return raddr
  | done                                   -- return raddr
  deriving DecidableEq, Repr

/-- `waitDetectMessage`, loop body.  Note `role == DetectRoleSender`: every other role string
    (receiver, "") takes the receiver branch.  The decode target `var m msg.NatHoleSid` is declared
    INSIDE the `for`, so an iteration sees nothing of the previous ones: the body is a function of the
    current datagram only (C20.waitLoop_eq_spec; driven datagram by datagram by the punch engine's
    `pwdm` op). -/
def waitOne (role : Role) (sid : Str) : Dgram → WaitOut
  | .junk => .skip                          -- "decode sid message error" → continue
  | .sid s response =>
    if s ≠ sid then .skip                   -- "get sid message with wrong sid" → continue
    else if !response then
      (if role = .sender then .skip         -- "only wait for response messages if we are a sender"
       else .reply)
    else .done

/-- `waitDetectMessage` over the datagrams that arrive before the read deadline, in order:
    `some (raddr, replied)` for the first one that is not skipped, `none` = deadline error -/
def waitLoop (role : Role) (sid : Str) : List (Str × Dgram) → Option (Str × Bool)
  | [] => none
  | (src, d) :: rest =>
    match waitOne role sid d with
    | .skip => waitLoop role sid rest
    | .reply => some (src, true)
    | .done => some (src, false)

/-! ### what MakeHole sends -/

def joinHostPort (ip : Str) (port : Int) : Str :=
  if ip.contains colon then [lbr] ++ ip ++ [rbr, colon] ++ fmtInt port else ip ++ [colon] ++ fmtInt port

/-- the addresses every listening socket probes first -/
def detectAddrs (r : Resp) : List Str :=
  compact (if r.role = .sender then r.assistedAddrs ++ r.candidateAddrs
           else if r.candidatePorts.isEmpty then r.candidateAddrs else [])

/-- how MakeHole computes `detectAddrs` from the instruction, as a term: REGENERATED from nathole.go by
    translate/gen_natclientfacts.go (Frp/Gen/NatClientFacts.lean, symbolic execution of the statements before the send
    loop).  `take` = a slice expression `x[:n]`, `unknown` = a statement / expression the translator has no term for. -/
inductive AddrExpr
  | nil
  | assisted                               -- m.AssistedAddrs
  | candidate                              -- m.CandidateAddrs
  | app (a b : AddrExpr)                   -- append(a, b...)
  | compact (a : AddrExpr)                 -- slices.Compact(a)
  | take (n : Nat) (a : AddrExpr)          -- a[:n]
  | unknown (src : String)
  deriving DecidableEq, Repr

def AddrExpr.eval (r : Resp) : AddrExpr → List Str
  | .nil => []
  | .assisted => r.assistedAddrs
  | .candidate => r.candidateAddrs
  | .app a b => a.eval r ++ b.eval r
  | .compact a => NatHole.compact (a.eval r)
  | .take n a => (a.eval r).take n
  | .unknown _ => []

/-- the send loop of MakeHole: `for _, detectAddr := range detectAddrs { for _, conn := range listenConns {
    sendSidMessage(ctx, conn, …, detectAddr, …) } }` — (address, index of the socket), in order; no early exit -/
def sendPlan (addrs : List Str) (nConns : Nat) : List (Str × Nat) :=
  addrs.flatMap (fun a => (List.range nConns).map (fun c => (a, c)))

def portsOf (rg : Int × Int) : List Int :=
  (List.range (rg.2 - rg.1 + 1).toNat).map (fun (k : Nat) => rg.1 + Int.ofNat k)

/-- `sendSidMessageToRangePorts`: every candidate IP × every port of every range -/
def rangeAddrs (r : Resp) : List Str :=
  (compact (parseIPs r.candidateAddrs)).flatMap (fun ip =>
    r.candidatePorts.flatMap (fun rg => (portsOf rg).map (fun p => joinHostPort ip p)))

/-- all destinations that are probed deterministically (the random ports come on top) -/
def probes (r : Resp) : List Str := detectAddrs r ++ rangeAddrs r

/-- number of sockets the party listens on (`listenConns`) -/
def listenCount (r : Resp) : Nat := if r.role = .sender then 1 else 1 + r.listenRandomPorts

/-! ### two parties on an unfiltered network

  Party X is bound at its true address `aX`; a datagram sent to `aX` arrives, one sent anywhere
  else is lost.  `noiseX` = what arrives at X's socket before the peer's first datagram (from
  anyone).  `sameKey` = the two parties hold the same secret key. -/

structure Party where
  resp : Resp
  addr : Str
  noise : List (Str × Dgram) := []

/-- the peer's probe as X sees it, if the peer probes X's true address at all -/
def probeFrom (sameKey : Bool) (x y : Party) : List (Str × Dgram) :=
  if (probes y.resp).contains x.addr then [(y.addr, recode sameKey true y.resp.sid false)] else []

/-- what X's wait loop does before any reply can have arrived -/
def early (sameKey : Bool) (x y : Party) : Option (Str × Bool) :=
  waitLoop x.resp.role x.resp.sid (x.noise ++ probeFrom sameKey x y)

/-- Y's reply as X sees it: Y writes its (re-encoded) message back to the source of the datagram
    it accepted — it reaches X iff that source is X's address -/
def replyFrom (sameKey : Bool) (x y : Party) : List (Str × Dgram) :=
  match early sameKey y x with
  | some (src, true) => if src = x.addr then [(y.addr, recode sameKey true y.resp.sid true)] else []
  | _ => []

/-- the result of X's `MakeHole`: `some raddr` or `none` (error: deadline) -/
def outcome (sameKey : Bool) (x y : Party) : Option Str :=
  (waitLoop x.resp.role x.resp.sid (x.noise ++ probeFrom sameKey x y ++ replyFrom sameKey x y)).map (·.1)

/-! ### MakeHole with many sockets: how a socket's result reaches the caller

  With `len(listenConns) > 1` (ListenRandomPorts > 0: modes 2 and 4) every socket gets a goroutine
  running `waitDetectMessage`; a goroutine that accepted (and answered) a message hands the result over by

      select { case resultCh <- result{lConn, addr}: default: lConn.Close() }

  on the UNBUFFERED `resultCh`: the send succeeds only if the calling goroutine is already blocked in
  its `select { case result := <-resultCh … case <-time.After(timeout) … }`; otherwise the result is
  dropped and the socket closed.  The goroutines are started one after the other BEFORE the caller
  reaches that select, so a socket whose datagram is already queued (the peer's probe arrived while
  this party was still sending its own probes, or its NatHoleResp reached it late) can run ahead of
  the caller.  `buffered` = the proposed repair `make(chan result, 1)`. -/

inductive HLabel
  | mainWaits                      -- the caller reaches its select on resultCh
  | deliver (conn : Nat)           -- the goroutine of socket `conn` accepted a message, answered it, tries the hand-over
  deriving DecidableEq, Repr

structure HState where
  mainWaiting : Bool := false
  slot : Option Nat := none        -- a result sitting in the channel's buffer (only with `buffered`)
  result : Option Nat := none      -- what MakeHole returns (none until / unless a result is taken)
  answered : List Nat := []        -- sockets that answered the peer (the peer's MakeHole returns on such an answer)
  closed : List Nat := []          -- sockets closed by the `default:` branch
  deriving Repr

def hstep (buffered : Bool) (s : HState) : HLabel → HState
  | .mainWaits =>
    match s.slot, s.result with
    | some c, none => { s with mainWaiting := true, slot := none, result := some c }
    | _, _ => { s with mainWaiting := true }
  | .deliver c =>
    let s := { s with answered := c :: s.answered }
    if s.mainWaiting && s.result.isNone then { s with result := some c }
    else if buffered && s.slot.isNone && s.result.isNone then { s with slot := some c }
    else { s with closed := c :: s.closed }

def hrun (buffered : Bool) (ls : List HLabel) : HState := ls.foldl (hstep buffered) {}

end NatPunch
end Frp
