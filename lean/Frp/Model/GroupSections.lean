/-
  C13: the critical sections of the group controllers' join and leave paths, as read from the source by
  translate/gen_groupfacts.go (Frp/Gen/GroupFacts.lean): the steps of TCPGroupCtl.Listen / TCPGroup.CloseListener,
  HTTPGroupController.Register / UnRegister, TCPMuxGroupCtl.Listen / TCPMuxGroup.CloseListener in statement order
  (callees of package group inlined), each with the locks held when it runs.

  The judgements are made here; the obligations `C13.code_*` (Frp/Props/C13.lean) tie the switches of the
  transition system (Frp/Model/Group.lean: `Fix.oneLock`, `Fix.leaveOne`, the release of `realPort`) to them.
-/
namespace Frp
namespace GroupSections

structure Ev where
  kind : String     -- lock ctl|grp, unlock ctl|grp, tableRead, tableWrite, tableDelete, edit, closeCh, closeLn,
                    -- release:<field>, gate:<point>
  ctl : Bool        -- the controller's mutex is held when the step runs
  grp : Bool        -- the group object's mutex is held
  fn : String
  line : Nat
  deriving DecidableEq, Repr

def Ev.isTable (e : Ev) : Bool := e.kind == "tableRead" || e.kind == "tableWrite" || e.kind == "tableDelete"

/-- the steps that change the group object: member list, hand-off channel, listener / route, port -/
def Ev.isEdit (e : Ev) : Bool :=
  e.kind == "edit" || e.kind == "closeCh" || e.kind == "closeLn" || e.kind.startsWith "release:"

def Ev.relevant (e : Ev) : Bool := e.isTable || e.isEdit

/-- the steps up to and including the last one that touches the table or the group object -/
def upToLast (evs : List Ev) : List Ev := (evs.reverse.dropWhile (fun e => !e.relevant)).reverse

/-- **one critical section of the controller lock**: the lock is taken, every step that reads or changes the
    table or the group object runs with it held, and it is not given up before the last of them -/
def oneSection (evs : List Ev) : Bool :=
  evs.any (·.kind == "lock ctl") &&
  (evs.filter Ev.relevant).all (·.ctl) &&
  (upToLast evs).all (fun e => e.kind != "unlock ctl")

/-- the group object changes only under its own lock -/
def editsUnderGroupLock (evs : List Ev) : Bool := (evs.filter Ev.isEdit).all (·.grp)

/-- lock order controller → group: the controller lock is never acquired while a group lock is held -/
def orderOk (evs : List Ev) : Bool := evs.all (fun e => !(e.kind == "lock ctl" && e.grp))

/-- the port-manager fields released, in order -/
def releases (evs : List Ev) : List String :=
  evs.filterMap (fun e => if e.kind.startsWith "release:" then some (e.kind.drop 8).toString else none)

/-- the table entry is deleted on this path -/
def deletes (evs : List Ev) : Bool := evs.any (·.kind == "tableDelete")

/-- the gate of the join path lies after the table lookup and before anything of the group object changes -/
def gateBetween (evs : List Ev) (point : String) : Bool :=
  match evs.span (fun e => e.kind != "gate:" ++ point) with
  | (pre, _ :: post) => pre.any Ev.isTable && !pre.any Ev.isEdit && post.any Ev.isEdit
  | _ => false

end GroupSections
end Frp
