import Frp.Model.MsgObj
import Frp.Model.Base64
import Frp.Model.IPText
/-
  The udp message as the udp paths BUILD and READ it (pkg/proto/udp/udp.go), with the address it carries in full.

    func NewUDPPacket(buf []byte, laddr, raddr *net.UDPAddr) *msg.UDPPacket {
        return &msg.UDPPacket{Content: base64.StdEncoding.EncodeToString(buf), LocalAddr: laddr, RemoteAddr: raddr}
    }
    func GetContent(m *msg.UDPPacket) (buf []byte, err error) { buf, err = base64.StdEncoding.DecodeString(m.Content); return }

    ForwardUserConn   n, remoteAddr, _ := udpConn.ReadFromUDP(buf);  udpMsg := NewUDPPacket(buf[:n], nil, remoteAddr)
    Forwarder         writerFn(raddr = udpMsg.RemoteAddr of the inbound packet, …):
                      n, _, _ := udpConn.ReadFromUDP(buf);           udpMsg := NewUDPPacket(buf[:n], nil, raddr)

  `Addr` is net.UDPAddr (GOROOT/src/net/udpsock.go) with ALL its fields: `IP IP` (`type IP []byte`: 0, 4 or 16 bytes),
  `Port int`, `Zone string`.  The field list is regenerated from the Go source (Gen/UdpAddr.lean `fields`) and compared
  with `addrFields`, from which the JSON members of an address are built (`Addr.members`): a field the model does not
  carry breaks `C17.addr_fields_eq_source`.

  An address travels as the JSON object encoding/json writes for the struct, member by member; the IP member is the
  text of `net.IP.MarshalText` (Model/IPText.lean `render` of the 16-byte form; "" for an empty IP) and comes back
  through `UnmarshalText` (`parse`; "" ⇒ nil) — so a 4-byte IPv4 address comes back in its 16-byte form (`to16`),
  which is the only identification the round trip makes.  Port and Zone travel as they are.
-/
namespace Frp
namespace UdpPacket
open MsgObj

/-- net.UDPAddr -/
structure Addr where
  ip : Str        -- net.IP: the raw bytes (0, 4 or 16 of them)
  port : Int
  zone : Str      -- IPv6 scoped addressing zone: any string
  deriving DecidableEq, Repr

/-- the struct as the model has it: (field name, type text, tag) in declaration order — compared with the list
    regenerated from GOROOT/src/net/udpsock.go -/
def addrFields : List (String × String × String) :=
  [("IP", "IP", ""), ("Port", "int", ""), ("Zone", "string", "")]

/-- `IP.To16` for the lengths an IP has: a 4-byte address is the IPv4-in-IPv6 form -/
def to16 (ip : Str) : Str := if ip.length = 4 then IPText.v4in6 ip else ip

/-- `net.IP.MarshalText`: "" for an empty IP, else `ip.String()` (dotted quad when `To4() != nil`) -/
def ipText (ip : Str) : Str := if ip.isEmpty then [] else IPText.render (to16 ip)

/-- `net.IP.UnmarshalText`: "" ⇒ nil, else `ParseIP` (`none` = error) -/
def ipOfText (s : Str) : Option Str := if s.isEmpty then some [] else IPText.parse s

/-- the value of each field, in the order of `addrFields` -/
def Addr.values (a : Addr) : List J := [.str (ipText a.ip), .num a.port, .str a.zone]

/-- the members encoding/json writes for the struct (no tags: every exported field under its own name) -/
def Addr.members (a : Addr) : List (Str × J) := (addrFields.map (fun f => Str.ofString f.1)).zip a.values

/-- the address as the object level of the message model has it (Model/MsgObj.lean `UDP`) -/
def Addr.toUDP (a : Addr) : UDP := { ip := ipText a.ip, port := a.port, zone := a.zone }

/-- … and back (`none`: the IP text is refused, the whole message is a decode error) -/
def Addr.ofUDP (u : UDP) : Option Addr := (ipOfText u.ip).map (fun ip => { ip := ip, port := u.port, zone := u.zone })

/-- the only identification of the round trip: the IP in its 16-byte form; Port and Zone untouched -/
def Addr.norm (a : Addr) : Addr := { a with ip := to16 a.ip }

/-- the text level of net.IP is trusted; this is the law it has to obey for ONE address, as a decidable predicate
    (evaluated by the driver on every generated address, so the hand-written IPText model is tied as well):
    the IP has one of the three lengths and its text is read back as its 16-byte form -/
def ipLaw (ip : Str) : Bool :=
  (ip.length == 0 || ip.length == 4 || ip.length == 16) && ipOfText (ipText ip) == some (to16 ip)

def addrOk : Option Addr → Bool
  | none => true
  | some a => ipLaw a.ip

/-- msg.UDPPacket -/
structure Packet where
  content : Str
  laddr : Option Addr       -- none = nil pointer
  raddr : Option Addr
  deriving DecidableEq, Repr

/-- `udp.NewUDPPacket`: the payload as base64 text, the two addresses AS GIVEN -/
def newUDPPacket (buf : Str) (laddr raddr : Option Addr) : Packet :=
  { content := Base64.encode buf, laddr := laddr, raddr := raddr }

/-- `udp.GetContent` -/
def getContent (p : Packet) : Option Str := Base64.decode p.content

/-- the message value (fields in the order of the regenerated table: Content, LocalAddr, RemoteAddr) -/
def Packet.toVal (p : Packet) : Struct2 :=
  [.str p.content, .udp (p.laddr.map Addr.toUDP), .udp (p.raddr.map Addr.toUDP)]

def optAddr : Option UDP → Option (Option Addr)
  | none => some none
  | some u => (Addr.ofUDP u).map some

def Packet.ofVal : Struct2 → Option Packet
  | [.str c, .udp l, .udp r] =>
    match optAddr l, optAddr r with
    | some l, some r => some { content := c, laddr := l, raddr := r }
    | _, _ => none
  | _ => none

/-- server side, `ForwardUserConn`: a datagram `dgram` read from the user `src` (`ReadFromUDP`) -/
def userPacket (src : Addr) (dgram : Str) : Packet := newUDPPacket dgram none (some src)

/-- client side, `Forwarder`: the answer of the local service to the inbound packet `req` goes back under the
    remote address `req` carried -/
def fwdReply (req : Packet) (answer : Str) : Packet := newUDPPacket answer none req.raddr

/-! ### the predicate of the driver: the address that came out against the one that went in, field by field -/

def addrKept : Option Addr → Option Addr → Bool
  | none, none => true
  | some a, some b => b.ip == to16 a.ip && b.port == a.port && b.zone == a.zone
  | _, _ => false

end UdpPacket
end Frp
