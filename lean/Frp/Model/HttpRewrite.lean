import Frp.Model.Str
import Frp.Model.Base64
/-
  Model of the glue frp puts around the standard reverse proxy (property C02):

    pkg/util/vhost/http.go   NewHTTPReverseProxy: Rewrite closure, ModifyResponse, ErrorHandler,
                             the synthetic `URL.Host` used as connection-pool key
    GOROOT/src/net/http/httputil/reverseproxy.go (go1.23)  ReverseProxy.ServeHTTP: the steps run
                             before / after the Rewrite hook (hop-by-hop removal, stripping of
                             client supplied forwarding headers, User-Agent rule), `SetXForwarded`
    GOROOT/src/net/http/transport.go, request.go   what `Transport` adds / omits when it writes the
                             outgoing request (Accept-Encoding: gzip, only the first User-Agent,
                             Host / Content-Length / Transfer-Encoding / Trailer never from the map)
    GOROOT/src/net/http/server.go   what the `http.Server` adds when it writes the answer (Date,
                             sniffed Content-Type)

  The net/http parts are ASSUMED (read from the GOROOT source, sampled by the correspondence
  engine); the frp closures are modelled statement by statement.

  A header map (`http.Header`, a Go map) is an association list canonical-key ↦ values; `get` reads
  the first entry of a key, `set`/`del` remove every entry of the key, so the list behaves as a map
  whatever its order.  The engine compares maps key by key (order of keys is not an observable of a
  Go map; net/http writes keys sorted).
-/
namespace Frp
namespace HttpRewrite
open Str

abbrev Hdr := List (Str × List Str)

/-- `h[k]` (nil = absent) -/
def get : Hdr → Str → List Str
  | [], _ => []
  | (k', v) :: t, k => if k' = k then v else get t k

/-- `delete(h, k)` -/
def del (h : Hdr) (k : Str) : Hdr := h.filter (fun e => e.1 ≠ k)

/-- `h[k] = []string{v}` -/
def set (h : Hdr) (k v : Str) : Hdr := (k, [v]) :: del h k

/-- `h[k] = append(h[k], v)` -/
def add (h : Hdr) (k v : Str) : Hdr := (k, get h k ++ [v]) :: del h k

/-- delete a list of keys -/
def delAll (h : Hdr) (ks : List Str) : Hdr := h.filter (fun e => !ks.contains e.1)

/-! ### textproto.CanonicalMIMEHeaderKey -/

/-- `validHeaderFieldByte`: RFC 7230 token characters -/
def tokenByte (c : Nat) : Bool :=
  (48 ≤ c ∧ c ≤ 57) || (65 ≤ c ∧ c ≤ 90) || (97 ≤ c ∧ c ≤ 122) ||
  [33, 35, 36, 37, 38, 39, 42, 43, 45, 46, 94, 95, 96, 124, 126].contains c

def canonGo (upper : Bool) : Str → Str
  | [] => []
  | c :: t =>
    let c' := if upper ∧ 97 ≤ c ∧ c ≤ 122 then c - 32
              else if ¬upper ∧ 65 ≤ c ∧ c ≤ 90 then c + 32 else c
    c' :: canonGo (c' = 45) t

/-- keys with a byte outside the token set are left unchanged -/
def canonKey (s : Str) : Str := if s.all tokenByte then canonGo true s else s

/-- `Header.Set(k, v)` -/
def hset (h : Hdr) (k v : Str) : Hdr := set h (canonKey k) v
/-- `Header.Del(k)` -/
def hdel (h : Hdr) (k : Str) : Hdr := del h (canonKey k)

/-- the header map net/http's server builds from the header lines of a request/response
    (`textproto.Reader.ReadMIMEHeader`: canonical key, values appended in wire order) -/
def parseHdr (lines : List (Str × Str)) : Hdr :=
  lines.foldl (fun h kv => add h (canonKey kv.1) kv.2) []

/-- `fixPragmaCacheControl` (net/http request.go, applied by the server's request parser before any
    handler runs): `Pragma: no-cache` without `Cache-Control` gains `Cache-Control: no-cache` -/
def fixPragma (h : Hdr) : Hdr :=
  if (get h (ofString "Pragma")).head? = some (ofString "no-cache") ∧ get h (ofString "Cache-Control") = []
  then set h (ofString "Cache-Control") (ofString "no-cache") else h

/-- the header map a handler receives for the given header lines -/
def serverHdr (lines : List (Str × Str)) : Hdr := fixPragma (parseHdr lines)

/-! ### constants -/

def kConnection := ofString "Connection"
def kUpgrade := ofString "Upgrade"
def kTe := ofString "Te"
def kXFF := ofString "X-Forwarded-For"
def kXFH := ofString "X-Forwarded-Host"
def kXFP := ofString "X-Forwarded-Proto"
def kForwarded := ofString "Forwarded"
def kUA := ofString "User-Agent"
def kAE := ofString "Accept-Encoding"
def kRange := ofString "Range"
def kHost := ofString "Host"
def kCL := ofString "Content-Length"
def kTE := ofString "Transfer-Encoding"
def kTrailer := ofString "Trailer"
def kDate := ofString "Date"
def kCT := ofString "Content-Type"
def kCE := ofString "Content-Encoding"

/-- `hopHeaders` of reverseproxy.go (trusted constant) -/
def hopHeaders : List Str :=
  [kConnection, ofString "Proxy-Connection", ofString "Keep-Alive", ofString "Proxy-Authenticate",
   ofString "Proxy-Authorization", kTe, kTrailer, kTE, kUpgrade]

/-- keys `Request.write` never takes from the header map (`reqWriteExcludeHeader`) -/
def wireExcluded : List Str := [kHost, kCL, kTE, kTrailer]

/-! ### token lists in header values -/

def isOWS (c : Nat) : Bool := c = 32 || c = 9

/-- `textproto.TrimString` / `trimOWS` -/
def trim (s : Str) : Str := ((s.dropWhile isOWS).reverse.dropWhile isOWS).reverse

/-- the non-empty trimmed comma-separated fields of all values -/
def fields (vs : List Str) : List Str :=
  (vs.flatMap (fun v => (splitOn 44 v).map trim)).filter (· ≠ [])

/-- `httpguts.HeaderValuesContainsToken` (ASCII case-insensitive) -/
def containsToken (vs : List Str) (tok : Str) : Bool :=
  (fields vs).any (fun f => toLower f = toLower tok)

/-- headers named by `Connection`, as `removeHopByHopHeaders` deletes them -/
def connNamed (h : Hdr) : List Str := (fields (get h kConnection)).map canonKey

/-- `removeHopByHopHeaders` -/
def removeHop (h : Hdr) : Hdr := delAll h (connNamed h ++ hopHeaders)

/-- `upgradeType` -/
def upgradeType (h : Hdr) : Str :=
  if containsToken (get h kConnection) kUpgrade then (get h kUpgrade).headD [] else []

/-- `strings.Join(vs, ", ")` -/
def joinCS : List Str → Str
  | [] => []
  | [a] => a
  | a :: b :: rest => a ++ 44 :: 32 :: joinCS (b :: rest)

/-! ### requests -/

structure RouteCfg where
  domain      : Str
  location    : Str
  routeUser   : Str
  rewriteHost : Str
  headers     : List (Str × Str)      -- RouteConfig.Headers in the order `range` visits the map
  respHeaders : List (Str × Str)      -- RouteConfig.ResponseHeaders, likewise
deriving DecidableEq, Repr

structure Req where
  method  : Str
  absForm : Bool                      -- absolute-form request line (`URL.Host ≠ ""`)
  path    : Str                       -- escaped path as on the request line
  query   : Option Str                -- raw query; `some []` = bare '?'
  host    : Str                       -- `Request.Host`
  hdr     : Hdr
  chunked : Bool                      -- body framing
  body    : Str
deriving DecidableEq, Repr

def isHex (c : Nat) : Bool := (48 ≤ c ∧ c ≤ 57) || (65 ≤ c ∧ c ≤ 70) || (97 ≤ c ∧ c ≤ 102)

/-- `cleanQueryParams` returns its argument unchanged exactly on these queries (no ';', every '%'
    followed by two hex digits — the Go loop requires a further byte after them, see `i+2 >= len`) -/
def queryClean : Str → Bool
  | [] => true
  | c :: t =>
    if c = 59 then false
    else if c = 37 then
      match t with
      | a :: b :: t' => isHex a && isHex b && queryClean t'
      | _ => false
    else queryClean t

/-- the header map handed to `Rewrite` as `r.Out.Header` (ReverseProxy.ServeHTTP up to the hook) -/
def preRewrite (q : Req) : Hdr :=
  let up := upgradeType q.hdr
  let h := removeHop q.hdr
  let h := if containsToken (get q.hdr kTe) (ofString "trailers") then set h kTe (ofString "trailers") else h
  let h := if up ≠ [] then set (set h kConnection kUpgrade) kUpgrade up else h
  delAll h [kForwarded, kXFF, kXFH, kXFP]

/-- `r.Out.Header["X-Forwarded-For"] = r.In.Header["X-Forwarded-For"]; r.SetXForwarded()`.
    `peer = none` ⇔ `net.SplitHostPort(r.In.RemoteAddr)` fails. -/
def setXForwarded (q : Req) (peer : Option Str) (tls : Bool) (h : Hdr) : Hdr :=
  let prior := get q.hdr kXFF
  let h := match peer with
    | some ip => set h kXFF (if prior ≠ [] then joinCS prior ++ 44 :: 32 :: ip else ip)
    | none => del h kXFF
  let h := set h kXFH q.host
  set h kXFP (ofString (if tls then "https" else "http"))

/-- `for k, v := range rc.Headers { req.Header.Set(k, v) }` -/
def applySets (h : Hdr) (sets : List (Str × Str)) : Hdr :=
  sets.foldl (fun h kv => hset h kv.1 kv.2) h

/-- the Rewrite closure of `NewHTTPReverseProxy` on the header map, plus the
    `User-Agent` rule that follows it in ReverseProxy.ServeHTTP.  `rc = none` ⇔ no route. -/
def rewriteHdr (rc : Option RouteCfg) (q : Req) (peer : Option Str) (tls : Bool) : Hdr :=
  let h := setXForwarded q peer tls (preRewrite q)
  let h := match rc with
    | some rc => applySets h rc.headers
    | none => h
  if get h kUA = [] then set h kUA [] else h

/-- `req.Host` after the closure -/
def rewriteHost (rc : Option RouteCfg) (q : Req) : Str :=
  match rc with
  | some rc => if rc.rewriteHost ≠ [] then rc.rewriteHost else q.host
  | none => q.host

/-- what `Transport` puts on the wire from the header map: never Host/Content-Length/
    Transfer-Encoding/Trailer, only the first User-Agent value and only if non-empty,
    `Accept-Encoding: gzip` added when the request has neither Accept-Encoding nor Range and is
    not HEAD (transport.go `persistConn.roundTrip`) -/
def transportHdr (method : Str) (h : Hdr) : Hdr :=
  let ua := (get h kUA).headD []
  let h' := delAll h (kUA :: wireExcluded)
  let h' := if ua ≠ [] then set h' kUA ua else h'
  if (get h kAE).headD [] = [] ∧ (get h kRange).headD [] = [] ∧ method ≠ ofString "HEAD"
  then set h' kAE (ofString "gzip") else h'

/-- the request as the backend receives it (`query` is meaningful for `queryClean` queries) -/
def backendSees (rc : Option RouteCfg) (q : Req) (peer : Option Str) (tls : Bool) : Req :=
  { q with host := rewriteHost rc q
         , hdr := transportHdr q.method (rewriteHdr rc q peer tls) }

/-! ### the four client plugins -/

inductive PluginKind | h2h | h2hs | hs2h | hs2hs
deriving DecidableEq, Repr

/-- `false` = pkg/plugin/client/http2http.go as it is (its Rewrite closure neither copies nor sets
    the X-Forwarded-* headers the standard proxy strips before the hook); `true` = repaired as in
    hooks/C02-fix-http2http-forwarded.patch (copies them like http2https does) -/
def pluginH2HIsFixed : Bool := true

/-- `r.Out.Header[k] = r.In.Header[k]` -/
def copyKey (q : Req) (h : Hdr) (k : Str) : Hdr :=
  if get q.hdr k = [] then del h k else (k, get q.hdr k) :: del h k

/-- what the hooks of pkg/plugin/client/{http2http,http2https,https2http,https2https}.go do about
    the forwarding headers the standard proxy has just stripped -/
def pluginBase (fixed : Bool) (kind : PluginKind) (q : Req) (peer : Option Str) : Hdr :=
  let h := preRewrite q
  let copy3 := copyKey q (copyKey q (copyKey q h kXFF) kXFH) kXFP
  match kind with
  | .h2h => if fixed then copy3 else h
  | .h2hs => copy3
  | .hs2h => setXForwarded q peer true h
  | .hs2hs => setXForwarded q peer true h

/-- the Rewrite closures on the header map: forwarding headers, `Header.Set` of the configured
    request headers (+ the User-Agent rule of ReverseProxy.ServeHTTP) -/
def pluginHdr (fixed : Bool) (kind : PluginKind) (sets : List (Str × Str)) (q : Req) (peer : Option Str) : Hdr :=
  let h := applySets (pluginBase fixed kind q peer) sets
  if get h kUA = [] then set h kUA [] else h

/-- the request as the local service behind a plugin receives it -/
def pluginSees (fixed : Bool) (kind : PluginKind) (hostRewrite : Str) (sets : List (Str × Str)) (q : Req)
    (peer : Option Str) : Req :=
  { q with host := if hostRewrite ≠ [] then hostRewrite else q.host
         , hdr := transportHdr q.method (pluginHdr fixed kind sets q peer) }

/-! ### responses -/

structure Resp where
  status : Nat
  hdr    : Hdr
  body   : Str
deriving DecidableEq, Repr

/-- `ModifyResponse` closure (`rc = none`: the request carried no route config) -/
def modifyResponse (rc : Option RouteCfg) (h : Hdr) : Hdr :=
  match rc with
  | some rc => applySets h rc.respHeaders
  | none => h

/-- `Transport` reading the answer: a `Connection` header that contains the token `close` is
    deleted as a whole (`shouldClose(…, removeCloseHeader = true)` in transfer.go) — so headers it
    names besides `close` are NOT recognised as hop-by-hop by the proxy afterwards -/
def transportResp (h : Hdr) : Hdr :=
  if containsToken (get h kConnection) (ofString "close") then del h kConnection else h

/-- what `http.Server` adds / drops while writing the answer: a 304 never carries `Content-Type`
    (`suppressedHeaders(304)`); `Date` is added if the handler set none; a sniffed `Content-Type`
    if none is set, a body is written and no Content-Encoding is set.
    The added values are outside the model: rendered as `*`. -/
def serverFinish (method : Str) (r : Resp) : Resp :=
  let body := if method = ofString "HEAD" then [] else r.body
  let h := if r.status = 304 then del r.hdr kCT else r.hdr
  let h := if get h kCT = [] ∧ body ≠ [] ∧ get h kCE = [] then set h kCT [42] else h
  let h := if get h kDate = [] then set h kDate [42] else h
  { r with hdr := h, body := body }

/-- non-upgrade answer as the user receives it: Transport's read, `removeHopByHopHeaders(res.Header)`,
    `ModifyResponse`, `copyHeader`, `WriteHeader`, body copy, then the server's own additions -/
def userSees (rc : Option RouteCfg) (method : Str) (r : Resp) : Resp :=
  serverFinish method { r with hdr := delAll (modifyResponse rc (removeHop (transportResp r.hdr))) [kCL, kTE] }

/-- the not-found page of pkg/util/vhost/resource.go (contents opaque: one byte stands for it) -/
def notFoundPage : Str := ofString "page"

/-- `ErrorHandler`: a `net.Error` with `Timeout()` ⇒ 504 without body, anything else ⇒ 404 + page -/
def errorMap (isTimeout : Bool) : Resp :=
  if isTimeout then { status := 504, hdr := [], body := [] }
  else { status := 404, hdr := [], body := notFoundPage }

/-- the error answer as the user receives it: the handler writes the page also for HEAD — the server
    sniffs its type, then drops the bytes -/
def userSeesError (method : Str) (isTimeout : Bool) : Resp :=
  let r := serverFinish [] (errorMap isTimeout)
  if method = ofString "HEAD" then { r with body := [] } else r

/-! ### the pool key -/

/-- `req.URL.Host = rc.Domain + "." + b64(rc.Location) + "." + b64(rc.RouteByHTTPUser) + "." + b64(endpoint)` -/
def poolKey (domain location routeUser endpoint : Str) : Str :=
  domain ++ 46 :: (Base64.encode location ++ 46 :: (Base64.encode routeUser ++ 46 :: Base64.encode endpoint))

end HttpRewrite
end Frp
