import Frp.Gen.TypedConf
import Frp.Model.ProxyMsg
/-
  What loading does to one proxy / visitor definition after decoding: the Complete methods, over
  path-keyed records (`Rec Str`: Go field path → Value).

  Go sources mirrored here:
    pkg/config/v1/visitor.go   VisitorBaseConfig.Complete, XTCPVisitorConfig.Complete — the statements are
                               *regenerated* (`Frp/Gen/TypedConf.lean`), this file interprets them
    pkg/config/v1/proxy.go     ProxyBaseConfig.Complete — the regenerated steps of `Frp/Gen/ProxyMsg.lean`
                               interpreted over path-keyed records (the C18 record model uses the CF enumeration)
    pkg/config/load.go         LoadClientConfig: c.Complete(cliCfg.User) / c.Complete(cliCfg)
    cmd/frpc/sub/proxy.go      the same two calls on the flag-built configurers
-/
namespace Frp
namespace TypedConf
open Gen.TypedConf Gen.ProxyMsg ProxyMsg

/-- `namePrefix`: "" or `g.User + "."` -/
def namePrefix (user : Str) : Str := if user = [] then [] else user ++ [Str.dot]

def asInt : Value → Int
  | .int i => i
  | _ => 0

def target : VStep → Str
  | .emptyOrStr f _ | .emptyOrInt f _ | .userPrefix f | .qualify f _ | .userPrefixIfSet f => f

/-- the fields a step reads -/
def reads : VStep → List Str
  | .qualify f g => [f, g]
  | s => [target s]

/-- the value a step assigns to its target (none = the guarded assignment does not run) -/
def newVal (user : Str) (c : Rec Str) : VStep → Option Value
  | .emptyOrStr f d => if asStr (c.get f) = [] then some (.str d) else none
  | .emptyOrInt f d => if asInt (c.get f) = 0 then some (.int d) else none
  | .userPrefix f => some (.str (namePrefix user ++ asStr (c.get f)))
  | .qualify f g =>
    if asStr (c.get g) ≠ [] then some (.str (asStr (c.get g) ++ Str.dot :: asStr (c.get f)))
    else some (.str (namePrefix user ++ asStr (c.get f)))
  | .userPrefixIfSet f => if asStr (c.get f) ≠ [] then some (.str (namePrefix user ++ asStr (c.get f))) else none

def applyV (user : Str) (c : Rec Str) (s : VStep) : Rec Str :=
  match newVal user c s with
  | some v => c.set (target s) v
  | none => c

def runSteps (user : Str) (steps : List VStep) (c : Rec Str) : Rec Str := steps.foldl (applyV user) c

/-- the statements `<T>VisitorConfig.Complete(g)` executes -/
def visitorSteps (t : VT) : List VStep := visitorBaseComplete ++ visitorOwnComplete t

/-- `<T>VisitorConfig.Complete(g)` with `g.User = user` -/
def visitorComplete (t : VT) (user : Str) (c : Rec Str) : Rec Str := runSteps user (visitorSteps t) c

/-- no step reads a field an earlier step has assigned (so the order of the steps does not matter
    and each field ends up with the value its own step computes from the loaded configuration) -/
def Indep : List VStep → Prop
  | [] => True
  | s :: rest => (∀ s' ∈ rest, target s ∉ reads s') ∧ Indep rest

instance : (l : List VStep) → Decidable (Indep l)
  | [] => isTrue trivial
  | s :: rest => by
    unfold Indep
    have := instDecidableIndep rest
    infer_instance

/-- closed form: the field's own step applied to the configuration as loaded -/
def closedForm (user : Str) (steps : List VStep) (c : Rec Str) (k : Str) : Value :=
  match steps.find? (fun s => target s = k) with
  | some s => (newVal user c s).getD (c.get k)
  | none => c.get k

/-! ## ProxyBaseConfig.Complete over path-keyed records -/

def cfKey (f : CF) : Str := Str.ofString f.name
def nameKey : Str := [78, 97, 109, 101]        -- "Name"

def applyPS (namePrefix : Str) (c : Rec Str) : CompleteStep → Rec Str
  | .prefixName =>
    if namePrefix = [] then c
    else c.set nameKey (.str (namePrefix ++ Str.dot :: asStr (c.get nameKey)))
  | .emptyOr f d => if asStr (c.get (cfKey f)) = [] then c.set (cfKey f) (.str d) else c
  | .pluginComplete => c

/-- `<T>ProxyConfig.Complete(namePrefix)` -/
def proxyComplete (namePrefix : Str) (c : Rec Str) : Rec Str := completeSteps.foldl (applyPS namePrefix) c

end TypedConf
end Frp
