import Frp.Model.Wire
/-
  C05 — HISTORIES of the TLS files on disk, on both sides, and the websocket upgrade request.

    server/service.go   NewService: `tlsConfig, err := transport.NewServerTLSConfig(cert, key, ca)` ONCE; the value goes
                        into `Service.tlsConfig` (sniffed listeners) and, cloned, to `quic.ListenAddr`; no
                        `GetConfigForClient` / `GetCertificate` / `VerifyPeerCertificate` callback is installed anywhere
                        (regenerated facts `tlsCallbacks`, `serviceTLSUses`, `tlsSites`)
                                                                               → `Srv.start`, `Srv.effectiveTls`
    client/service.go   login: `connector := svr.connectorCreator(ctx, common)`, `Open`, `Connect` per ATTEMPT
    client/connector.go realConnect: `if tlsEnable { tlsConfig, err = NewClientTLSConfig(files…); if err != nil {return} }`,
                        the dial options take `tlsConfig != nil`
    pkg/transport/tls.go NewClientTLSConfig reads the files on every call; the package keeps no state between calls
                        (regenerated fact `transportPkgVars`)                  → `Cli.build`, `Cli.attempt`
    pkg/util/net/websocket.go + server/service.go HandleListener: the connection the websocket listener hands out goes
                        through the same sniff with `forceTLS = cfg.Transport.TLS.Force`; nothing of the upgrade
                        request is an input                                    → `wsPeerReply`
-/
namespace Frp
namespace WireHist
open Wire

/-! ## 1. frps and its files -/

/-- what is on disk at some moment -/
structure SrvDisk where
  certIssuer : Option Nat   -- issuer of a loadable certFile/keyFile pair; none: missing / no PEM block / mismatched pair
  certGen : Nat := 0        -- which issue of the certificate it is (a renewal counts up)
  ca : Option Nat           -- the CA whose certificate trustedCaFile holds; none: missing
  caEmpty : Bool := false   -- trustedCaFile is readable but holds no certificate (`AppendCertsFromPEM` adds nothing)
  deriving DecidableEq, Repr

/-- a running frps: its configuration and what `NewService` loaded when it started -/
structure Running where
  cfg : ServerCfg
  certIssuer : Option Nat   -- issuer of the certificate in `tlsConfig.Certificates` (none: the random one)
  clientCA : Nat            -- the CA in `tlsConfig.ClientCAs` (0: no pool / an empty pool)
  deriving DecidableEq, Repr

/-- `NewService` → `NewServerTLSConfig`: an unreadable configured file is an error (frps does not start) -/
def start (cfg : ServerCfg) (d : SrvDisk) : Option Running :=
  if cfg.certGiven && d.certIssuer.isNone then none
  else if cfg.trustedCA && d.ca.isNone && !d.caEmpty then none
  else some { cfg := cfg
            , certIssuer := if cfg.certGiven then d.certIssuer else none
            , clientCA := if cfg.trustedCA && !d.caEmpty then d.ca.getD 0 else 0 }

inductive Ev
  | replace (d : SrvDisk)    -- the files change on disk
  | wait (ms : Nat)          -- time passes
  deriving DecidableEq, Repr

structure St where
  run : Running
  disk : SrvDisk
  clock : Nat := 0
  deriving DecidableEq, Repr

def step (s : St) : Ev → St
  | .replace d => { s with disk := d }
  | .wait ms => { s with clock := s.clock + ms }

def run (s : St) (evs : List Ev) : St := evs.foldl step s

/-- the tls.Config a handshake on listener `l` is run with in state `s`: `svr.tlsConfig` / its clone, built once by
    `NewService`; crypto/tls consults no callback.  Neither the disk nor the clock is an input. -/
def effectiveTls (l : Listener) (s : St) : Option ServerTls := listenerTls l s.run.cfg

/-- the certificate facts of a probe: the peer presents a certificate issued by `cli` (none: no certificate) and does
    not verify the server -/
def pkiOf (r : Running) (cli : Option Nat) : Pki :=
  { srvCertIssuer := r.certIssuer, cliRootCA := 0, cliCertIssuer := cli, srvClientCA := r.clientCA }

/-- does a real connector with configuration `c` get a session in state `s`? -/
def probeUp (s : St) (c : ClientCfg) (cli : Option Nat) : Bool := sessionUpOn s.run.cfg c (pkiOf s.run cli)

/-! ## 1b. construction sites of tls.Config values (shape of the regenerated fact `tlsSites`) -/

/-- the policy fields one function writes on tls.Config values it builds -/
structure Site where
  setsClientCAs : Bool
  setsRequire : Bool       -- `ClientAuth = tls.RequireAndVerifyClientCert`
  deriving DecidableEq, Repr

/-- a site never produces a config that has a CA pool and does not demand a verified certificate -/
def Site.sound (x : Site) : Bool := !x.setsClientCAs || x.setsRequire

/-! ## 2. frpc and its files: one login attempt -/

inductive FileSt
  | ok       -- readable, well-formed
  | empty    -- readable, no usable PEM block
  | gone     -- missing / unreadable
  deriving DecidableEq, Repr

structure CliDisk where
  ca : FileSt := .ok
  pair : FileSt := .ok     -- certFile + keyFile as `tls.LoadX509KeyPair` sees them
  deriving DecidableEq, Repr

inductive Built
  | err                                   -- `NewClientTLSConfig` returned an error
  | cfg (ct : ClientTls) (rootsEmpty : Bool)
  deriving DecidableEq, Repr

/-- `NewClientTLSConfig(cert, key, ca, sn)` against the disk: `LoadX509KeyPair` fails on a missing or malformed pair,
    `os.ReadFile(caPath)` fails on a missing CA file; a CA file without a certificate gives an EMPTY pool (the result
    of `AppendCertsFromPEM` is not looked at) -/
def build (certGiven caGiven : Bool) (sn : Str) (d : CliDisk) : Built :=
  if certGiven && d.pair != .ok then .err
  else if caGiven && d.ca == .gone then .err
  else .cfg (clientTlsOf certGiven caGiven sn) (caGiven && d.ca == .empty)

inductive Attempt
  | noConn                     -- realConnect returned before dialling
  | tlsConn (verified : Bool)  -- a connection whose client bytes are a TLS stream; `verified`: the client accepted frps
  | plainConn                  -- a connection without TLS
  deriving DecidableEq, Repr

/-- one attempt (`NewConnector`, `Open`, `Connect`) of protocol tcp / websocket against a frps whose certificate the
    trusted CA signed for the name in use: a function of the configuration and of the disk AT THAT MOMENT only -/
def attempt (c : ClientCfg) (d : CliDisk) : Attempt :=
  if c.tlsEnable || tlsRequired c.protocol then
    match build c.certGiven c.trustedCA (effServerName c) d with
    | .err => .noConn
    | .cfg ct rootsEmpty => .tlsConn (ct.insecureSkipVerify || !rootsEmpty)
  else .plainConn

/-- the attempts of a retry loop over a history of disk states -/
def attempts (c : ClientCfg) (ds : List CliDisk) : List Attempt := ds.map (attempt c)

/-! ## 3. a websocket peer without TLS -/

/-- reply to a peer that upgrades with request headers `hdrs` (name, value) and then sends byte `b` + the rest of a
    Login frame (tcpMux off): the headers are not an input — `rawReply` -/
def wsPeerReply (s : ServerCfg) (_hdrs : List (Str × Str)) (b : Nat) : Option Nat :=
  if reachesReadMsgOn .websocket s b false then
    if b = 0x6f then some 0x31 else if b = 0x76 then some 0x33 else none
  else none

end WireHist
end Frp
