import Frp.Model.Visitor
/-
  visitor.Manager.NewConn as it runs next to Listen / CloseListener (server/visitor/visitor.go), small-step.

    NewConn:        vm.mu.RLock(); defer vm.mu.RUnlock()
                    l := vm.listeners[name]                     (the bundle: a pointer)
                    key check, user check (against l.sk, l.allowUsers)
                    if useEncryption { libio.WithEncryption(conn, l.sk) }    ← the only place where NewConn can be
                        held up from outside: crypto.NewWriter reads the IV from crypto/rand.Reader; it may also fail
                    if useCompression { libio.WithCompression }
                    l.l.PutConn(..)                             (into the listener of the bundle read above)
    Listen:         vm.mu.Lock(); defer vm.mu.Unlock(); …
    CloseListener:  vm.mu.Lock(); defer vm.mu.Unlock(); delete(vm.listeners, name)

  sync.RWMutex: Lock() waits until every reader has left; RLock() waits while a writer is waiting or
  inside.  A `Flight` is a NewConn call standing inside WithEncryption: it has passed both checks, it
  holds the read lock and the bundle pointer (`lid`).  Writers that arrive meanwhile are `pending`
  (one owner goroutine issues them, so they run in arrival order once the last reader has left).
  InternalListener.Close and Accept do not touch the manager's lock.
-/
namespace Frp
namespace Visitor
open NatHole (aget aput adel)

/-- the arguments of one `Manager.NewConn` call (`conn` = identity of the net.Conn) -/
structure Req where
  name : Str
  ts : Int
  sign : Str
  user : Str
  conn : Nat
  enc : Bool
  deriving DecidableEq, Repr

/-- a NewConn call between its checks and its PutConn; `lid` = the bundle pointer it read under the
    lock, `sk`/`allow` = (ghost) what the checks were made against -/
structure Flight where
  req : Req
  lid : Nat
  sk : Str
  allow : List Str
  deriving DecidableEq, Repr

/-- the two operations that take the manager's write lock -/
inductive WOp
  | listen (name sk : Str) (allow : List Str)
  | close (name : Str)
  deriving DecidableEq, Repr

structure CState where
  s : State := {}
  flights : List Flight := []
  pending : List WOp := []
  deriving Repr

/-- the part of NewConn before the wrappers: lookup, key check, user check -/
def checks (H : Str → Str) (ls : List (Str × Listener)) (r : Req) : Except Err Listener :=
  match aget ls r.name with
  | none => .error .noListener
  | some l =>
    if authKey H l.sk r.ts ≠ r.sign then .error .authFailed
    else if !allowedB l.allow r.user then .error .notAllowed
    else .ok l

def item (r : Req) : QItem := { conn := r.conn, user := r.user, sign := r.sign, ts := r.ts }

/-- `l.l.PutConn(conn)` for the bundle `l` registered under `name` (listener.go: closed ⇒ the send
    panics ⇒ error; channel full ⇒ the connection is closed, nil is returned) -/
def putConn (ls : List (Str × Listener)) (name : Str) (l : Listener) (q : QItem) : List (Str × Listener) × ConnOut :=
  if l.closed then (ls, .err .lclosed)
  else if l.queue.length ≥ acceptCap then (ls, .dropped l.lid)
  else (aput ls name { l with queue := l.queue ++ [q] }, .queued l.lid)

/-- Listen / CloseListener once the write lock is held (same as `step` on `.listen` / `.closeListener`) -/
def applyW (s : State) : WOp → State × Out
  | .listen name sk allow => doListen s name sk allow []
  | .close name => ({ s with listeners := adel s.listeners name }, .ok)

/-- the waiting writers run, in arrival order -/
def flush : State → List WOp → State × List Out
  | s, [] => (s, [])
  | s, w :: ws =>
    let (s', o) := applyW s w
    let (s'', os) := flush s' ws
    (s'', o :: os)

inductive Lbl
  | begin (r : Req)                       -- NewConn is called; runs up to the IV read (if `enc`) or to its end
  | finish (conn : Nat) (ivOk : Bool)     -- the IV read of the flight with that connection returns (ok / error)
  | write (w : WOp)                       -- Listen / CloseListener is called
  | lclose (name : Str)                   -- InternalListener.Close (no manager lock)
  | accept (name : Str)                   -- the owner takes one connection (no manager lock)
  deriving Repr

inductive COut
  | conn (o : ConnOut)                        -- NewConn returned at once
  | paused                                    -- NewConn stands in WithEncryption, holding the read lock
  | finished (o : ConnOut) (ws : List Out)    -- NewConn returned; then the writers that had been waiting ran
  | blocked                                   -- Lock() has to wait for the readers
  | wrote (o : Out)
  | wouldBlock                                -- RLock() behind a waiting writer: not driven
  | noFlight
  | other (o : Out)
  deriving DecidableEq, Repr

/-- the hand-over of a flight: into the listener of the bundle it holds.  Under the lock that bundle is
    still the one registered under the name (`C08.finv_reachable`); were it not, the connection would
    go to a listener that only its former owner holds (table unchanged) -/
def finishPut (ls : List (Str × Listener)) (f : Flight) (ivOk : Bool) : List (Str × Listener) × ConnOut :=
  if !ivOk then (ls, .err .encFailed)
  else match aget ls f.req.name with
    | some l => if l.lid = f.lid then putConn ls f.req.name l (item f.req) else (ls, .queued f.lid)
    | none => (ls, .queued f.lid)

def cstep (fixed : Bool) (H : Str → Str) (c : CState) : Lbl → CState × COut
  | .begin r =>
    if c.pending ≠ [] then (c, .wouldBlock) else
    match checks H c.s.listeners r with
    | .error e => (c, .conn (.err e))
    | .ok l =>
      if r.enc then
        ({ c with flights := c.flights ++ [{ req := r, lid := l.lid, sk := l.sk, allow := l.allow }] }, .paused)
      else
        let (ls, o) := putConn c.s.listeners r.name l (item r)
        ({ c with s := { c.s with listeners := ls } }, .conn o)
  | .finish conn ivOk =>
    match c.flights.find? (fun f => f.req.conn = conn) with
    | none => (c, .noFlight)
    | some f =>
      let rest := c.flights.filter (fun g => g.req.conn ≠ conn)
      let (ls, o) := finishPut c.s.listeners f ivOk
      let s1 : State := { c.s with listeners := ls }
      if rest = [] then
        let (s2, os) := flush s1 c.pending
        ({ s := s2, flights := [], pending := [] }, .finished o os)
      else ({ c with s := s1, flights := rest }, .finished o [])
  | .write w =>
    if c.flights ≠ [] ∨ c.pending ≠ [] then ({ c with pending := c.pending ++ [w] }, .blocked)
    else
      let (s', o) := applyW c.s w
      ({ c with s := s' }, .wrote o)
  | .lclose name => ({ c with s := (step fixed H c.s (.lclose name)).1 }, .other .ok)
  | .accept name =>
    let (s', o) := step fixed H c.s (.accept name)
    ({ c with s := s' }, .other o)

def crun (fixed : Bool) (H : Str → Str) : CState → List Lbl → CState
  | c, [] => c
  | c, l :: ls => crun fixed H (cstep fixed H c l).1 ls

end Visitor
end Frp
