import Frp.Model.PluginChain
/-
  The gated call sites of frps as a small-step machine over HISTORIES (C15): several sessions, logins of
  every kind (empty run id, unknown run id, the run id of a live session = re-login / replacement, the
  run id of a session that ended), the same operation again and again, and a plugin manager that may be
  a different one at every step (the behaviour of a plugin may flip between two operations).

  Mirrors, as the code is:
    server/service.go  handleConnection (case *msg.Login) + RegisterControl, RegisterWorkConn
    server/control.go  ControlManager.Add/Del/GetByID, handleNewProxy (+ RegisterProxy's name check),
                       handlePing (chain, VerifyPing, `lastPing.Store`, Pong), NewControl (`lastPing.Store`),
                       heartbeatWorker (`time.Since(lastPing) > HeartbeatTimeout` ⇒ `conn.Close()`),
                       worker (session end)
    server/proxy/proxy.go handleUserTCPConnection

  Time is a logical clock (`Srv.now`, any unit; `Srv.hb` = transport.heartbeatTimeout in that unit): a
  `tick` lets it pass, `hbCheck` is one run of the periodic function of a session's heartbeatWorker.
  Where `lastPing.Store` stands in handlePing relative to the chain / VerifyPing / the `return` of the
  refusal branch is regenerated from the source on every run (translate/gen_pluginsitefacts.go →
  Frp/Gen/PluginSiteFacts.lean, `C15.code_ping_store_gated`).

  What the server decides after / apart from the plugins (token check, proxy configuration and listener,
  the random run id) enters as data of the message (`authOk`, `regOk`, `genId`): relational.

  Core Lean only.
-/
namespace Frp
namespace PluginSite
open PluginChain

/-- how the call sites build the plugin contents from a message and the session they belong to, and
    what they read back from the content the chain returned -/
structure Enc (C : Type) where
  /-- `&plugin.LoginContent{Login: *m, ClientAddress: …}`: the user and the other members of the
      message (the run id) -/
  login : Str → Str → C
  /-- `retContent.Login.User` (becomes `ctl.loginMsg.User`) -/
  loginUser : C → Str
  /-- `retContent.Login.RunID` -/
  loginRid : C → Str
  /-- `&plugin.NewProxyContent{User: {ctl.loginMsg.User…}, NewProxy: *inMsg}`: proxy name, user -/
  newProxy : Str → Str → C
  /-- `retContent.NewProxy.ProxyName` -/
  proxyName : C → Str
  /-- `&plugin.PingContent{User: {ctl.loginMsg.User…}, Ping: *inMsg}`: privilege key, user -/
  ping : Str → Str → C
  /-- `&plugin.NewWorkConnContent{User: {ctl.loginMsg.User…}, NewWorkConn: *newMsg}`: run id, user -/
  newWorkConn : Str → Str → C
  /-- `&plugin.NewUserConnContent{User: pxy.GetUserInfo(), ProxyName: pxy.GetName(), …}`: name, user -/
  newUserConn : Str → Str → C

/-- one `*Control` stored in the `ControlManager` -/
structure Ctl where
  slot : Nat            -- which control connection it serves (identity of the Control object)
  rid : Str             -- the key in `ctlsByRunID`
  user : Str            -- `ctl.loginMsg.User`: what every later plugin request of the session carries
  proxies : List Str    -- `ctl.proxies` (keys)
  lastPing : Nat := 0   -- `ctl.lastPing`: the time of the last `Store` (NewControl, handlePing)
  deriving DecidableEq, Repr

/-- `svr.ctlManager` (+ `svr.pxyManager`: the union of the `proxies`) -/
structure Srv where
  ctls : List Ctl := []
  now : Nat := 0        -- the clock (`time.Now()`)
  hb : Nat := 0         -- `serverCfg.Transport.HeartbeatTimeout` (≤ 0: no heartbeat worker)
  deriving DecidableEq, Repr

/-- what arrives at the server -/
inductive Msg
  /-- a Login message on a new connection `slot`.  `genId`: what `util.RandID()` would return,
      `authOk`: `authVerifier.VerifyLogin` of the (rewritten) message -/
  | login (slot : Nat) (user rid genId : Str) (authOk : Bool)
  /-- a NewProxy message on control connection `slot`.  `regOk`: everything `RegisterProxy` checks
      besides the name (configuration, listener) -/
  | newProxy (slot : Nat) (name : Str) (regOk : Bool)
  /-- a Ping message on control connection `slot` carrying this privilege key.  `authOk`:
      `authVerifier.VerifyPing` of the (rewritten) message -/
  | ping (slot : Nat) (key : Str) (authOk : Bool)
  /-- a NewWorkConn message (on a connection of its own) carrying this run id -/
  | newWorkConn (rid : Str)
  /-- a user connection accepted by the listener of proxy `name` -/
  | newUserConn (name : Str)
  /-- control connection `slot` ended: `Control.worker` closes every proxy, the session is deleted -/
  | connClosed (slot : Nat)
  /-- `d` units of time pass -/
  | tick (d : Nat)
  /-- the periodic function of the heartbeatWorker of the session on `slot` runs once -/
  | hbCheck (slot : Nat)
  deriving DecidableEq, Repr

/-- one visit of a gated call site -/
structure Ev (C : Type) where
  op : Op
  chain : List (Plugin C)       -- the slice the manager method ranged over
  offered : C                   -- the content the call site built
  res : Result C                -- what the manager method returned
  cons : List (Seen C)          -- the `Handle` calls it made
  proceeded : Bool              -- the server went on with the operation

def Srv.bySlot (s : Srv) (slot : Nat) : Option Ctl := s.ctls.find? (fun c => c.slot = slot)
/-- `ctlManager.GetByID` -/
def Srv.byRid (s : Srv) (rid : Str) : Option Ctl := s.ctls.find? (fun c => c.rid = rid)
/-- the session whose proxy is stored under `name` in `pxyManager` -/
def Srv.owner (s : Srv) (name : Str) : Option Ctl := s.ctls.find? (fun c => c.proxies.contains name)
/-- `pxyManager.Exist(name)` -/
def Srv.hasProxy (s : Srv) (name : Str) : Bool := s.ctls.any (fun c => c.proxies.contains name)

/-- `ctlManager.Add(runID, ctl)`: a Control stored under the same run id is `Replaced` (its
    connection is closed, `RegisterControl` waits until its worker has ended it) -/
def Srv.add (s : Srv) (c : Ctl) : Srv := { s with ctls := s.ctls.filter (fun o => o.rid ≠ c.rid) ++ [c] }

def Srv.addProxy (s : Srv) (slot : Nat) (n : Str) : Srv :=
  { s with ctls := s.ctls.map (fun c => if c.slot = slot then { c with proxies := c.proxies ++ [n] } else c) }

/-- `ctl.lastPing.Store(time.Now())` on the Control that serves `slot` -/
def Srv.beat (s : Srv) (slot : Nat) : Srv :=
  { s with ctls := s.ctls.map (fun c => if c.slot = slot then { c with lastPing := s.now } else c) }

/-- heartbeatWorker's test: `HeartbeatTimeout > 0` (else the worker returns at once) and
    `time.Since(ctl.lastPing) > HeartbeatTimeout` -/
def Srv.expired (s : Srv) (c : Ctl) : Bool := decide (0 < s.hb) && decide (s.hb < s.now - c.lastPing)

/-- one message, with the plugin manager as it is at that moment -/
def step {C : Type} (E : Enc C) (m : Manager C) (s : Srv) : Msg → Srv × List (Ev C)
  | .login slot user rid genId authOk =>
    -- handleConnection: content := &LoginContent{Login: *m, …}; retContent, err := pluginManager.Login(content)
    let c := E.login user rid
    let r := m.login c
    match r.1 with
    | .ok c' =>
      -- if err == nil { m = &retContent.Login; err = svr.RegisterControl(conn, m, internal) }
      -- RegisterControl: if loginMsg.RunID == "" { loginMsg.RunID = util.RandID() }; VerifyLogin;
      --                  NewControl (ctl.lastPing.Store(time.Now())); ctlManager.Add (replaces a live
      --                  one); ctl.Start (LoginResp)
      let rid' := if E.loginRid c' = [] then genId else E.loginRid c'
      if authOk then
        (s.add ⟨slot, rid', E.loginUser c', [], s.now⟩, [⟨.login, m.loginPlugins, c, r.1, r.2, true⟩])
      else (s, [⟨.login, m.loginPlugins, c, r.1, r.2, false⟩])
    | _ => (s, [⟨.login, m.loginPlugins, c, r.1, r.2, false⟩])     -- LoginResp{Error}, conn.Close()
  | .newProxy slot name regOk =>
    match s.bySlot slot with
    | none => (s, [])                                               -- nobody reads that connection
    | some ctl =>
      -- handleNewProxy: content := &NewProxyContent{User{ctl.loginMsg.User…}, NewProxy: *inMsg}
      let c := E.newProxy name ctl.user
      let r := m.newProxy c
      match r.1 with
      | .ok c' =>
        -- inMsg = &retContent.NewProxy; RegisterProxy(inMsg): … pxyManager.Exist(name) … Add
        let n := E.proxyName c'
        if regOk && !s.hasProxy n then
          (s.addProxy slot n, [⟨.newProxy, m.newProxyPlugins, c, r.1, r.2, true⟩])
        else (s, [⟨.newProxy, m.newProxyPlugins, c, r.1, r.2, false⟩])
      | _ => (s, [⟨.newProxy, m.newProxyPlugins, c, r.1, r.2, false⟩])
  | .ping slot key authOk =>
    match s.bySlot slot with
    | none => (s, [])
    | some ctl =>
      -- handlePing: content := &PingContent{User{ctl.loginMsg.User…}, Ping: *inMsg}
      --   retContent, err := pluginManager.Ping(content)
      --   if err == nil { inMsg = &retContent.Ping; err = authVerifier.VerifyPing(inMsg) }
      --   if err != nil { Send(&Pong{Error}); return }
      --   ctl.lastPing.Store(time.Now()); Send(&Pong{})
      let c := E.ping key ctl.user
      let r := m.ping c
      if r.1.isOk && authOk then
        (s.beat slot, [⟨.ping, m.pingPlugins, c, r.1, r.2, true⟩])
      else (s, [⟨.ping, m.pingPlugins, c, r.1, r.2, false⟩])
  | .newWorkConn rid =>
    -- RegisterWorkConn: ctl, exist := ctlManager.GetByID(newMsg.RunID); if !exist { return err }
    match s.byRid rid with
    | none => (s, [])
    | some ctl =>
      let c := E.newWorkConn rid ctl.user
      let r := m.newWorkConn c
      (s, [⟨.newWorkConn, m.newWorkConnPlugins, c, r.1, r.2, r.1.isOk⟩])   -- ctl.RegisterWorkConn(conn)
  | .newUserConn name =>
    match s.owner name with
    | none => (s, [])                                               -- no such listener
    | some ctl =>
      let c := E.newUserConn name ctl.user
      let r := m.newUserConn c
      (s, [⟨.newUserConn, m.newUserConnPlugins, c, r.1, r.2, r.1.isOk⟩])   -- GetWorkConnFromPool, join
  | .connClosed slot => ({ s with ctls := s.ctls.filter (fun c => c.slot ≠ slot) }, [])
  | .tick d => ({ s with now := s.now + d }, [])
  | .hbCheck slot =>
    -- heartbeatWorker: if time.Since(lastPing) > timeout { ctl.conn.Close() } — the dispatcher ends,
    -- `worker` closes every proxy, the session is deleted (as for connClosed)
    ({ s with ctls := s.ctls.filter (fun c => !(decide (c.slot = slot) && s.expired c)) }, [])

/-- a history: every message comes with the plugin manager of its moment -/
def run {C : Type} (E : Enc C) (s : Srv) : List (Manager C × Msg) → Srv × List (Ev C)
  | [] => (s, [])
  | (m, x) :: rest =>
    let r := step E m s x
    let t := run E r.1 rest
    (t.1, r.2 ++ t.2)

/-- the encoding used by the correspondence engine over `Content` (two visible members per op, see
    harness/eng_plugin.go).  For Login `b` stands for the members of the message other than the user —
    the run id among them —: every scripted behaviour either copies them all or zeroes them all. -/
def encContent : Enc Content where
  login := fun u r => ⟨u, r⟩
  loginUser := fun c => c.a
  loginRid := fun c => c.b
  newProxy := fun n u => ⟨n, u⟩
  proxyName := fun c => c.a
  ping := fun k u => ⟨k, u⟩
  newWorkConn := fun r u => ⟨r, u⟩
  newUserConn := fun n _ => ⟨n, []⟩

end PluginSite
end Frp
