import Frp.Model.PluginChain
/-
  The gated call sites of frps as a small-step machine over HISTORIES (C15): several sessions, logins of
  every kind (empty run id, unknown run id, the run id of a live session = re-login / replacement, the
  run id of a session that ended), the same operation again and again, and a plugin manager that may be
  a different one at every step (the behaviour of a plugin may flip between two operations).

  Mirrors, as the code is:
    server/service.go  handleConnection (case *msg.Login) + RegisterControl, RegisterWorkConn
    server/control.go  ControlManager.Add/Del/GetByID, handleNewProxy (+ RegisterProxy's name check),
                       handlePing (chain, VerifyPing, `lastPing.Store`, Pong), NewControl (`lastPing.Store`),
                       heartbeatWorker (`time.Since(lastPing) > HeartbeatTimeout` ⇒ `conn.Close()`),
                       worker (session end)
    server/proxy/proxy.go handleUserTCPConnection

  Time is a logical clock (`Srv.now`, any unit; `Srv.hb` = transport.heartbeatTimeout in that unit): a
  `tick` lets it pass, `hbCheck` is one run of the periodic function of a session's heartbeatWorker.
  Where `lastPing.Store` stands in handlePing relative to the chain / VerifyPing / the `return` of the
  refusal branch is regenerated from the source on every run (translate/gen_pluginsitefacts.go →
  Frp/Gen/PluginSiteFacts.lean, `C15.code_ping_store_gated`).

  What the server decides after / apart from the plugins (token check, proxy configuration and listener,
  the random run id) enters as data of the message (`authOk`, `regOk`, `genId`): relational.

  Core Lean only.
-/
namespace Frp
namespace PluginSite
open PluginChain

/-- how the call sites build the plugin contents from a message and the session they belong to, and
    what they read back from the content the chain returned -/
structure Enc (C : Type) where
  /-- `&plugin.LoginContent{Login: *m, ClientAddress: …}`: the user and the other members of the
      message (the run id) -/
  login : Str → Str → C
  /-- `retContent.Login.User` (becomes `ctl.loginMsg.User`) -/
  loginUser : C → Str
  /-- `retContent.Login.RunID` -/
  loginRid : C → Str
  /-- `&plugin.NewProxyContent{User: {ctl.loginMsg.User…}, NewProxy: *inMsg}`: proxy name, user -/
  newProxy : Str → Str → C
  /-- `retContent.NewProxy.ProxyName` -/
  proxyName : C → Str
  /-- `&plugin.PingContent{User: {ctl.loginMsg.User…}, Ping: *inMsg}`: privilege key, user -/
  ping : Str → Str → C
  /-- `&plugin.NewWorkConnContent{User: {ctl.loginMsg.User…}, NewWorkConn: *newMsg}`: the credentials the
      message carries (privilege key + timestamp), user -/
  newWorkConn : Str → Str → C
  /-- `retContent.Ping.PrivilegeKey` / `.Timestamp`: what `VerifyPing(inMsg)` reads after `inMsg = &retContent.Ping` -/
  pingCred : C → Str
  /-- `retContent.NewWorkConn.PrivilegeKey` / `.Timestamp`: what `VerifyNewWorkConn(newMsg)` reads after
      `newMsg = &retContent.NewWorkConn` -/
  workCred : C → Str
  /-- `&plugin.NewUserConnContent{User: pxy.GetUserInfo(), ProxyName: pxy.GetName(), …}`: name, user -/
  newUserConn : Str → Str → C

/-- one `*Control` stored in the `ControlManager` -/
structure Ctl where
  slot : Nat            -- which control connection it serves (identity of the Control object)
  rid : Str             -- the key in `ctlsByRunID`
  user : Str            -- `ctl.loginMsg.User`: what every later plugin request of the session carries
  proxies : List Str    -- `ctl.proxies` (keys)
  lastPing : Nat := 0   -- `ctl.lastPing`: the time of the last `Store` (NewControl, handlePing)
  deriving DecidableEq, Repr

/-- `svr.ctlManager` (+ `svr.pxyManager`: the union of the `proxies`) -/
structure Srv where
  ctls : List Ctl := []
  now : Nat := 0        -- the clock (`time.Now()`)
  hb : Nat := 0         -- `serverCfg.Transport.HeartbeatTimeout` (≤ 0: no heartbeat worker)
  deriving DecidableEq, Repr

/-- what arrives at the server -/
inductive Msg
  /-- a Login message on a new connection `slot`.  `genId`: what `util.RandID()` would return,
      `authOk`: `authVerifier.VerifyLogin` of the (rewritten) message -/
  | login (slot : Nat) (user rid genId : Str) (authOk : Bool)
  /-- a NewProxy message on control connection `slot`.  `regOk`: everything `RegisterProxy` checks
      besides the name (configuration, listener) -/
  | newProxy (slot : Nat) (name : Str) (regOk : Bool)
  /-- a Ping message on control connection `slot` carrying this privilege key.  `authOk`:
      `authVerifier.VerifyPing` of the (rewritten) message -/
  | ping (slot : Nat) (key : Str) (authOk : Bool)
  /-- a NewWorkConn message (on a connection of its own) carrying this run id and these credentials.
      `authOk`: `authVerifier.VerifyNewWorkConn` of the (rewritten) message -/
  | newWorkConn (rid cred : Str) (authOk : Bool)
  /-- a user connection accepted by the listener of proxy `name` -/
  | newUserConn (name : Str)
  /-- control connection `slot` ended: `Control.worker` closes every proxy, the session is deleted -/
  | connClosed (slot : Nat)
  /-- `d` units of time pass -/
  | tick (d : Nat)
  /-- the periodic function of the heartbeatWorker of the session on `slot` runs once -/
  | hbCheck (slot : Nat)
  deriving DecidableEq, Repr

/-- one visit of a gated call site -/
structure Ev (C : Type) where
  op : Op
  chain : List (Plugin C)       -- the slice the manager method ranged over
  offered : C                   -- the content the call site built
  res : Result C                -- what the manager method returned
  cons : List (Seen C)          -- the `Handle` calls it made
  proceeded : Bool              -- the server went on with the operation

def Srv.bySlot (s : Srv) (slot : Nat) : Option Ctl := s.ctls.find? (fun c => c.slot = slot)
/-- `ctlManager.GetByID` -/
def Srv.byRid (s : Srv) (rid : Str) : Option Ctl := s.ctls.find? (fun c => c.rid = rid)
/-- the session whose proxy is stored under `name` in `pxyManager` -/
def Srv.owner (s : Srv) (name : Str) : Option Ctl := s.ctls.find? (fun c => c.proxies.contains name)
/-- `pxyManager.Exist(name)` -/
def Srv.hasProxy (s : Srv) (name : Str) : Bool := s.ctls.any (fun c => c.proxies.contains name)

/-- `ctlManager.Add(runID, ctl)`: a Control stored under the same run id is `Replaced` (its
    connection is closed, `RegisterControl` waits until its worker has ended it) -/
def Srv.add (s : Srv) (c : Ctl) : Srv := { s with ctls := s.ctls.filter (fun o => o.rid ≠ c.rid) ++ [c] }

def Srv.addProxy (s : Srv) (slot : Nat) (n : Str) : Srv :=
  { s with ctls := s.ctls.map (fun c => if c.slot = slot then { c with proxies := c.proxies ++ [n] } else c) }

/-- `ctl.lastPing.Store(time.Now())` on the Control that serves `slot` -/
def Srv.beat (s : Srv) (slot : Nat) : Srv :=
  { s with ctls := s.ctls.map (fun c => if c.slot = slot then { c with lastPing := s.now } else c) }

/-- heartbeatWorker's test: `HeartbeatTimeout > 0` (else the worker returns at once) and
    `time.Since(ctl.lastPing) > HeartbeatTimeout` -/
def Srv.expired (s : Srv) (c : Ctl) : Bool := decide (0 < s.hb) && decide (s.hb < s.now - c.lastPing)

/-- one message, with the plugin manager as it is at that moment -/
def step {C : Type} (E : Enc C) (m : Manager C) (s : Srv) : Msg → Srv × List (Ev C)
  | .login slot user rid genId authOk =>
    -- handleConnection: content := &LoginContent{Login: *m, …}; retContent, err := pluginManager.Login(content)
    let c := E.login user rid
    let r := m.login c
    match r.1 with
    | .ok c' =>
      -- if err == nil { m = &retContent.Login; err = svr.RegisterControl(conn, m, internal) }
      -- RegisterControl: if loginMsg.RunID == "" { loginMsg.RunID = util.RandID() }; VerifyLogin;
      --                  NewControl (ctl.lastPing.Store(time.Now())); ctlManager.Add (replaces a live
      --                  one); ctl.Start (LoginResp)
      let rid' := if E.loginRid c' = [] then genId else E.loginRid c'
      if authOk then
        (s.add ⟨slot, rid', E.loginUser c', [], s.now⟩, [⟨.login, m.loginPlugins, c, r.1, r.2, true⟩])
      else (s, [⟨.login, m.loginPlugins, c, r.1, r.2, false⟩])
    | _ => (s, [⟨.login, m.loginPlugins, c, r.1, r.2, false⟩])     -- LoginResp{Error}, conn.Close()
  | .newProxy slot name regOk =>
    match s.bySlot slot with
    | none => (s, [])                                               -- nobody reads that connection
    | some ctl =>
      -- handleNewProxy: content := &NewProxyContent{User{ctl.loginMsg.User…}, NewProxy: *inMsg}
      let c := E.newProxy name ctl.user
      let r := m.newProxy c
      match r.1 with
      | .ok c' =>
        -- inMsg = &retContent.NewProxy; RegisterProxy(inMsg): … pxyManager.Exist(name) … Add
        let n := E.proxyName c'
        if regOk && !s.hasProxy n then
          (s.addProxy slot n, [⟨.newProxy, m.newProxyPlugins, c, r.1, r.2, true⟩])
        else (s, [⟨.newProxy, m.newProxyPlugins, c, r.1, r.2, false⟩])
      | _ => (s, [⟨.newProxy, m.newProxyPlugins, c, r.1, r.2, false⟩])
  | .ping slot key authOk =>
    match s.bySlot slot with
    | none => (s, [])
    | some ctl =>
      -- handlePing: content := &PingContent{User{ctl.loginMsg.User…}, Ping: *inMsg}
      --   retContent, err := pluginManager.Ping(content)
      --   if err == nil { inMsg = &retContent.Ping; err = authVerifier.VerifyPing(inMsg) }
      --   if err != nil { Send(&Pong{Error}); return }
      --   ctl.lastPing.Store(time.Now()); Send(&Pong{})
      let c := E.ping key ctl.user
      let r := m.ping c
      if r.1.isOk && authOk then
        (s.beat slot, [⟨.ping, m.pingPlugins, c, r.1, r.2, true⟩])
      else (s, [⟨.ping, m.pingPlugins, c, r.1, r.2, false⟩])
  | .newWorkConn rid cred authOk =>
    -- RegisterWorkConn: ctl, exist := ctlManager.GetByID(newMsg.RunID); if !exist { return err }
    match s.byRid rid with
    | none => (s, [])
    | some ctl =>
      --   content := &NewWorkConnContent{User{ctl.loginMsg.User…}, NewWorkConn: *newMsg}
      --   retContent, err := pluginManager.NewWorkConn(content)
      --   if err == nil { newMsg = &retContent.NewWorkConn; err = authVerifier.VerifyNewWorkConn(newMsg) }
      --   if err != nil { WriteMsg(&StartWorkConn{Error}); return err }
      --   return ctl.RegisterWorkConn(workConn)
      let c := E.newWorkConn cred ctl.user
      let r := m.newWorkConn c
      (s, [⟨.newWorkConn, m.newWorkConnPlugins, c, r.1, r.2, r.1.isOk && authOk⟩])
  | .newUserConn name =>
    match s.owner name with
    | none => (s, [])                                               -- no such listener
    | some ctl =>
      let c := E.newUserConn name ctl.user
      let r := m.newUserConn c
      (s, [⟨.newUserConn, m.newUserConnPlugins, c, r.1, r.2, r.1.isOk⟩])   -- GetWorkConnFromPool, join
  | .connClosed slot => ({ s with ctls := s.ctls.filter (fun c => c.slot ≠ slot) }, [])
  | .tick d => ({ s with now := s.now + d }, [])
  | .hbCheck slot =>
    -- heartbeatWorker: if time.Since(lastPing) > timeout { ctl.conn.Close() } — the dispatcher ends,
    -- `worker` closes every proxy, the session is deleted (as for connClosed)
    ({ s with ctls := s.ctls.filter (fun c => !(decide (c.slot = slot) && s.expired c)) }, [])

/-- a history: every message comes with the plugin manager of its moment -/
def run {C : Type} (E : Enc C) (s : Srv) : List (Manager C × Msg) → Srv × List (Ev C)
  | [] => (s, [])
  | (m, x) :: rest =>
    let r := step E m s x
    let t := run E r.1 rest
    (t.1, r.2 ++ t.2)

/-! ### the credential check as a function of what the chain returned

  `step` takes the verdicts of VerifyLogin / VerifyPing / VerifyNewWorkConn as data of the message (`authOk`).  For
  Ping and NewWorkConn the relation is closed here: pkg/auth/token.go checks `privilege_key == md5(token + timestamp)`
  only when the scope (HeartBeats / NewWorkConns) is configured — a pure function of the credentials of the message it
  is handed, and the message it is handed is the one the chain RETURNED (`inMsg = &retContent.Ping`, `newMsg =
  &retContent.NewWorkConn`; the statement order is regenerated from the source, `C15.code_chain_then_verify`). -/

/-- per additional auth scope the credentials the verifier accepts; `none`: the scope is not configured, `Verify…`
    returns nil whatever the message says -/
structure Auth where
  ping : Option (List Str) := none      -- auth.additionalScopes ∋ HeartBeats
  work : Option (List Str) := none      -- auth.additionalScopes ∋ NewWorkConns
  deriving DecidableEq, Repr

def Auth.accepts (valid : Option (List Str)) (cred : Str) : Bool :=
  match valid with
  | none => true
  | some v => v.contains cred

/-- what a peer sends: no verdict in it -/
inductive Req
  | ping (slot : Nat) (cred : Str)
  | newWorkConn (rid cred : Str)
  deriving DecidableEq, Repr

/-- `authVerifier.VerifyPing(inMsg)` at the place where handlePing calls it: on the content the Ping chain returned
    (nothing to verify when there is no such session or the chain refused: the verifier is not reached) -/
def pingVerdict {C : Type} (E : Enc C) (A : Auth) (m : Manager C) (s : Srv) (slot : Nat) (cred : Str) : Bool :=
  match s.bySlot slot with
  | none => false
  | some ctl =>
    match (m.ping (E.ping cred ctl.user)).1 with
    | .ok c' => Auth.accepts A.ping (E.pingCred c')
    | _ => false

/-- `authVerifier.VerifyNewWorkConn(newMsg)` at the place where RegisterWorkConn calls it -/
def workVerdict {C : Type} (E : Enc C) (A : Auth) (m : Manager C) (s : Srv) (rid cred : Str) : Bool :=
  match s.byRid rid with
  | none => false
  | some ctl =>
    match (m.newWorkConn (E.newWorkConn cred ctl.user)).1 with
    | .ok c' => Auth.accepts A.work (E.workCred c')
    | _ => false

/-- one request of a peer on a server with the credential check `A` -/
def stepReq {C : Type} (E : Enc C) (A : Auth) (m : Manager C) (s : Srv) : Req → Srv × List (Ev C)
  | .ping slot cred => step E m s (.ping slot cred (pingVerdict E A m s slot cred))
  | .newWorkConn rid cred => step E m s (.newWorkConn rid cred (workVerdict E A m s rid cred))

/-! ### occurrences in flight at the same time

  Every user connection is served by a goroutine of its own (`go pxy.handleUserTCPConnection(c)` in the accept loop),
  every work connection / login by the goroutine of its connection (`handleConnection`), Pings and NewProxys by the
  dispatcher goroutine of their session.  Each of them runs the manager loop by itself, on a content of its own; the
  loop keeps nothing between two calls.  `Flight` is such a goroutine stopped between two `Handle` calls (a plugin
  may take its time to answer), `Pool` a set of them, a schedule says whose plugin answers next. -/

/-- one occurrence of a gated operation on its way through the manager loop -/
structure Flight (C : Type) where
  op : Op
  rest : List (Plugin C)              -- the plugins it still has to ask, as they will answer THIS occurrence
  cur : C                             -- the content the next one is handed
  res : Option (Result C) := none     -- what the manager method returned, once it has
  cons : List (Seen C) := []          -- the `Handle` calls it made so far

def Flight.start {C : Type} (op : Op) (chain : List (Plugin C)) (c : C) : Flight C :=
  { op := op, rest := chain, cur := c }

/-- the `Handle` call the goroutine is about to make / is waiting in -/
def Flight.asks {C : Type} (f : Flight C) : Option (Seen C) :=
  match f.res, f.rest with
  | none, p :: _ => some (p.id, f.cur)
  | _, _ => none

/-- the next plugin answers: one iteration of the manager loop (`gated`), or its final `return content, nil` -/
def Flight.advance {C : Type} (f : Flight C) : Flight C :=
  match f.res with
  | some _ => f
  | none =>
    match f.rest with
    | [] => { f with res := some (.ok f.cur) }
    | p :: ps =>
      match p.handle f.op f.cur with
      | .err => { f with rest := [], res := some (.error (errMsg f.op)), cons := f.cons ++ [(p.id, f.cur)] }
      | .resp reject reason unchange content =>
        if reject then { f with rest := [], res := some (.error reason), cons := f.cons ++ [(p.id, f.cur)] }
        else if unchange then { f with rest := ps, cons := f.cons ++ [(p.id, f.cur)] }
        else
          match content with
          | none => { f with rest := [], res := some .panic, cons := f.cons ++ [(p.id, f.cur)] }
          | some c' => { f with rest := ps, cur := c', cons := f.cons ++ [(p.id, f.cur)] }

def Flight.advanceN {C : Type} : Nat → Flight C → Flight C
  | 0, f => f
  | n + 1, f => Flight.advanceN n f.advance

def modAt {α : Type} (f : α → α) : Nat → List α → List α
  | _, [] => []
  | 0, x :: xs => f x :: xs
  | i + 1, x :: xs => x :: modAt f i xs

/-- the occurrences in flight -/
abbrev Pool (C : Type) := List (Flight C)

/-- a schedule: at every step the plugin asked by occurrence `i` answers -/
def Pool.run {C : Type} (P : Pool C) : List Nat → Pool C
  | [] => P
  | i :: sched => Pool.run (modAt Flight.advance i P) sched

/-- what the plugins' side sees of a schedule: who was asked what, tagged with the occurrence, in global order -/
def Pool.log {C : Type} (P : Pool C) : List Nat → List (Nat × Seen C)
  | [] => []
  | i :: sched =>
    (match (P[i]?).bind Flight.asks with
      | some e => [(i, e)]
      | none => []) ++ Pool.log (modAt Flight.advance i P) sched

/-- the encoding used by the correspondence engine over `Content` (two visible members per op, see
    harness/eng_plugin.go).  For Login `b` stands for the members of the message other than the user —
    the run id among them —: every scripted behaviour either copies them all or zeroes them all. -/
def encContent : Enc Content where
  login := fun u r => ⟨u, r⟩
  loginUser := fun c => c.a
  loginRid := fun c => c.b
  newProxy := fun n u => ⟨n, u⟩
  proxyName := fun c => c.a
  ping := fun k u => ⟨k, u⟩
  newWorkConn := fun k u => ⟨k, u⟩
  newUserConn := fun n _ => ⟨n, []⟩
  pingCred := fun c => c.a
  workCred := fun c => c.a

end PluginSite
end Frp
