/-
  Client proxy wrapper phase machine — client/proxy/proxy_wrapper.go.

  One `Wrapper` = one configured proxy on the client.  Its state is changed by
    * the periodic worker `checkWorker` (one loop iteration = event `tick now`),
    * `SetRunningStatus` (the server's NewProxyResp, event `startResp now respErr`; whether the
      local `pxy.Run()` fails is a property of the configuration: `cfg.runFails`),
    * the health monitor callbacks `statusNormalCallback` / `statusFailedCallback`
      (events `healthUp` / `healthDown`: they store the flag; the wake-up of the worker is a
      separate `tick`),
    * `Stop` (event `stop`), and
    * `InWorkConn` (event `inWorkConn`, does not change the state).
  Messages handed to the event handler (`NewProxy` / `CloseProxy`) are the step's output.
  Times are milliseconds on an arbitrary clock.
-/
namespace Frp
namespace Wrapper

/-- WorkingStatus.Phase -/
inductive Phase
  | new | waitStart | startErr | running | checkFailed | closed
  deriving DecidableEq, Repr

/-- messages given to `pw.handler` (→ Manager.HandleEvent → msgTransporter.Send) -/
inductive Msg
  | newProxy | closeProxy
  deriving DecidableEq, Repr

/-- a proxy configuration as far as manager and wrapper look at it: the name (key of the diff),
    everything else collapsed into `variant` (two configurations are `reflect.DeepEqual` iff all
    four components agree), and the two facts NewWrapper / Run read from it. -/
structure Cfg where
  name : Nat
  variant : Nat
  health : Bool      -- `HealthCheck.Type != "" && LocalPort > 0` ⇒ monitor, initial health = 1
  runFails : Bool    -- `pxy.Run()` returns an error (e.g. unknown plugin type)
  deriving DecidableEq, Repr

structure W where
  cfg : Cfg
  id : Nat := 0              -- identity of the wrapper object (creation stamp given by the manager)
  phase : Phase := .new
  health : Nat := 0          -- pw.health: 0 healthy, 1 failed
  lastSend : Nat := 0        -- lastSendStartMsg
  lastErr : Nat := 0         -- lastStartErr
  deriving DecidableEq, Repr

/-- package vars of proxy_wrapper.go, in ms -/
def statusCheckInterval : Nat := 3000
def waitResponseTimeout : Nat := 20000
def startErrTimeout : Nat := 30000

/-- NewWrapper -/
def mk (cfg : Cfg) (id : Nat) : W :=
  { cfg := cfg, id := id, phase := .new, health := if cfg.health then 1 else 0 }

inductive Event
  | tick (now : Nat)
  | startResp (now : Nat) (respErr : Bool)
  | healthUp
  | healthDown
  | stop
  | inWorkConn
  deriving DecidableEq, Repr

/-- what the caller of the operation sees -/
inductive Res
  | none
  | ok | notWait | respErr | runErr      -- SetRunningStatus: nil / "status not wait start" / server error / Run() error
  | handed | closed                      -- InWorkConn: given to pxy.InWorkConn / workConn.Close()
  | doubleStop                           -- Stop on a stopped wrapper: close of closed channel (panic)
  deriving DecidableEq, Repr

/-- the condition under which one iteration of `checkWorker` (re)sends NewProxy -/
def wantsStart (w : W) (now : Nat) : Bool :=
  w.phase == .new || w.phase == .checkFailed ||
  (w.phase == .waitStart && decide (w.lastSend + waitResponseTimeout < now)) ||
  (w.phase == .startErr && decide (w.lastErr + startErrTimeout < now))

def step (w : W) : Event → W × List Msg × Res
  | .tick now =>
    if w.health = 0 then
      if wantsStart w now then
        ({ w with phase := .waitStart, lastSend := now }, [.newProxy], .none)
      else (w, [], .none)
    else
      if w.phase = .running ∨ w.phase = .waitStart then
        ({ w with phase := .checkFailed }, [.closeProxy], .none)
      else (w, [], .none)
  | .startResp now respErr =>
    if w.phase ≠ .waitStart then (w, [], .notWait)
    else if respErr then ({ w with phase := .startErr, lastErr := now }, [], .respErr)
    else if w.cfg.runFails then
      ({ w with phase := .startErr, lastErr := now }, [.closeProxy], .runErr)
    else ({ w with phase := .running }, [], .ok)
  | .healthUp => ({ w with health := 0 }, [], .none)
  | .healthDown => ({ w with health := 1 }, [], .none)
  | .stop =>
    if w.phase = .closed then (w, [], .doubleStop)
    else ({ w with phase := .closed }, [.closeProxy], .none)
  | .inWorkConn =>
    if w.phase = .running then (w, [], .handed) else (w, [], .closed)

/-- run a list of events, collecting the messages and results -/
def run : W → List Event → W × List Msg × List Res
  | w, [] => (w, [], [])
  | w, e :: es =>
    let (w1, m1, r1) := step w e
    let (w2, m2, r2) := run w1 es
    (w2, m1 ++ m2, r1 :: r2)

/-- `Start()`: the worker goroutine's first iteration -/
def start (w : W) (now : Nat) : W × List Msg := let r := step w (.tick now); (r.1, r.2.1)

end Wrapper
end Frp
