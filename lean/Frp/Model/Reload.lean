import Frp.Model.Tunnel
/-
  C01 — which backend a proxy's NEW connections are bridged to while frpc is re-configured, and which addresses the
  StartWorkConn message of a user connection carries while other user connections of the same proxy are in flight.

    client/proxy/proxy_manager.go  Manager.UpdateAll        lo.KeyBy; loop 1: `!ok || !reflect.DeepEqual(pxy.Cfg, cfg)` ⇒
                                                            delete(pm.proxies, name); pxy.Stop(); loop 2: every configured
                                                            name that is not running: NewWrapper(proxyCfgsMap[name]); Start → `updateAll`
    client/proxy/proxy_wrapper.go  NewWrapper               `Cfg: cfg` … `pw.pxy = NewProxy(pw.ctx, pw.Cfg, …)`            → `Wrapper.new`
    client/proxy/proxy.go          NewProxy                 `baseCfg: pxyConf.GetBaseConfig()` (a pointer INTO the configurer) → `Wrapper.run`
    client/proxy/proxy.go          HandleTCPWorkConnection  dials `pxy.baseCfg.LocalIP:LocalPort` / hands to the plugin created
                                                            from `pxy.baseCfg.Plugin`; header version `pxy.baseCfg.Transport.ProxyProtocolVersion` → `dialled`
    server/proxy/proxy.go          GetWorkConnFromPool      `msg.WriteMsg(workConn, &msg.StartWorkConn{… locals …})`         → `WorkMsg.step`
-/
namespace Frp
namespace Reload

/-- one proxy of a client configuration, as far as C01 is concerned -/
structure Cfg where
  name : Nat
  /-- localIP:localPort, or the plugin's target — never sent to frps -/
  backend : Nat
  /-- 0: frpc dials the backend, 1: a plugin does — never sent to frps -/
  via : Nat
  /-- transport.proxyProtocolVersion (0 none, 1 v1, 2 v2) — never sent to frps -/
  ppv : Nat
  /-- everything that goes into the NewProxy message (remotePort, customDomains, useEncryption, …) -/
  remote : Nat
  deriving DecidableEq, Repr

/-- proxy.Wrapper: `Cfg` (what UpdateAll compares, what GetStatus reports) and the configuration the running
    BaseProxy reads on every work connection (`pw.pxy`'s `baseCfg`, fixed when the wrapper is made) -/
structure Wrapper where
  cfg : Cfg
  run : Cfg
  deriving DecidableEq, Repr

/-- NewWrapper(cfg): `Cfg: cfg`, `pw.pxy = NewProxy(pw.ctx, pw.Cfg, …)` -/
def Wrapper.new (c : Cfg) : Wrapper := { cfg := c, run := c }

/-- `pm.proxies` -/
abbrev Table := List (Nat × Wrapper)

def lookup (T : Table) (n : Nat) : Option Wrapper := (T.find? (fun p => p.1 = n)).map (·.2)

/-- lo.KeyBy(proxyCfgs, name): a later entry of a name replaces the earlier one -/
def keyBy : List Cfg → Nat → Option Cfg
  | [], _ => none
  | c :: cs, n =>
    match keyBy cs n with
    | some d => some d
    | none => if c.name = n then some c else none

/-- what loop 1 does with a running wrapper whose name is configured as `c`: `some w'` = it stays (as w'),
    `none` = deleted and stopped.  The code: stays iff `reflect.DeepEqual(pxy.Cfg, cfg)`, untouched. -/
def keepReal (w : Wrapper) (c : Cfg) : Option Wrapper := if w.cfg = c then some w else none

/-- SENSITIVITY only (not the code): a change frps would not see is taken over "in place" — `pw.Cfg = cfg` —
    and the proxy keeps running -/
def keepInPlace (w : Wrapper) (c : Cfg) : Option Wrapper :=
  if w.cfg = c then some w
  else if w.cfg.remote = c.remote ∧ w.cfg.name = c.name ∧ w.cfg.via = 0 ∧ c.via = 0 then some { w with cfg := c }
  else none

def delStep (keep : Wrapper → Cfg → Option Wrapper) (cs : List Cfg) (p : Nat × Wrapper) : Option (Nat × Wrapper) :=
  match keyBy cs p.1 with
  | none => none
  | some c => (keep p.2 c).map fun w => (p.1, w)

/-- loop 1 -/
def delLoop (keep : Wrapper → Cfg → Option Wrapper) (cs : List Cfg) (T : Table) : Table := T.filterMap (delStep keep cs)

def hasKey (T : Table) (n : Nat) : Bool := T.any fun p => p.1 == n

/-- loop 2 over the configured entries in order; `all` = the whole list (for `proxyCfgsMap[name]`) -/
def addLoop (all : List Cfg) : List Cfg → Table → Table
  | [], T => T
  | c :: rest, T =>
    if hasKey T c.name then addLoop all rest T
    else addLoop all rest (T ++ [(c.name, Wrapper.new ((keyBy all c.name).getD c))])

def updateAllWith (keep : Wrapper → Cfg → Option Wrapper) (T : Table) (cs : List Cfg) : Table :=
  addLoop cs cs (delLoop keep cs T)

/-- Manager.UpdateAll -/
def updateAll (T : Table) (cs : List Cfg) : Table := updateAllWith keepReal T cs

/-- a history of reloads -/
def runHist (T : Table) (hs : List (List Cfg)) : Table := hs.foldl updateAll T

/-- a new work connection of proxy n: (backend, via, header version) the running proxy uses -/
def dialled (T : Table) (n : Nat) : Option (Nat × Nat × Nat) :=
  (lookup T n).map fun w => (w.run.backend, w.run.via, w.run.ppv)

end Reload

/-! ### StartWorkConn of one user connection while others of the same proxy are in flight -/
namespace WorkMsg
open Tunnel

/-- a user connection accepted by the proxy's listener: `userConn.RemoteAddr()`, `userConn.LocalAddr()` -/
structure Conn where
  src : Option Addr
  dst : Option Addr
  deriving DecidableEq, Repr

/-- the two moments of `GetWorkConnFromPool(src, dst)` that matter, per user connection: the message is built, the
    message is written to the work connection that was obtained (arbitrarily later: `getWorkConnFn` waits for frpc) -/
inductive Ev
  | fill (i : Nat)
  | send (i : Nat)
  deriving DecidableEq, Repr

structure St where
  /-- a message that belongs to the PROXY — the code has none; only the `shared` variant uses it -/
  tmpl : Option StartWorkConn
  /-- the message in the locals of connection i's goroutine -/
  own : List (Nat × StartWorkConn)
  /-- (connection, message written to its work connection) in the order of writing -/
  sent : List (Nat × StartWorkConn)
  deriving Repr

def St.init : St := { tmpl := none, own := [], sent := [] }

def ownOf (s : St) (i : Nat) : Option StartWorkConn := (s.own.find? (fun p => p.1 = i)).map (·.2)

/-- `shared = false` is the code: `&msg.StartWorkConn{ProxyName: pxy.GetName(), SrcAddr: srcAddr, …}` from locals.
    `shared = true` (SENSITIVITY only): the message is a field of the proxy that every call fills in. -/
def step (shared : Bool) (name : Str) (cs : List Conn) (s : St) : Ev → St
  | .fill i =>
    match cs[i]? with
    | none => s
    | some c =>
      let m := startMsg name c.src c.dst
      if shared then { s with tmpl := some m } else { s with own := (i, m) :: s.own }
  | .send i =>
    match (if shared then s.tmpl else ownOf s i) with
    | some m => { s with sent := s.sent ++ [(i, m)] }
    | none => s

def run (shared : Bool) (name : Str) (cs : List Conn) (evs : List Ev) : St := evs.foldl (step shared name cs) St.init

end WorkMsg
end Frp
