import Frp.Model.Watchdog
import Frp.Model.Liveness
/-
  The client's message dispatcher in front of the heartbeat watchdog: who reads the Pongs.

  pkg/msg/handler.go
    readLoop : for { m, err := ReadMsg(rw); …; handler(m) }   -- the handler runs INSIDE the read loop:
                                                              -- while it has not returned nothing else is read
    AsyncHandler(f) = func(m) { go f(m) }                     -- … unless it was registered through AsyncHandler
  client/control.go
    registerMsgHandlers : ReqWorkConn ↦ AsyncHandler(handleReqWorkConn); NewProxyResp, NatHoleResp, Pong ↦ plain
    handleReqWorkConn   : workConn := connectServer(); WriteMsg(workConn, NewWorkConn)
                          ReadMsgInto(workConn, &StartWorkConn)    -- blocks until frps hands this work connection
                                                                   -- to a user (or closes it): an IDLE pooled work
                                                                   -- connection keeps its handler waiting
                          pm.HandleWorkConn(…)
    handlePong          : Error != "" ⇒ closeSession(); else lastPong = time.Now()     (never waits)
    handleNewProxyResp / handleNatHoleResp : local bookkeeping, return               (never wait)
                          -- none of handleReqWorkConn / handleNewProxyResp / handleNatHoleResp stores lastPong:
                          -- `policy` (Frp/Model/Liveness.lean) says which handlers do; frp's is strict
    heartbeatWorker     : every 1 s: time.Since(lastPong) > timeout ⇒ closeSession()

  `asyncReq` is how the ReqWorkConn handler is registered (frp: true).  Work connections are numbered in
  the order their requests are handled.  The model covers one session while its control connection is
  up; once the watchdog (or a Pong carrying an error) has closed the session nothing moves any more.
  Time stamps as in `Watchdog` (`handlePong` stores the time at which the Pong is HANDLED, not sent).
-/
namespace Frp
namespace Dispatch

/-- a control message as the client's dispatcher sees it -/
inductive Msg
  | pong (valid : Bool)     -- valid = Error == ""
  | reqWork                 -- ReqWorkConn
  | other (k : Nat)         -- NewProxyResp / NatHoleResp (k = place in registerMsgHandlers): the handler returns
                            -- without waiting for anybody
deriving Repr, DecidableEq

inductive Reader
  | idle                    -- blocked in ReadMsg (ready to take the next message)
  | waiting (w : Nat)       -- inside a plain handleReqWorkConn, blocked in ReadMsgInto(work connection w)
deriving Repr, DecidableEq

structure Cfg where
  wd       : Watchdog.Cfg
  asyncReq : Bool           -- ReqWorkConn is registered through msg.AsyncHandler
  policy   : Liveness.Policy := {}   -- which handlers store lastPong (frp: only handlePong, after its Error branch)
deriving Repr, DecidableEq

/-- ReqWorkConn's place in the client's registerMsgHandlers -/
def reqKind : Nat := 0

structure St where
  inbox  : List Msg := []            -- written by the server, not yet returned by ReadMsg
  reader : Reader := .idle
  flying : List Nat := []            -- AsyncHandler goroutines, each waiting on its idle work connection
  nextW  : Nat := 0                  -- work connections opened so far
  wd     : Watchdog.St := { last := 0 }   -- lastPong / closed
deriving Repr, DecidableEq

inductive Lbl
  | send (m : Msg)          -- the server writes a message on the control connection
  | read                    -- readLoop: ReadMsg returns the oldest unread message and its handler is invoked
  | release (w : Nat)       -- StartWorkConn arrives on work connection w (a user connected), or frps closes it
  | check                   -- one firing of the 1 s heartbeat checker
deriving Repr, DecidableEq

/-- the handler of message `m`, invoked by the read loop at time `t` -/
def handle (c : Cfg) (s : St) (t : Nat) : Msg → St
  | .pong v  => { s with wd := Liveness.step c.policy c.wd s.wd t (.beat v) }
  | .reqWork =>
    if c.asyncReq then
      { s with wd := Liveness.step c.policy c.wd s.wd t (.other reqKind),
               flying := s.flying ++ [s.nextW], nextW := s.nextW + 1 }
    else
      { s with wd := Liveness.step c.policy c.wd s.wd t (.other reqKind),
               reader := .waiting s.nextW, nextW := s.nextW + 1 }
  | .other k => { s with wd := Liveness.step c.policy c.wd s.wd t (.other k) }

/-- one step at time `t` -/
def step (c : Cfg) (s : St) (t : Nat) (l : Lbl) : St :=
  if s.wd.closed.isSome then s else
  match l with
  | .send m => { s with inbox := s.inbox ++ [m] }
  | .read =>
    match s.reader, s.inbox with
    | .idle, m :: rest => handle c { s with inbox := rest } t m
    | _, _ => s                                   -- nothing to read, or the read loop is inside a handler
  | .release w =>
    { s with reader := if s.reader = .waiting w then .idle else s.reader,
             flying := s.flying.filter (· != w) }
  | .check => { s with wd := Watchdog.step c.wd s.wd t .check }

/-- all interleavings: any time-stamped label sequence -/
def run (c : Cfg) : St → List (Nat × Lbl) → St
  | s, [] => s
  | s, (t, l) :: ls => run c (step c s t l) ls

/-! ### the prompt read loop: whenever it can read, it reads before the next timed event -/

def reads (c : Cfg) (t : Nat) : Nat → St → St
  | 0, s => s
  | n + 1, s => reads c t n (step c s t .read)

/-- the read loop takes everything it can get at time `t` (a read never adds to the inbox, so
    `inbox.length` attempts are enough; attempts made while the loop sits in a handler do nothing) -/
def settle (c : Cfg) (t : Nat) (s : St) : St := reads c t s.inbox.length s

def erun (c : Cfg) : St → List (Nat × Lbl) → St
  | s, [] => s
  | s, (t, l) :: ls => erun c (settle c t (step c s t l)) ls

/-- the small-step schedule that `erun` follows -/
def eager (c : Cfg) : St → List (Nat × Lbl) → List (Nat × Lbl)
  | _, [] => []
  | s, (t, l) :: ls =>
    (t, l) :: (List.replicate (step c s t l).inbox.length (t, Lbl.read)
      ++ eager c (settle c t (step c s t l)) ls)

/-- what the peer and the checker do, as the bare watchdog model sees it: a Pong counts as a heartbeat
    at the moment it is SENT -/
def proj : List (Nat × Lbl) → List (Nat × Watchdog.Ev)
  | [] => []
  | (t, .send (.pong v)) :: ls => (t, .beat v) :: proj ls
  | (t, .check) :: ls => (t, .check) :: proj ls
  | _ :: ls => proj ls

/-- the heartbeats that actually reach `handlePong` on a schedule (and the checks) -/
def delivered (c : Cfg) : St → List (Nat × Lbl) → List (Nat × Watchdog.Ev)
  | _, [] => []
  | s, (t, l) :: ls =>
    (match l, s.reader, s.inbox with
      | .check, _, _ => [(t, Watchdog.Ev.check)]
      | .read, .idle, .pong v :: _ => [(t, Watchdog.Ev.beat v)]
      | _, _, _ => []) ++ delivered c (step c s t l) ls

end Dispatch
end Frp
