/-
  C16 (the WEDGE half), obligation (a): lock ORDER.  The facts come from translate/gen_lockorder.go
  (Frp/Gen/LockOrder.lean): an edge `src -> dst` says that some function acquires mutex `dst` while it holds
  mutex `src` (directly, or through a call it makes with `src` held).  A set of goroutines that block each other
  for ever on mutexes — each holds one and waits for the next — is a cycle of such edges; a function that locks a
  mutex it already holds is a self-loop.  The judgement is made here: the generator also emits an ORDER of the
  mutexes (a witness, not trusted); `respects` checks that every edge goes forward in it, and `no_cycle` shows
  that then no cycle exists.
-/
namespace Frp
namespace LockOrd

structure Edge where
  src : String
  dst : String
  file : String
  fn : String
  line : Nat
  via : String        -- "direct" or "call <callee>"
  deriving DecidableEq, Repr

/-- position of a mutex in the order (the length if it is not listed) -/
def rank : List String → String → Nat
  | [], _ => 0
  | x :: rest, m => if x = m then 0 else rank rest m + 1

/-- every edge goes strictly forward in the order -/
def respects (order : List String) (es : List Edge) : Bool :=
  es.all (fun e => decide (rank order e.src < rank order e.dst))

/-- a chain of goroutines: the first holds `a` and waits for a mutex held by the next, … the last waits for `b` -/
inductive Path (es : List Edge) : String → String → Prop
  | one {a b : String} : (∃ e ∈ es, e.src = a ∧ e.dst = b) → Path es a b
  | cons {a b c : String} : (∃ e ∈ es, e.src = a ∧ e.dst = b) → Path es b c → Path es a c

theorem path_rank_lt {order : List String} {es : List Edge} (h : respects order es = true) {a b : String}
    (p : Path es a b) : rank order a < rank order b := by
  induction p with
  | one he =>
    rcases he with ⟨e, hm, rfl, rfl⟩
    have := (List.all_eq_true.mp h) e hm
    exact of_decide_eq_true this
  | cons he _ ih =>
    rcases he with ⟨e, hm, rfl, rfl⟩
    have := of_decide_eq_true ((List.all_eq_true.mp h) e hm)
    omega

/-- an order that every edge respects excludes every cycle — self-loops included -/
theorem no_cycle {order : List String} {es : List Edge} (h : respects order es = true) (a : String) :
    ¬ Path es a a := by
  intro p
  have := path_rank_lt h p
  omega

/-- the two mutexes of an edge -/
def Edge.pair (e : Edge) : String × String := (e.src, e.dst)

end LockOrd
end Frp
