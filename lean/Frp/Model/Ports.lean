import Frp.Model.Str
/-
  Model of server/ports/ports.go (`Manager`: three separate tables, as in Go) and of the port-owning
  part of proxy registration: `TCPProxy.Run/Close` (server/proxy/tcp.go, both branches: plain and
  load-balancing group via `TCPGroupCtl.Listen` / `TCPGroup.Listen` / `TCPGroup.CloseListener`,
  server/group/tcp.go, big-step = the sequential behaviour under the controller lock),
  `UDPProxy.Run/Close` (server/proxy/udp.go) and the quota / name bookkeeping of
  `Control.RegisterProxy/CloseProxy` (server/control.go).

  The OS is part of the state: `ext` = ports bound by other processes, and every live proxy holds a
  socket on its port.  `isPortAvailable` is the probe `net.Listen` + `Close`, i.e. "nobody holds it".
-/
namespace Frp
namespace Ports

/-- `ports.Manager` -/
structure PM where
  free     : List Nat                 -- freePorts (a set)
  used     : List (Nat × Str)         -- usedPorts: port ↦ ctx.ProxyName
  reserved : List (Str × Nat)         -- reservedPorts: name ↦ ctx.Port
deriving Repr

inductive AcqErr
  | alreadyUsed | notAllowed | unavailable | noAvailable
deriving DecidableEq, Repr

def PM.usedKeys (pm : PM) : List Nat := pm.used.map (·.1)

def PM.usedBy (pm : PM) (p : Nat) : Option Str := pm.used.lookup p

/-- `NewManager(allowPorts)` -/
def PM.new (allowed : List Nat) : PM := { free := allowed.eraseDups, used := [], reserved := [] }

/-- the three assignments of a successful Acquire:
    `usedPorts[p] = ctx; reservedPorts[name] = ctx; delete(freePorts, p)` -/
def PM.take (pm : PM) (name : Str) (p : Nat) : PM :=
  { free := pm.free.filter (· ≠ p)
    used := (p, name) :: pm.used.filter (·.1 ≠ p)
    reserved := (name, p) :: pm.reserved.filter (·.1 ≠ name) }

/-- `Acquire(name, port)`.  `avail` is the OS probe `isPortAvailable`; `choice` is what the range
    over the free map happened to pick on the random path (`none` = the ≤ 5 tries all failed). -/
def PM.acquire (pm : PM) (name : Str) (port : Nat) (avail : Nat → Bool) (choice : Option Nat) :
    PM × Except AcqErr Nat :=
  if port = 0 then
    match pm.reserved.lookup name with
    | some rp =>
      if avail rp then (pm.take name rp, .ok rp)            -- reserved path: no look at free/used
      else match choice with
        | some k => if k ∈ pm.free ∧ avail k then (pm.take name k, .ok k) else (pm, .error .noAvailable)
        | none => (pm, .error .noAvailable)
    | none =>
      match choice with
      | some k => if k ∈ pm.free ∧ avail k then (pm.take name k, .ok k) else (pm, .error .noAvailable)
      | none => (pm, .error .noAvailable)
  else if port ∈ pm.free then
    if avail port then (pm.take name port, .ok port) else (pm, .error .unavailable)
  else if (pm.usedBy port).isSome then (pm, .error .alreadyUsed)
  else (pm, .error .notAllowed)

/-- `Release(port)` -/
def PM.release (pm : PM) (p : Nat) : PM :=
  if (pm.usedBy p).isSome then
    { pm with free := if p ∈ pm.free then pm.free else p :: pm.free
              used := pm.used.filter (·.1 ≠ p) }
  else pm

/-- when may the random path fail?  It tries at most 5 distinct free ports in map order: it MUST
    succeed if fewer than `min 5 |free|` free ports are unavailable. -/
def PM.randomMayFail (pm : PM) (avail : Nat → Bool) : Bool :=
  decide ((pm.free.filter (fun p => !avail p)).length ≥ min 5 pm.free.length)

/-! ### server level: proxies, OS, quota -/

inductive Proto | tcp | udp
deriving DecidableEq, Repr

/-- what a tcp proxy with `loadBalancer.group` was admitted with: group name, group key and the
    REQUESTED remote port (`TCPGroup.group / groupKey / port`, written by the founding `Listen` and
    compared against every later member's request) -/
structure GInfo where
  g   : Str
  key : Str
  req : Nat
deriving DecidableEq, Repr

structure Pxy where
  name  : Str
  sid   : Nat                          -- owning session (Control)
  proto : Proto
  port  : Nat                          -- realBindPort = the port its socket is bound to (group: `TCPGroup.realPort`, the shared listener)
  grp   : Option GInfo := none         -- member of a tcp load-balancing group
deriving DecidableEq, Repr

/-- the proxy is a member of group `g` -/
def Pxy.inGroup (x : Pxy) (g : Str) : Bool :=
  match x.grp with
  | some i => decide (i.g = g)
  | none => false

structure Srv where
  tcp      : PM
  udp      : PM
  ext      : List (Proto × Nat)        -- sockets held by other processes
  live     : List Pxy                  -- pxyManager.pxys (each holds a listening socket)
  quota    : List (Nat × Nat)          -- sid ↦ Control.portsUsedNum
  maxPorts : Nat                       -- MaxPortsPerClient (0 = unlimited)
  lingering : List Pxy                 -- closed udp proxies whose forwarder goroutine has not yet run its deferred Close
deriving Repr

def Srv.pm (s : Srv) : Proto → PM
  | .tcp => s.tcp
  | .udp => s.udp

def Srv.setPm (s : Srv) (pr : Proto) (pm : PM) : Srv :=
  match pr with
  | .tcp => { s with tcp := pm }
  | .udp => { s with udp := pm }

/-- the OS refuses a bind iff somebody holds the port -/
def Srv.bound (s : Srv) (pr : Proto) (p : Nat) : Bool :=
  s.ext.contains (pr, p) || s.live.any (fun x => x.proto = pr ∧ x.port = p)

def Srv.avail (s : Srv) (pr : Proto) (p : Nat) : Bool := !s.bound pr p

def Srv.setExt (s : Srv) (e : List (Proto × Nat)) : Srv := { s with ext := e }
def Srv.setLive (s : Srv) (l : List Pxy) : Srv := { s with live := l }
def Srv.setLingering (s : Srv) (l : List Pxy) : Srv := { s with lingering := l }

def Srv.quotaOf (s : Srv) (sid : Nat) : Nat := (s.quota.lookup sid).getD 0

def Srv.setQuota (s : Srv) (sid n : Nat) : Srv :=
  { s with quota := (sid, n) :: s.quota.filter (·.1 ≠ sid) }

inductive RegErr
  | quota | exists_ | acquire (e : AcqErr) | listen
  | grpPort                            -- ErrGroupDifferentPort
  | grpAuth                            -- ErrGroupAuthFailed
deriving DecidableEq, Repr

/-- `Control.RegisterProxy` for a tcp / udp proxy without group.
    `grab` = another process binds the port between the probe inside Acquire and the proxy's own
    Listen (fault injection); `choice` as in `PM.acquire`. -/
def Srv.register (s : Srv) (sid : Nat) (name : Str) (pr : Proto) (port : Nat)
    (choice : Option Nat) (grab : Bool) : Srv × Except RegErr Nat :=
  -- quota check-and-add (deferred subtract on error)
  if s.maxPorts > 0 ∧ s.quotaOf sid + 1 > s.maxPorts then (s, .error .quota)
  else if s.live.any (fun x => x.name = name) then (s, .error .exists_)       -- pxyManager.Exist
  else
    match (s.pm pr).acquire name port (s.avail pr) choice with
    | (_, .error e) => (s, .error (.acquire e))
    | (pm', .ok p) =>
      if grab then
        -- Listen fails: deferred Release(realBindPort); the other process now holds the port
        (((s.setPm pr (pm'.release p)).setExt ((pr, p) :: s.ext)), .error .listen)
      else
        let s2 := (s.setPm pr pm').setLive ({ name := name, sid := sid, proto := pr, port := p } :: s.live)
        ((if s.maxPorts > 0 then s2.setQuota sid (s.quotaOf sid + 1) else s2), .ok p)

/-- `TCPGroupCtl.groups[g]` with `len(tg.lns) > 0`: the group's state (`tg.port`, `tg.groupKey`,
    `tg.realPort`) is written once by the founding `Listen` and never changes while the group has
    members; the model reads it off a live member (all members agree, see `SrvInv.agree`). -/
def Srv.groupOf (s : Srv) (g : Str) : Option Pxy := s.live.find? (fun x => x.inGroup g)

/-- `Control.RegisterProxy` for a tcp proxy WITH `loadBalancer.group` (TCPProxy.Run, group branch →
    `TCPGroupCtl.Listen` → `TCPGroup.Listen`).  First member: Acquire through the tcp port manager,
    own `net.Listen` (failure ⇒ `Release(realPort)`), remember `port`/`realPort`.  Later member:
    must ask for the same port and key, is told `tg.realPort`; the manager is not touched. -/
def Srv.registerG (s : Srv) (sid : Nat) (name : Str) (gi : GInfo)
    (choice : Option Nat) (grab : Bool) : Srv × Except RegErr Nat :=
  if s.maxPorts > 0 ∧ s.quotaOf sid + 1 > s.maxPorts then (s, .error .quota)
  else if s.live.any (fun x => x.name = name) then (s, .error .exists_)
  else
    let add (s0 : Srv) (p : Nat) : Srv :=
      let s2 := s0.setLive ({ name := name, sid := sid, proto := .tcp, port := p, grp := some gi } :: s.live)
      if s.maxPorts > 0 then s2.setQuota sid (s.quotaOf sid + 1) else s2
    match s.groupOf gi.g with
    | none =>
      -- len(tg.lns) == 0: the first listener, listen on the real address
      match s.tcp.acquire name gi.req (s.avail .tcp) choice with
      | (_, .error e) => (s, .error (.acquire e))
      | (pm', .ok p) =>
        if grab then
          (((s.setPm .tcp (pm'.release p)).setExt ((.tcp, p) :: s.ext)), .error .listen)
        else (add (s.setPm .tcp pm') p, .ok p)
    | some m =>
      match m.grp with
      | none => (s, .error .grpPort)                       -- unreachable: `groupOf` returns members only
      | some mi =>
        if mi.req ≠ gi.req then (s, .error .grpPort)        -- tg.port != port
        else if mi.key ≠ gi.key then (s, .error .grpAuth)   -- tg.groupKey != groupKey
        else (add s m.port, .ok m.port)                     -- realPort = tg.realPort

/-- does closing `x` dissolve its listener?  plain proxy: always (it owns the socket); group member:
    only when it is the last one (`len(tg.lns) == 0` in `TCPGroup.CloseListener`) -/
def Srv.closesSocket (s : Srv) (x : Pxy) : Bool :=
  match x.grp with
  | none => true
  | some i => !((s.live.filter (fun y => y.name ≠ x.name)).any (fun y => y.inGroup i.g))

/-- `Control.CloseProxy` (only proxies of the calling session).  A plain proxy releases its port
    (`TCPProxy.Close` / `UDPProxy.Close`); a group member closes its `TCPGroupListener`, and the last
    one out closes the shared listener and does `portManager.Release(tg.realPort)`. -/
def Srv.close (s : Srv) (sid : Nat) (name : Str) : Srv :=
  match s.live.find? (fun x => x.name = name ∧ x.sid = sid) with
  | none => s
  | some x =>
    let s1 := if s.maxPorts > 0 then s.setQuota sid (s.quotaOf sid - 1) else s
    let pm' := if s.closesSocket x then (s.pm x.proto).release x.port else s.pm x.proto
    ((s1.setPm x.proto pm').setLive (s.live.filter (fun y => y.name ≠ name))).setLingering
      (if x.proto = .udp then x :: s.lingering else s.lingering)

/-- the udp forwarder goroutine's own `pxy.Close()` after the socket was closed.
    `guarded = true`: the Release sits inside the `!isClosed` guard (repaired code) → nothing happens.
    `guarded = false`: pinned tree c9fd674 — `Release(realBindPort)` runs again unconditionally. -/
def Srv.forwarderExit (guarded : Bool) (s : Srv) (name : Str) : Srv :=
  match s.lingering.find? (fun x => x.name = name) with
  | none => s
  | some x =>
    let s1 := s.setLingering (s.lingering.filter (fun y => y.name ≠ name))
    if guarded then s1 else s1.setPm .udp (s.udp.release x.port)

/-- another process binds / releases a port (binding succeeds only if nobody holds it) -/
def Srv.squat (s : Srv) (pr : Proto) (p : Nat) : Srv :=
  if s.bound pr p then s else s.setExt ((pr, p) :: s.ext)

def Srv.unsquat (s : Srv) (pr : Proto) (p : Nat) : Srv :=
  s.setExt (s.ext.filter (· ≠ (pr, p)))

def Srv.new (allowedTcp allowedUdp : List Nat) (maxPorts : Nat) : Srv :=
  { tcp := PM.new allowedTcp, udp := PM.new allowedUdp, ext := [], live := [], quota := [],
    maxPorts := maxPorts, lingering := [] }

end Ports
end Frp
