import Frp.Model.Limit
/-
  C01 — which backend a user connection is bridged to, the proxy-protocol header, sniff replay.

    server/proxy/proxy.go   GetWorkConnFromPool      StartWorkConn{ProxyName: pxy.GetName(), Src*, Dst*}  → `startMsg`
    server/proxy/proxy.go   Manager.Add / GetByName  names unique (Add refuses a used name)
    client/proxy/proxy_manager.go  HandleWorkConn    `pm.proxies[name]` else `workConn.Close()`          → `dispatch`
    client/proxy/proxy.go   HandleTCPWorkConnection  dial LocalIP:LocalPort; proxy-protocol header       → `ppHeader`
    golib net.SharedConn + io.TeeReader                                                                  → `sharedRead`
    pkg/util/vhost/https.go GetHTTPSHostname         returns the SharedConn                               → `Sniff.https`
    pkg/util/tcpmux/httpconnect.go getHostFromHTTPConnect  passthrough ? SharedConn : the RAW conn        → `Sniff.tcpmux`
-/
namespace Frp
namespace Tunnel


/-! ### name dispatch -/

/-- one proxy as configured: its name, the public endpoint frps opens for it, the backend frpc dials -/
structure Entry where
  name : Str
  endpoint : Nat
  backend : Nat
  deriving DecidableEq, Repr

/-- server side: which proxy owns the endpoint a user connected to (listener → its proxy) -/
def proxyOfEndpoint (es : List Entry) (e : Nat) : Option Str :=
  (es.find? (·.endpoint = e)).map (·.name)

/-- `StartWorkConn.ProxyName` written for a user connection accepted by proxy `n`: `pxy.GetName()` -/
def startName (n : Str) : Str := n

/-- client side `HandleWorkConn(name, …)`: `pm.proxies[name]`, `none` = close the work connection -/
def dispatch (es : List Entry) (n : Str) : Option Nat :=
  (es.find? (·.name = n)).map (·.backend)

/-- the backend dialled for a user connection to endpoint `e` -/
def bridged (es : List Entry) (e : Nat) : Option Nat :=
  (proxyOfEndpoint es e).bind fun n => dispatch es (startName n)

def namesDistinct : List Entry → Bool
  | [] => true
  | x :: r => r.all (·.name != x.name) && namesDistinct r

/-! ### StartWorkConn addresses and the proxy-protocol header -/

structure Addr where
  host : Str
  port : Nat
  deriving DecidableEq, Repr

structure StartWorkConn where
  proxyName : Str
  srcAddr : Str
  srcPort : Nat
  dstAddr : Str
  dstPort : Nat
  deriving DecidableEq, Repr

/-- GetWorkConnFromPool(src, dst): `net.SplitHostPort` + `ParseUint(port, 10, 16)`; a nil address
    leaves the fields zero (`GetRealConn` passes `nil` as dst) -/
def startMsg (name : Str) (src dst : Option Addr) : StartWorkConn :=
  { proxyName := name
  , srcAddr := (src.map (·.host)).getD [], srcPort := (src.map (·.port)).getD 0
  , dstAddr := (dst.map (·.host)).getD [], dstPort := (dst.map (·.port)).getD 0 }

structure PPHeader where
  version : Nat
  src : Addr
  dst : Addr
  v4 : Bool
  deriving DecidableEq, Repr

def loopbackStr : Str := Str.ofString "127.0.0.1"

/-- HandleTCPWorkConnection: a header is written to the backend iff
    `ProxyProtocolVersion != "" && m.SrcAddr != "" && m.SrcPort != 0`;
    `if m.DstAddr == "" { m.DstAddr = "127.0.0.1" }`; TCPv4 iff SrcAddr contains '.';
    version 1 for "v1", 2 for "v2" (anything else leaves 0). -/
def ppHeader (ppVersion : Str) (m : StartWorkConn) : Option PPHeader :=
  if ppVersion ≠ [] ∧ m.srcAddr ≠ [] ∧ m.srcPort ≠ 0 then
    some { version := if ppVersion = Str.ofString "v1" then 1 else if ppVersion = Str.ofString "v2" then 2 else 0
         , src := { host := m.srcAddr, port := m.srcPort }
         , dst := { host := if m.dstAddr = [] then loopbackStr else m.dstAddr, port := m.dstPort }
         , v4 := m.srcAddr.contains Str.dot }
  else none

/-! ### sniffing a prefix and handing the connection on -/

/-- what a reader of the `SharedConn` gets after the sniffer consumed the first `k` bytes of
    `stream` through the TeeReader: first the buffer (those `k` bytes), then the rest -/
def sharedRead (stream : C01Bytes) (k : Nat) : C01Bytes := stream.take k ++ stream.drop k

/-- what a reader of the RAW conn gets after `k` bytes were consumed -/
def rawRead (stream : C01Bytes) (k : Nat) : C01Bytes := stream.drop k

inductive Sniff
  | https                 -- GetHTTPSHostname: returns `sc`
  | tcpmux (passthrough : Bool)   -- getHostFromHTTPConnect: `outConn := c; if passthrough { outConn = sc }`
  deriving DecidableEq, Repr

/-- bytes the proxy's listener (and so the backend) receives from a user stream of which the sniffer
    consumed `k` bytes (`k` ≥ the ClientHello / CONNECT request; bufio may have read further) -/
def handedOn (s : Sniff) (stream : C01Bytes) (k : Nat) : C01Bytes :=
  match s with
  | .https => sharedRead stream k
  | .tcpmux true => sharedRead stream k
  | .tcpmux false => rawRead stream k

end Tunnel
end Frp
