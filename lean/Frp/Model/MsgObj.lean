import Frp.Model.Str
/-
  JSON *object level* of the control messages (pkg/msg/msg.go structs through encoding/json):
  which members a message value turns into (`toObj`) and which value a JSON object turns into
  (`fromObj`), driven by a schema table (the one REGENERATED from msg.go: JSON name, omitempty,
  Go type per field).  The JSON *text* (escaping, number syntax, whitespace, member order) is
  encoding/json's business and is trusted; so is the text form of an IP address
  (`net.IP.MarshalText` / `UnmarshalText`): an address is modelled by its canonical text.

  Go semantics mirrored (encoding/json encode.go / decode.go):
  * a field is written under its JSON name unless it has `omitempty` and is "empty": false, 0, "",
    nil pointer, nil or zero-length slice / map.  A struct VALUE is never empty (`client_spec:{}` and
    `detect_behavior:{}` are always written).
  * nil slice / map / pointer without omitempty is written as `null`.
  * decoding looks every field up by name; an absent member or `null` leaves the zero value;
    unknown members are ignored; `[]` decodes to an empty non-nil slice, `{}` to an empty non-nil map.
  * `*net.UDPAddr` is a pointer to `struct{IP net.IP; Port int; Zone string}` without tags.

  Struct nesting in msg.go is at most three deep (NatHoleResp → NatHoleDetectBehavior → PortsRange);
  the model has exactly three levels (`Struct0/1/2`), built from one level-generic definition, which
  avoids recursion over nested inductive types.  `C17.schema_depth_ok` checks the regenerated table
  fits.
-/
namespace Frp
namespace MsgObj

/-- JSON values (numbers: the integers, the only numbers the protocol structs hold) -/
inductive J
  | null
  | bool (b : Bool)
  | num (i : Int)
  | real (txt : Str)   -- a JSON number whose text is not a plain integer literal (fraction, exponent, `-0`):
                       -- never a value of a protocol field, only ever a type error (Model/Dispatcher.lean)
  | str (s : Str)
  | arr (l : List J)
  | obj (l : List (Str × J))

instance : Inhabited J := ⟨.null⟩

structure UDP where
  ip : Str        -- canonical text of the address ("" for a nil / empty IP)
  port : Int
  zone : Str
  deriving DecidableEq, Repr

/-- field kinds occurring in msg.go -/
inductive Kind
  | str | bool | int | strs | smap | udp
  | sub (name : String)       -- struct by value
  | subs (name : String)      -- slice of structs
  | unknown
  deriving DecidableEq, Repr

structure FieldS where
  goName : String
  json : Str
  omitE : Bool
  kind : Kind
  lo : Int := -9223372036854775808     -- value range of the Go integer type behind `Kind.int`
  hi : Int := 9223372036854775807      -- (int / int64: 64 bit; uint16: 0 … 65535); unused for other kinds
  deriving DecidableEq, Repr

/-- a field value; `α` = values of the structs one nesting level down -/
inductive ValF (α : Type)
  | str (s : Str)
  | bool (b : Bool)
  | int (i : Int)
  | strs (l : Option (List Str))            -- none = nil slice
  | smap (m : Option (List (Str × Str)))    -- none = nil map; entries sorted by key, keys distinct
  | udp (a : Option UDP)                    -- none = nil pointer
  | sub (a : α)
  | subs (l : Option (List α))
  deriving DecidableEq, Repr

variable {α : Type}

/-- does the value have the shape the field's Go type prescribes -/
def typedF (subTyped : String → α → Bool) : Kind → ValF α → Bool
  | .str, .str _ => true
  | .bool, .bool _ => true
  | .int, .int _ => true
  | .strs, .strs _ => true
  | .smap, .smap _ => true
  | .udp, .udp _ => true
  | .sub n, .sub a => subTyped n a
  | .subs n, .subs none => true
  | .subs n, .subs (some l) => l.all (subTyped n)
  | _, _ => false

def typedMembers (subTyped : String → α → Bool) : List FieldS → List (ValF α) → Bool
  | [], [] => true
  | f :: fs, v :: vs => typedF subTyped f.kind v && typedMembers subTyped fs vs
  | _, _ => false

/-- encoding/json `isEmptyValue` -/
def isEmpty : ValF α → Bool
  | .str s => s.isEmpty
  | .bool b => !b
  | .int i => i == 0
  | .strs none => true
  | .strs (some l) => l.isEmpty
  | .smap none => true
  | .smap (some m) => m.isEmpty
  | .udp a => a.isNone
  | .sub _ => false
  | .subs none => true
  | .subs (some l) => l.isEmpty

def kIP : Str := [73, 80]
def kPort : Str := [80, 111, 114, 116]
def kZone : Str := [90, 111, 110, 101]

def udpToJ (a : UDP) : J := .obj [(kIP, .str a.ip), (kPort, .num a.port), (kZone, .str a.zone)]

/-- the JSON value written for a field value -/
def toJF (subJ : String → α → J) : Kind → ValF α → J
  | _, .str s => .str s
  | _, .bool b => .bool b
  | _, .int i => .num i
  | _, .strs none => .null
  | _, .strs (some l) => .arr (l.map .str)
  | _, .smap none => .null
  | _, .smap (some m) => .obj (m.map (fun kv => (kv.1, .str kv.2)))
  | _, .udp none => .null
  | _, .udp (some a) => udpToJ a
  | .sub n, .sub a => subJ n a
  | .subs _, .subs none => .null
  | .subs n, .subs (some l) => .arr (l.map (subJ n))
  | _, _ => .null      -- ill-typed: not reached under `typedF`

/-- members written for a struct value (encode.go `structEncoder.encode`) -/
def toMembersF (subJ : String → α → J) : List FieldS → List (ValF α) → List (Str × J)
  | f :: fs, v :: vs =>
    if f.omitE && isEmpty v then toMembersF subJ fs vs
    else (f.json, toJF subJ f.kind v) :: toMembersF subJ fs vs
  | _, _ => []

def unStr : J → Str
  | .str s => s
  | _ => []

def unNum : J → Int
  | .num i => i
  | _ => 0

def udpFromJ (ms : List (Str × J)) : UDP :=
  { ip := ((ms.lookup kIP).map unStr).getD [],
    port := ((ms.lookup kPort).map unNum).getD 0,
    zone := ((ms.lookup kZone).map unStr).getD [] }

/-- zero value of a field (what a fresh `reflect.New(T)` holds) -/
def zeroF (zeroSub : String → α) : Kind → ValF α
  | .str => .str []
  | .bool => .bool false
  | .int => .int 0
  | .strs => .strs none
  | .smap => .smap none
  | .udp => .udp none
  | .sub n => .sub (zeroSub n)
  | .subs _ => .subs none
  | .unknown => .str []

/-- the value a present member decodes to (decode.go `d.value` into a zero field);
    `null` leaves the zero value -/
def fromJF (subV : String → J → α) (zeroSub : String → α) : Kind → J → ValF α
  | k, .null => zeroF zeroSub k
  | .str, j => .str (unStr j)
  | .bool, .bool b => .bool b
  | .bool, _ => .bool false
  | .int, j => .int (unNum j)
  | .strs, .arr l => .strs (some (l.map unStr))
  | .strs, _ => .strs none
  | .smap, .obj ms => .smap (some (ms.map (fun kv => (kv.1, unStr kv.2))))
  | .smap, _ => .smap none
  | .udp, .obj ms => .udp (some (udpFromJ ms))
  | .udp, _ => .udp none
  | .sub n, j => .sub (subV n j)
  | .subs n, .arr l => .subs (some (l.map (subV n)))
  | .subs _, _ => .subs none
  | .unknown, _ => .str []

/-- what decoding does with the result of looking a field up: absent ⇒ zero -/
def decodeOpt (subV : String → J → α) (zeroSub : String → α) (f : FieldS) : Option J → ValF α
  | some j => fromJF subV zeroSub f.kind j
  | none => zeroF zeroSub f.kind

/-- decode.go `d.object` into a struct: every field by name -/
def fromMembersF (subV : String → J → α) (zeroSub : String → α) (fs : List FieldS)
    (ms : List (Str × J)) : List (ValF α) :=
  fs.map (fun f => decodeOpt subV zeroSub f (ms.lookup f.json))

/-- the identification under which the round trip is an equality, per field:
    with omitempty an empty slice / map is the same as nil (both are dropped and come back nil);
    nested struct values are normalised recursively.  Nothing else is identified. -/
def normF (normSub : String → α → α) (f : FieldS) : ValF α → ValF α
  | .strs (some l) => if f.omitE && l.isEmpty then .strs none else .strs (some l)
  | .smap (some m) => if f.omitE && m.isEmpty then .smap none else .smap (some m)
  | .sub a => (match f.kind with | .sub n => .sub (normSub n a) | _ => .sub a)
  | .subs (some l) =>
      if f.omitE && l.isEmpty then .subs none
      else (match f.kind with | .subs n => .subs (some (l.map (normSub n))) | _ => .subs (some l))
  | v => v

def normMembersF (normSub : String → α → α) : List FieldS → List (ValF α) → List (ValF α)
  | f :: fs, v :: vs => normF normSub f v :: normMembersF normSub fs vs
  | _, _ => []

/-! ### the three levels -/

abbrev Struct0 := List (ValF Unit)     -- level 0 has no nested structs: no `sub` value is well-typed there
abbrev Struct1 := List (ValF Struct0)
abbrev Struct2 := List (ValF Struct1)

/-- a schema: struct name ↦ field rows (an association list, read through `fieldsOf`) -/
structure Schema where
  rows : List (String × List FieldS)

def Schema.fieldsOf (sch : Schema) (n : String) : List FieldS := (sch.rows.lookup n).getD []

def objOf : J → List (Str × J)
  | .obj ms => ms
  | _ => []

-- level 0: structs whose fields are all scalar / string collections (PortsRange, ClientSpec, most messages)
def typed0 (sch : Schema) (n : String) (m : Struct0) : Bool :=
  typedMembers (fun _ _ => false) (sch.fieldsOf n) m
def toObj0 (sch : Schema) (n : String) (m : Struct0) : J :=
  .obj (toMembersF (fun _ _ => .null) (sch.fieldsOf n) m)
def fromObj0 (sch : Schema) (n : String) (j : J) : Struct0 :=
  fromMembersF (fun _ _ => ()) (fun _ => ()) (sch.fieldsOf n) (objOf j)
def zero0 (sch : Schema) (n : String) : Struct0 := fromObj0 sch n (.obj [])
def norm0 (sch : Schema) (n : String) (m : Struct0) : Struct0 :=
  normMembersF (fun _ a => a) (sch.fieldsOf n) m

-- level 1: may hold level-0 structs (NatHoleDetectBehavior, Login)
def typed1 (sch : Schema) (n : String) (m : Struct1) : Bool := typedMembers (typed0 sch) (sch.fieldsOf n) m
def toObj1 (sch : Schema) (n : String) (m : Struct1) : J := .obj (toMembersF (toObj0 sch) (sch.fieldsOf n) m)
def fromObj1 (sch : Schema) (n : String) (j : J) : Struct1 :=
  fromMembersF (fromObj0 sch) (zero0 sch) (sch.fieldsOf n) (objOf j)
def zero1 (sch : Schema) (n : String) : Struct1 := fromObj1 sch n (.obj [])
def norm1 (sch : Schema) (n : String) (m : Struct1) : Struct1 := normMembersF (norm0 sch) (sch.fieldsOf n) m

-- level 2: may hold level-1 structs (NatHoleResp)
def typed2 (sch : Schema) (n : String) (m : Struct2) : Bool := typedMembers (typed1 sch) (sch.fieldsOf n) m
def toObj2 (sch : Schema) (n : String) (m : Struct2) : J := .obj (toMembersF (toObj1 sch) (sch.fieldsOf n) m)
def fromObj2 (sch : Schema) (n : String) (j : J) : Struct2 :=
  fromMembersF (fromObj1 sch) (zero1 sch) (sch.fieldsOf n) (objOf j)
def norm2 (sch : Schema) (n : String) (m : Struct2) : Struct2 := normMembersF (norm1 sch) (sch.fieldsOf n) m

end MsgObj
end Frp
