import Frp.Gen.TypedConf
import Frp.Model.ProxyMsg
/-
  How the loader turns the `type` of a proxy / visitor definition into a configurer.

  Go sources mirrored here (the statement lists are *regenerated*, `Frp/Gen/TypedConf.lean`; this file
  interprets them statement by statement):
    pkg/config/v1/proxy.go     NewProxyConfigurerByType            (`proxyNewByType`)
                               TypedProxyConfig.UnmarshalJSON      (`proxyUnmarshalJSON`)
    pkg/config/v1/visitor.go   NewVisitorConfigurerByType          (`visitorNewByType`)
                               TypedVisitorConfig.UnmarshalJSON    (`visitorUnmarshalJSON`)
  TOML and YAML documents are converted to JSON by LoadConfigure before this code sees them, the legacy
  INI format does not pass here (pkg/config/legacy has its own table).

  The point of interest: the `type` of a definition is read TWICE — once by the peek that selects the Go
  struct (and fills the wrapper's `Type`), once by the decoder, which writes every key of the document into
  the selected struct, the key of `…BaseConfig.Type` included, and so overwrites what
  `New…ConfigurerByType` had stored there.  Both readings agree only as long as the selection uses the
  spelling as written.
-/
namespace Frp
namespace TypeDispatch
open Gen.TypedConf Gen.ProxyMsg

/-- a configurer: which mapped Go struct it is (a key of the type map) and what its base `Type` field holds -/
structure Cfgr (T : Type) where
  go : T
  ty : Str
  deriving DecidableEq, Repr

/-- control flow of a statement list: go on, return an error, return normally -/
inductive Ctl (σ : Type)
  | next (s : σ)
  | fail
  | done (s : σ)

/-! ## New…ConfigurerByType -/

/-- registers of `New…ConfigurerByType`: `v, ok` and the new configurer -/
structure NSt (T : Type) where
  v : Option T := none
  x : Option (Cfgr T) := none

/-- one statement of `New…ConfigurerByType(arg)`; `table` = the type map (type string → struct) -/
def stepN {T : Type} (table : List (Str × T)) (arg : Str) (st : NSt T) : NStep → Ctl (NSt T)
  | .lookupExact => .next { st with v := (table.find? (fun e => e.1 = arg)).map (·.2) }
  | .nilIfAbsent => if st.v.isNone then .fail else .next st
  | .newOfStruct => .next { st with x := st.v.map fun t => ⟨t, []⟩ }
  | .setTypeFromArg => .next { st with x := st.x.map fun c => { c with ty := arg } }
  | .ret => .done st

/-- `New…ConfigurerByType(arg)`: none = nil -/
def runN {T : Type} (table : List (Str × T)) (arg : Str) : NSt T → List NStep → Option (Cfgr T)
  | _, [] => none
  | st, s :: rest =>
    match stepN table arg st s with
    | .next st' => runN table arg st' rest
    | .fail => none
    | .done st' => st'.x

def proxyTable : List (Str × PT) := PT.all.map fun t => (t.bytes, t)
def visitorTable : List (Str × VT) := VT.all.map fun t => (t.bytes, t)

/-- `NewProxyConfigurerByType`, `NewVisitorConfigurerByType` as they stand in the source now -/
def newProxy (arg : Str) : Option (Cfgr PT) := runN proxyTable arg {} proxyNewByType
def newVisitor (arg : Str) : Option (Cfgr VT) := runN visitorTable arg {} visitorNewByType

/-! ## Typed…Config.UnmarshalJSON -/

/-- what of one element of `proxies` / `visitors` matters here -/
structure Doc where
  null : Bool := false              -- the JSON text is `null`
  typeNotString : Bool := false     -- the discriminator key holds something that is not a string
  keys : List (Str × Str)           -- string-valued keys of the object
  bodyOK : Bool := true             -- decoder.Decode(configurer) succeeds (value types; unknown keys in strict mode)

def Doc.get (d : Doc) (k : Str) : Option Str := (d.keys.find? (fun e => e.1 = k)).map (·.2)

/-- registers of `UnmarshalJSON`: typeStruct.Type, c.Type, configurer, c.…Configurer -/
structure USt (T : Type) where
  peek : Str := []
  wrapper : Str := []
  cfgr : Option (Cfgr T) := none
  stored : Option (Cfgr T) := none

/-- one statement of `Typed…Config.UnmarshalJSON(b)`.
    `fold` is what happens to the peeked spelling on its way into `c.Type` and into the lookup: the
    identity in the source (the translator accepts `c.Type = typeStruct.Type` and
    `New…ConfigurerByType(…Type(typeStruct.Type))` verbatim, nothing else); the parameter exists so that the
    theorems can say what a lenient selection would do.  `tyKey` = the json key of `…BaseConfig.Type`. -/
def stepU {T : Type} (fold : Str → Str) (newBy : Str → Option (Cfgr T)) (tyKey : Str) (d : Doc) (st : USt T) :
    UStep → Ctl (USt T)
  | .nullIsError => if d.null then .fail else .next st
  | .declTypeStruct => .next { st with peek := [] }
  | .peekType => if d.typeNotString then .fail else .next { st with peek := (d.get peekKey).getD [] }
  | .storeType => .next { st with wrapper := fold st.peek }
  | .newByType => .next { st with cfgr := newBy (fold st.peek) }
  | .unknownTypeErr => if st.cfgr.isNone then .fail else .next st
  | .newDecoder => .next st
  | .strictSwitch => .next st
  | .decode =>
    if !d.bodyOK then .fail else
    -- the decoder writes every key of the document into the struct, the `type` key like any other
    .next { st with cfgr := st.cfgr.map fun c => match d.get tyKey with | some v => { c with ty := v } | none => c }
  | .storeConfigurer => .next { st with stored := st.cfgr }
  | .ret => .done st

/-- `UnmarshalJSON`: none = an error was returned -/
def runU {T : Type} (fold : Str → Str) (newBy : Str → Option (Cfgr T)) (tyKey : Str) (d : Doc) :
    USt T → List UStep → Option (USt T)
  | _, [] => none
  | st, s :: rest =>
    match stepU fold newBy tyKey d st s with
    | .next st' => runU fold newBy tyKey d st' rest
    | .fail => none
    | .done st' => some st'

/-- what a successful load of one element hands on: the wrapper's `Type` and the configurer -/
structure Loaded (T : Type) where
  wrapper : Str
  cfg : Cfgr T
  deriving DecidableEq, Repr

def loadedOf {T : Type} (r : Option (USt T)) : Option (Loaded T) :=
  match r with
  | some st => st.stored.map fun c => ⟨st.wrapper, c⟩
  | none => none

/-- `TypedProxyConfig.UnmarshalJSON` / `TypedVisitorConfig.UnmarshalJSON` as they stand in the source now -/
def loadProxy (d : Doc) : Option (Loaded PT) := loadedOf (runU id newProxy proxyBaseTypeKey d {} proxyUnmarshalJSON)
def loadVisitor (d : Doc) : Option (Loaded VT) := loadedOf (runU id newVisitor visitorBaseTypeKey d {} visitorUnmarshalJSON)

/-- the same statements with a selection that folds the spelling first (not what the source does) -/
def loadProxyFolding (fold : Str → Str) (d : Doc) : Option (Loaded PT) :=
  loadedOf (runU fold newProxy proxyBaseTypeKey d {} proxyUnmarshalJSON)

end TypeDispatch
end Frp
