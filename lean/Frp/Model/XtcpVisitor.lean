import Frp.Model.Visitor
import Frp.Model.Layers
/-
  The xtcp visitor of frpc, as client/visitor/xtcp.go has it — the handling of user connections as a
  small transition system (one label = one thing a goroutine of the visitor does):

    Run                      session kind from cfg.Protocol; keepTunnelOpenWorker's first (blocking) start signal
    worker / internalConnWorker   `arrive c`   → go handleConn(c) → openTunnel: the immediate trigger
    openTunnel               `tick c` (500 ms ticker), `ctxDone c` (the FallbackTimeoutMs context, only when
                             FallbackTo ≠ ""), `limit20 c` (its own 20 s), `vctxDone c` (sv.ctx cancelled)
    getTunnelConn            session.OpenConn; on error session.Close() and a NON-blocking send on startTunnelCh
    processTunnelStartEvents `hole …` (makeNatHole ran to its end), then at least 10 s between two starts (`coolDone`)
    keepTunnelOpenWorker     `keepTick` (every MinRetryInterval s): getTunnelConn, on error retryLimiter.Wait
                             (`rate.NewLimiter(Every(hour/MaxRetriesAnHour), MaxRetriesAnHour)`; `refill`)
    handleConn               on a tunnel stream: WithEncryption (may fail: `ivOk`), WithCompressionFromPool, io.Join;
                             on error: FallbackTo == "" → close the user connection; else helper.TransferConn
                             (`xferOk` = its result: the fallback visitor is running and its listener open)
    Close                    `close`: cancel sv.ctx, session.Close()

  What is ABSTRACT (inputs of the labels, not modelled): the outcome of NAT discovery (`prepareOk`: the STUN
  server answered), of the traversal itself (`punchOk`: nathole.MakeHole found the peer) and of
  session.Init (`initOk`: quic.Dial / fmux.Client), the moment a tunnel session breaks (`peerGone`), the
  scheduling of the goroutines (any order of labels), wall-clock time (`advance`; guards compare against it).
  What is NOT abstract: what the visitor sends to the server and what the server answers — the two
  NatHoleVisitor messages of makeNatHole (PreCheck, then the signed request) are answered by the server
  model `Visitor.natVisit` over the server's client table.
-/
namespace Frp
namespace XtcpVisitor
open NatHole (aget)
open Visitor (NatCfg NatSess NatOut authKey natVisit)

/-- the fields of v1.XTCPVisitorConfig (after Complete) the connection handling reads -/
structure Cfg where
  server : Str                 -- ServerName
  sk : Str                     -- SecretKey
  enc : Bool                   -- Transport.UseEncryption
  comp : Bool                  -- Transport.UseCompression
  protocol : Str               -- Protocol ("quic" by default)
  keep : Bool                  -- KeepTunnelOpen
  maxRetries : Nat             -- MaxRetriesAnHour
  minRetry : Nat               -- MinRetryInterval (s)
  fallback : Bool              -- FallbackTo ≠ ""
  fallbackMs : Nat             -- FallbackTimeoutMs
  deriving DecidableEq, Repr

/-- what the frpc the visitor lives in talks to: the server's NAT-hole client table, its own login user -/
structure Env where
  H : Str → Str
  fixed : Bool                         -- Visitor.natFixed
  cfgs : List (Str × NatCfg)
  user : Str

/-! ## tunnel session kinds -/

inductive SessKind | kcp | quic
  deriving DecidableEq, Repr

def kcpName : Str := [107, 99, 112]   -- "kcp"

/-- visitor `Run`: `if sv.cfg.Protocol == "kcp" { NewKCPTunnelSession() } else { NewQUICTunnelSession(..) }` -/
def visitorSessKind (cfg : Cfg) : SessKind := if cfg.protocol = kcpName then .kcp else .quic

/-- client/proxy/xtcp.go `InWorkConn`: `if natHoleRespMsg.Protocol == "kcp" { listenByKCP } … listenByQUIC` -/
def proxySessKind (respProtocol : Str) : SessKind := if respProtocol = kcpName then .kcp else .quic

/-- when the far end learns of a new stream.  yamux `session.Open()` sends the SYN at once; quic-go's
    `OpenStreamSync` only reserves the stream id — the peer's `AcceptStream` returns it with the first STREAM frame,
    i.e. once the visitor's io.Join has written something the user sent (WithEncryption writes its IV with the
    first payload, too).  So over a QUIC tunnel the proxy's frpc dials the backend only after the user has
    written; a backend that speaks first is not heard before that. -/
def announcedOnOpen : SessKind → Bool
  | .kcp => true
  | .quic => false

/-- controller.go `analysis`: `protocol := vm.Protocol` goes into BOTH responses -/
def respProtocol (visitorMsgProtocol : Str) : Str := visitorMsgProtocol

/-! ## makeNatHole -/

/-- where makeNatHole stopped -/
inductive HoleRes
  | preRefused (e : Visitor.Err)    -- 0. PreCheck answered with an error
  | preOdd                          --    (an answer of another shape: not produced by the server model)
  | prepareFailed                   -- 1. nathole.Prepare (STUN)
  | exchRefused (e : Visitor.Err)   -- 2. ExchangeInfo: NatHoleResp.Error ≠ ""
  | exchOdd
  | punchFailed                     -- 3. nathole.MakeHole
  | initFailed                      -- 4. session.Init
  | ok
  deriving DecidableEq, Repr

/-- the server's answer to `nathole.PreCheck`'s message {ProxyName: cfg.ServerName, PreCheck: true} -/
def preAnswer (env : Env) (cfg : Cfg) : NatOut :=
  (natVisit env.fixed env.H env.cfgs [] [] cfg.server 0 [] env.user true).2

/-- `SignKey: util.GetAuthKey(sv.cfg.SecretKey, now), Timestamp: now` -/
def visitSign (H : Str → Str) (cfg : Cfg) (now : Int) : Str := authKey H cfg.sk now

/-- the server's answer to the signed NatHoleVisitor of makeNatHole (the critical section of HandleVisitor) -/
def exchAnswer (env : Env) (cfg : Cfg) (now : Int) : NatOut :=
  (natVisit env.fixed env.H env.cfgs [] [] cfg.server now (visitSign env.H cfg now) env.user false).2

def holeRes (env : Env) (cfg : Cfg) (now : Int) (prepareOk punchOk initOk : Bool) : HoleRes :=
  match preAnswer env cfg with
  | .err e => .preRefused e
  | .granted _ => .preOdd
  | .preOk =>
    if !prepareOk then .prepareFailed
    else match exchAnswer env cfg now with
      | .err e => .exchRefused e
      | .preOk => .exchOdd
      | .granted _ =>
        if !punchOk then .punchFailed
        else if !initOk then .initFailed
        else .ok

/-! ## the transition system -/

inductive Why
  | noTunnel         -- openTunnel failed and FallbackTo == ""
  | transferFailed   -- helper.TransferConn returned an error
  | encFailed        -- libio.WithEncryption failed on the tunnel stream
  deriving DecidableEq, Repr

inductive Phase
  | opening                  -- inside openTunnel
  | tunnel (sess : Nat)      -- io.Join(userConn, wrapped stream of tunnel session `sess`)
  | fallback                 -- handed to the fallback visitor (isConnTransfered)
  | closed (w : Why)         -- the deferred userConn.Close()
  deriving DecidableEq, Repr

structure Conn where
  id : Nat
  since : Nat                -- when handleConn started (ms)
  phase : Phase
  deriving DecidableEq, Repr

inductive Cause
  | stream       -- openTunnel returned a stream
  | deadline     -- the FallbackTimeoutMs context
  | limit20      -- openTunnel's 20 s
  | vclosed      -- sv.ctx cancelled
  deriving DecidableEq, Repr

inductive Dest
  | tunnel (sess : Nat)
  | fallback
  deriving DecidableEq, Repr

/-- ghost: one hand-over of a user connection -/
structure Hand where
  conn : Nat
  dest : Dest
  cause : Cause
  time : Nat
  since : Nat
  deriving DecidableEq, Repr

inductive Starter
  | idle                     -- processTunnelStartEvents blocked in its select
  | punching (t0 : Nat)      -- inside makeNatHole since t0
  | cooling (upto : Nat)     -- `time.Sleep(10*time.Second - duration)`
  deriving DecidableEq, Repr

structure St where
  now : Nat := 0
  sess : Option Nat := none      -- session.session ≠ nil (its identity)
  alive : Bool := false          -- OpenConn on it would succeed
  starter : Starter := .idle
  closedV : Bool := false
  tokens : Nat := 0              -- retryLimiter
  conns : List Conn := []
  nextSess : Nat := 0
  -- ghost
  hands : List Hand := []
  starts : List Nat := []        -- times makeNatHole was entered, latest first
  keepFails : Nat := 0
  refills : Nat := 0
  deriving Repr

/-- after `Run`: with KeepTunnelOpen the worker's first, blocking `startTunnelCh <- struct{}{}` is taken at once -/
def xinit (cfg : Cfg) : St :=
  if cfg.keep then { starter := .punching 0, starts := [0], tokens := cfg.maxRetries }
  else { tokens := cfg.maxRetries }

inductive Ev
  | advance (d : Nat)
  | arrive (c : Nat) (ivOk : Bool)
  | tick (c : Nat) (ivOk : Bool)
  | ctxDone (c : Nat) (xferOk : Bool)
  | limit20 (c : Nat) (xferOk : Bool)
  | vctxDone (c : Nat) (xferOk : Bool)
  | hole (ts : Int) (prepareOk punchOk initOk : Bool)
  | coolDone
  | peerGone
  | keepTick
  | refill
  | close
  deriving Repr

def getC (s : St) (c : Nat) : Option Conn := s.conns.find? (fun x => x.id == c)

def setPhase (s : St) (c : Nat) (p : Phase) : St :=
  { s with conns := s.conns.map (fun x => if x.id = c then { x with phase := p } else x) }

/-- `select { case sv.startTunnelCh <- struct{}{}: default: }` — the channel is unbuffered: the send is taken
    only while processTunnelStartEvents stands in its select -/
def signalStart (s : St) : St :=
  match s.starter, s.closedV with
  | .idle, false => { s with starter := .punching s.now, starts := s.now :: s.starts }
  | _, _ => s

/-- `getTunnelConn`: `session.OpenConn`; on error `session.Close()` and the start signal -/
def getTunnelConn (s : St) : St × Option Nat :=
  match s.sess, s.alive with
  | some k, true => (s, some k)
  | _, _ => (signalStart { s with sess := none, alive := false }, none)

/-- handleConn after openTunnel returned a stream of session k -/
def joinTunnel (cfg : Cfg) (s : St) (x : Conn) (k : Nat) (ivOk : Bool) : St :=
  if cfg.enc && !ivOk then setPhase s x.id (.closed .encFailed)
  else { setPhase s x.id (.tunnel k) with
         hands := { conn := x.id, dest := .tunnel k, cause := .stream, time := s.now, since := x.since } :: s.hands }

/-- one pass of openTunnel's loop that calls getTunnelConn -/
def attempt (cfg : Cfg) (s : St) (x : Conn) (ivOk : Bool) : St :=
  match getTunnelConn s with
  | (s1, some k) => joinTunnel cfg s1 x k ivOk
  | (s1, none) => s1

/-- handleConn after openTunnel returned an error -/
def giveUp (cfg : Cfg) (s : St) (x : Conn) (cause : Cause) (xferOk : Bool) : St :=
  if !cfg.fallback then setPhase s x.id (.closed .noTunnel)
  else if !xferOk then setPhase s x.id (.closed .transferFailed)
  else { setPhase s x.id .fallback with
         hands := { conn := x.id, dest := .fallback, cause := cause, time := s.now, since := x.since } :: s.hands }

def opening? (s : St) (c : Nat) : Option Conn :=
  match getC s c with
  | some x => if x.phase = .opening then some x else none
  | none => none

def xstep (env : Env) (cfg : Cfg) (s : St) : Ev → St
  | .advance d => { s with now := s.now + d }
  | .arrive c ivOk =>
    if s.closedV then s                     -- both listeners are closed
    else match getC s c with
      | some _ => s                         -- not a new connection
      | none =>
        let x : Conn := { id := c, since := s.now, phase := .opening }
        attempt cfg { s with conns := x :: s.conns } x ivOk       -- immediateTrigger
  | .tick c ivOk =>
    match opening? s c with
    | some x => attempt cfg s x ivOk
    | none => s
  | .ctxDone c xferOk =>
    match opening? s c with
    | some x => if cfg.fallback && decide (x.since + cfg.fallbackMs ≤ s.now) then giveUp cfg s x .deadline xferOk else s
    | none => s
  | .limit20 c xferOk =>
    match opening? s c with
    | some x => if decide (x.since + 20000 ≤ s.now) then giveUp cfg s x .limit20 xferOk else s
    | none => s
  | .vctxDone c xferOk =>
    match opening? s c with
    | some x => if s.closedV then giveUp cfg s x .vclosed xferOk else s
    | none => s
  | .hole ts prepareOk punchOk initOk =>
    match s.starter with
    | .punching t0 =>
      let s1 : St := match holeRes env cfg ts prepareOk punchOk initOk with
        | .ok => { s with sess := some s.nextSess, alive := true, nextSess := s.nextSess + 1 }   -- session.Init
        | _ => s
      -- `if duration < 10*time.Second { time.Sleep(10*time.Second - duration) }`
      if s.now < t0 + 10000 then { s1 with starter := .cooling (t0 + 10000) } else { s1 with starter := .idle }
    | _ => s
  | .coolDone =>
    match s.starter with
    | .cooling u => if u ≤ s.now then { s with starter := .idle } else s
    | _ => s
  | .peerGone => { s with alive := false }
  | .keepTick =>
    if !cfg.keep || s.closedV then s
    else match getTunnelConn s with
      | (s1, some _) => s1                                -- the check stream is closed again
      | (s1, none) =>
        -- `_ = sv.retryLimiter.Wait(sv.ctx)`: takes a token (when none is left the worker stands here until `refill`)
        if s1.tokens = 0 then s1 else { s1 with tokens := s1.tokens - 1, keepFails := s1.keepFails + 1 }
  | .refill => if s.tokens < cfg.maxRetries then { s with tokens := s.tokens + 1, refills := s.refills + 1 } else s
  | .close => { s with closedV := true, sess := none, alive := false }

def xrun (env : Env) (cfg : Cfg) : St → List Ev → St
  | s, [] => s
  | s, e :: es => xrun env cfg (xstep env cfg s e) es

/-! ## wrapper stacks of a tunnel stream (no server in between)

    client/visitor/xtcp.go `handleConn`:  on the stream: enc(SecretKey) if visitor.useEncryption, then comp if
                                          visitor.useCompression
    client/proxy/xtcp.go  `listenByKCP/QUIC` → `HandleTCPWorkConnection(stream, m, []byte(pxy.cfg.Secretkey))`:
                                          limiter (client mode), enc(Secretkey) if proxy.useEncryption, comp if
                                          proxy.useCompression
-/
open Layers in
def tunnelVisitorStack (enc comp : Bool) : List Kind := opt enc .enc ++ opt comp .comp

open Layers in
def tunnelProxyStack (o : Opts) : List Kind := opt o.limCli .limit ++ opt o.enc .enc ++ opt o.comp .comp

/-- with the keys (0 = the secret key, 1 = the auth token): both ends of a tunnel stream use the SECRET key -/
def tunnelVisitorEnd (vEnc vComp : Bool) : List Visitor.Layer := Visitor.stack 0 vEnc vComp
def tunnelProxyEnd (pEnc pComp : Bool) : List Visitor.Layer := Visitor.stack 0 pEnc pComp

end XtcpVisitor
end Frp
