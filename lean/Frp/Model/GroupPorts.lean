import Frp.Model.Ports
/-
  The tcp load-balancing group controller COMPOSED WITH THE PORT MANAGER (property C13, clause "the group's
  endpoint … disappears with the last member and can be created again immediately … with fixed and
  server-chosen ports", and: one owner's bookkeeping does not damage another owner's port).

    server/group/tcp.go   `TCPGroupCtl.Listen` → `TCPGroup.Listen`   first member: `portManager.Acquire(proxyName, port)`,
                          own `net.Listen` (failure ⇒ `Release(realPort)`); later member: compared, told `tg.realPort`
                          `TCPGroup.CloseListener`                   last member: listener closed, `Release(tg.realPort)`
    server/proxy/tcp.go   `TCPProxy.Run / Close` (no group)           the OTHER owners of ports: Acquire + Listen / Release
    server/ports/ports.go `Manager` = `Ports.PM` (Frp/Model/Ports.lean: the three tables free / used / reserved,
                          `Acquire` with its reserved-port path, `Release`)

  Joins and leaves are big steps: each is one critical section of the controller lock
  (`C13.code_join_one_section`, `code_leave_one_section`, regenerated from the source); their interleavings are
  Frp/Model/Group.lean's.  What is new here is WHO OWNS WHICH PORT: instead of an oracle "the manager granted a
  port" the real tables are part of the state, a group founded with remotePort 0 leaves a reservation behind,
  and between its last leave and its re-creation any other owner (another group, a plain proxy, another process)
  may take the released port by number.

  The OS is part of the state: `ext` = sockets of other processes; every `Ln` is a listening socket of frps.
-/
namespace Frp
namespace GroupPorts
open Ports

/-- one listening tcp socket of this frps and the controller state around it -/
structure Ln where
  port    : Nat               -- `TCPGroup.realPort` / `TCPProxy.realBindPort`: where the socket is bound
  owner   : Str               -- the proxy name that was handed to `Acquire`: the group's FOUNDING member / the plain proxy
  grp     : Option GInfo      -- `TCPGroup.group / groupKey / port` (none: a plain tcp proxy)
  members : List Str          -- `TCPGroup.lns`, by proxy name (a plain proxy: itself)
deriving DecidableEq, Repr

structure St where
  pm  : PM := { free := [], used := [], reserved := [] }
  lns : List Ln := []
  ext : List Nat := []        -- ports bound by other processes
deriving Repr

/-- the OS refuses a bind iff somebody holds the port -/
def St.bound (s : St) (p : Nat) : Bool := s.ext.contains p || s.lns.any (fun l => l.port == p)

/-- `isPortAvailable`: the probe `net.Listen` + `Close` -/
def St.avail (s : St) (p : Nat) : Bool := !s.bound p

/-- proxy.Manager: the name is live (registered and not closed) -/
def St.isLive (s : St) (m : Str) : Bool := s.lns.any (fun l => l.members.contains m)

def Ln.inGroup (l : Ln) (g : Str) : Bool :=
  match l.grp with
  | some i => decide (i.g = g)
  | none => false

/-- `tgc.groups[g]` with `len(tg.lns) > 0` -/
def St.groupOf (s : St) (g : Str) : Option Ln := s.lns.find? (fun l => l.inGroup g)

/-- the listener a live name sits on -/
def St.lnOf (s : St) (m : Str) : Option Ln := s.lns.find? (fun l => l.members.contains m)

/-- the path shared by a group's first member (`TCPGroup.Listen`, `len(tg.lns) == 0`) and a plain proxy
    (`TCPProxy.Run`): `Acquire(name, req)`, then the owner's own `net.Listen` on the acquired port; if that fails
    (`grab`: another process bound the port after the probe inside Acquire; or somebody holds it already) the
    port is `Release`d again.  `choice` as in `PM.acquire`. -/
def St.openLn (s : St) (name : Str) (req : Nat) (grp : Option GInfo) (choice : Option Nat) (grab : Bool) :
    St × Except RegErr Nat :=
  match s.pm.acquire name req s.avail choice with
  | (_, .error e) => (s, .error (.acquire e))
  | (pm', .ok p) =>
    if grab = true ∨ s.bound p = true then
      ({ s with pm := pm'.release p, ext := if grab then p :: s.ext else s.ext }, .error .listen)
    else
      ({ s with pm := pm', lns := { port := p, owner := name, grp := grp, members := [name] } :: s.lns }, .ok p)

/-- `TCPGroupCtl.Listen(proxyName, group, groupKey, addr, port)` (the bind address is fixed here; the
    comparison of all endpoint parameters is `Group.cmp`) -/
def St.join (s : St) (m : Str) (gi : GInfo) (choice : Option Nat) (grab : Bool) : St × Except RegErr Nat :=
  if s.isLive m then (s, .error .exists_)
  else
    match s.groupOf gi.g with
    | none => s.openLn m gi.req (some gi) choice grab
    | some l =>
      match l.grp with
      | none => (s, .error .grpPort)                        -- unreachable: `groupOf` returns groups only
      | some i =>
        if i.req ≠ gi.req then (s, .error .grpPort)          -- tg.port != port
        else if i.key ≠ gi.key then (s, .error .grpAuth)     -- tg.groupKey != groupKey
        else ({ s with lns := { l with members := l.members ++ [m] } :: s.lns.filter (fun x => x.port ≠ l.port) },
              .ok l.port)                                    -- realPort = tg.realPort; the manager is not touched

/-- a plain tcp proxy (`TCPProxy.Run`, no group): one more kind of owner -/
def St.take (s : St) (n : Str) (req : Nat) (choice : Option Nat) (grab : Bool) : St × Except RegErr Nat :=
  if s.isLive n then (s, .error .exists_) else s.openLn n req none choice grab

/-- `TCPGroupListener.Close` → `CloseListener` / `TCPProxy.Close`: the name leaves its listener; the last one
    out closes the socket and does `portManager.Release(realPort)` -/
def St.close (s : St) (m : Str) : St :=
  match s.lnOf m with
  | none => s
  | some l =>
    let ms := l.members.erase m
    if ms = [] then { s with pm := s.pm.release l.port, lns := s.lns.filter (fun x => x.port ≠ l.port) }
    else { s with lns := { l with members := ms } :: s.lns.filter (fun x => x.port ≠ l.port) }

/-- another process binds / releases a port -/
def St.squat (s : St) (p : Nat) : St := if s.bound p then s else { s with ext := p :: s.ext }
def St.unsquat (s : St) (p : Nat) : St := { s with ext := s.ext.filter (· ≠ p) }

def St.new (allowed : List Nat) : St := { pm := PM.new allowed }

inductive Op
  | join (m : Str) (gi : GInfo) (choice : Option Nat) (grab : Bool)
  | take (n : Str) (req : Nat) (choice : Option Nat) (grab : Bool)
  | close (m : Str)
  | squat (p : Nat)
  | unsquat (p : Nat)

def apply (s : St) : Op → St
  | .join m gi c g => (s.join m gi c g).1
  | .take n r c g => (s.take n r c g).1
  | .close m => s.close m
  | .squat p => s.squat p
  | .unsquat p => s.unsquat p

/-- every history of joins / leaves of tcp groups (fixed and server-chosen ports, right and wrong key / port),
    plain proxies coming and going, foreign processes binding and releasing ports, failed listens and every
    outcome of the manager's random choice -/
def run (A : List Nat) (ops : List Op) : St := ops.foldl apply (St.new A)

end GroupPorts
end Frp
