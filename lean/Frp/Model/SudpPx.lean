import Frp.Model.Udp
/-
  Client side of a sudp proxy (client/proxy/sudp.go): SEVERAL work connections alive at the same time.

  Go anchors
    client/proxy/sudp.go  SUDPProxy            proxy-wide state: `closeCh` (closed by `Close()`), `localAddr` — nothing else
                          InWorkConn(conn, _)  called once per work connection (= once per visitor connection; frps
                                               hands every visitor connection its own work connection, and they all
                                               stay alive together).  Everything below is LOCAL to the call:
                            readCh := make(chan *msg.UDPPacket, 1024); sendCh := make(chan msg.Message, 1024); isClose := false
                            closeFn: mu.Lock; if isClose { return }; isClose = true; workConn.Close(); close(readCh); close(sendCh)
                            workConnReaderFn: defer closeFn(); for { select { case <-pxy.closeCh: return; default: }
                                                ReadMsgInto(conn, &udpMsg) → error: return
                                                PanicToError(readCh <- &udpMsg) → error (channel closed): return }
                            workConnSenderFn: defer closeFn(); for rawMsg := range sendCh { WriteMsg(conn, rawMsg) → error: return }
                            heartbeatFn:      defer closeFn(); for { select {
                                                case <-ticker.C (30 s): PanicToError(sendCh <- &msg.Ping{}) → error: return
                                                case <-pxy.closeCh: return } }
                            udp.Forwarder(pxy.localAddr, readCh, sendCh, udpPacketSize)   -- its own udpConnMap per call
    pkg/proto/udp/udp.go  Forwarder            reader goroutine: `for udpMsg := range readCh` (a closed channel still hands
                                               out what is buffered): GetContent, socket per RemoteAddr.String(), Write;
                                               writerFn per socket: ReadFromUDP → NewUDPPacket(buf[:n], nil, raddr) →
                                               PanicToError(select { case sendCh <- m: default: }) → error (closed): return
                                               (deferred: delete the map entry, close the socket)

  Work connections are numbered 0, 1, … in the order of the InWorkConn calls.  `Conn` is the state one call
  owns; `CLabel` are the atomic actions of its goroutines; the proxy is the list of its connections plus the
  one shared bit `closeCh`.  A label of the proxy is addressed to exactly one connection (`at i l`), or is a
  new InWorkConn call (`open_`), or `Close()` (`proxyClose`).
-/
namespace Frp
namespace SudpPx
open Udp

/-- the only places where the client side of a sudp proxy lets a datagram go -/
inductive PDrop
  | lateRecv    -- reader: `readCh <- &udpMsg` on the closed channel (panic recovered) ⇒ return
  | decodeErr   -- Forwarder: GetContent error ⇒ continue
  | writeErr    -- Forwarder: udpConn.Write to the backend failed (socket closed)
  | replyFull   -- writerFn: `select { case sendCh <- m: default: }` with 1024 queued
  | closedCh    -- writerFn: send on the closed sendCh (panic recovered) ⇒ writerFn returns
  | connDown    -- sender: `msg.WriteMsg(conn, m)` failed ⇒ return
  deriving DecidableEq, Repr

/-- why `closeFn` of a connection ran first -/
inductive Cause
  | readErr       -- its reader returned (ReadMsgInto error: peer closed, bad frame)
  | writeErr      -- its sender returned (WriteMsg error)
  | proxyClosed   -- its heartbeat saw `pxy.closeCh` closed
  deriving DecidableEq, Repr

/-- what ONE call of InWorkConn owns -/
structure Conn where
  bs : Nat := 1500                          -- clientCfg.UDPPacketSize (Forwarder bufSize)
  cap : Nat := 1024                         -- capacity of readCh / sendCh
  isClose : Bool := false                   -- closeFn has run: work connection closed, readCh and sendCh closed
  reader : Bool := true                     -- workConnReaderFn inside its loop
  sender : Bool := true                     -- workConnSenderFn inside its range loop
  hb : Bool := true                         -- heartbeatFn inside its loop
  readCh : List Packet := []
  sendCh : List (Option Packet) := []       -- `none` = Ping
  cmap : List (Option Addr × Nat) := []     -- udpConnMap of this connection's Forwarder
  closedSocks : List Nat := []
  nextSock : Nat := 0
  -- ghost state (logs; never read by the transitions)
  socks : List (Nat × Option Addr) := []    -- every socket dialled, with the raddr its writerFn captured
  inLog : List View := []                   -- UDPPackets the reader got from the work connection
  backendLog : List (Nat × View) := []      -- udpConn.Write(buf) on socket k
  dropUp : List (PDrop × View) := []
  replyLog : List (Nat × View) := []        -- datagrams read by writerFn of socket k
  wire : List View := []                    -- WriteMsg(conn, UDPPacket) succeeded
  pings : Nat := 0                          -- WriteMsg(conn, Ping) succeeded
  dropDown : List (PDrop × View) := []
  cause : Option Cause := none
  deriving Repr

inductive CLabel
  | recv (m : Packet)                 -- reader: ReadMsgInto gave a UDPPacket; `readCh <- &udpMsg`
  | readerDie                         -- reader: ReadMsgInto error ⇒ return ⇒ closeFn
  | fwd (writeOk : Bool)              -- Forwarder reader goroutine: one message of readCh
  | backendReply (k : Nat) (q : Str)  -- writerFn of socket k: ReadFromUDP → NewUDPPacket → try-send
  | sockExit (k : Nat)                -- writerFn of socket k returns (30 s idle or read error)
  | send (ok : Bool)                  -- sender: next message of sendCh, WriteMsg (ok = the transport took it)
  | senderEnd                         -- sender: range over the closed, empty sendCh ends
  | tick                              -- heartbeat: `sendCh <- &msg.Ping{}`
  | hbClose                           -- heartbeat: `case <-pxy.closeCh: return` ⇒ closeFn
  deriving Repr

def Conn.init (bs cap : Nat) : Conn := { bs := bs, cap := cap }

/-- `closeFn` -/
def doClose (c : Conn) (why : Cause) : Conn :=
  if c.isClose then c else { c with isClose := true, cause := some why }

/-- the UDPPackets in a send queue -/
def pkts (q : List (Option Packet)) : List Packet := q.filterMap id

def stepRecv (c : Conn) (m : Packet) : Conn :=
  if !c.reader then c
  else if c.isClose then
    -- the message was read before closeFn ran; the send on the closed channel panics, the reader returns
    { c with reader := false, inLog := c.inLog ++ [view m], dropUp := c.dropUp ++ [(.lateRecv, view m)] }
  else if c.readCh.length < c.cap then { c with readCh := c.readCh ++ [m], inLog := c.inLog ++ [view m] }
  else c      -- `readCh <- &udpMsg` blocks

def stepReaderDie (c : Conn) : Conn :=
  if c.reader then doClose { c with reader := false } .readErr else c

/-- as `Udp.stepCfwd`; a closed readCh still hands out what is buffered -/
def stepFwd (c : Conn) (writeOk : Bool) : Conn :=
  match c.readCh with
  | [] => c
  | m :: rest =>
    let c := { c with readCh := rest }
    match contentOf m with
    | none => { c with dropUp := c.dropUp ++ [(.decodeErr, view m)] }
    | some _ =>
      match lookup c.cmap m.raddr with
      | some k =>
        if writeOk && !c.closedSocks.contains k then { c with backendLog := c.backendLog ++ [(k, view m)] }
        else { c with closedSocks := k :: c.closedSocks, dropUp := c.dropUp ++ [(.writeErr, view m)] }
      | none =>
        let k := c.nextSock
        let c := { c with nextSock := k + 1, cmap := (m.raddr, k) :: c.cmap, socks := (k, m.raddr) :: c.socks }
        if writeOk then { c with backendLog := c.backendLog ++ [(k, view m)] }
        else { c with closedSocks := k :: c.closedSocks, dropUp := c.dropUp ++ [(.writeErr, view m)] }

def stepBackendReply (c : Conn) (k : Nat) (q : Str) : Conn :=
  if !isBytes q then c else
  match ownerOf c.socks k with
  | none => c
  | some a =>
    -- writerFn of k is alive iff k is the map entry of its captured address and k is open
    if lookup c.cmap a = some k && !c.closedSocks.contains k then
      let m := packetOf (rd c.bs q) none a
      let c := { c with replyLog := c.replyLog ++ [(k, view m)] }
      if c.isClose then
        -- the send panics (recovered); writerFn returns: `delete(udpConnMap, addr); udpConn.Close()`
        { c with dropDown := c.dropDown ++ [(.closedCh, view m)],
                 cmap := c.cmap.filter (fun e => e.1 ≠ a), closedSocks := k :: c.closedSocks }
      else if c.sendCh.length < c.cap then { c with sendCh := c.sendCh ++ [some m] }
      else { c with dropDown := c.dropDown ++ [(.replyFull, view m)] }
    else c

def stepSockExit (c : Conn) (k : Nat) : Conn :=
  match ownerOf c.socks k with
  | none => c
  | some a =>
    if lookup c.cmap a = some k then
      { c with cmap := c.cmap.filter (fun e => e.1 ≠ a), closedSocks := k :: c.closedSocks }
    else c

def stepSend (c : Conn) (ok : Bool) : Conn :=
  if !c.sender then c else
  match c.sendCh with
  | [] => c
  | none :: rest =>
    if ok && !c.isClose then { c with sendCh := rest, pings := c.pings + 1 }
    else doClose { c with sendCh := rest, sender := false } .writeErr
  | some m :: rest =>
    -- a write on a connection that closeFn has closed always fails
    if ok && !c.isClose then { c with sendCh := rest, wire := c.wire ++ [view m] }
    else doClose { c with sendCh := rest, sender := false, dropDown := c.dropDown ++ [(.connDown, view m)] } .writeErr

def stepSenderEnd (c : Conn) : Conn :=
  if c.sender && c.isClose && c.sendCh.isEmpty then { c with sender := false } else c

def stepTick (c : Conn) : Conn :=
  if !c.hb then c
  else if c.isClose then { c with hb := false }      -- send on the closed channel panics (recovered): return
  else if c.sendCh.length < c.cap then { c with sendCh := c.sendCh ++ [none] }
  else c      -- `sendCh <- &msg.Ping{}` blocks

def stepHbClose (pclosed : Bool) (c : Conn) : Conn :=
  if c.hb && pclosed then doClose { c with hb := false } .proxyClosed else c

/-- one atomic action of a goroutine of this connection; `pclosed` = `pxy.closeCh` is closed -/
def cstep (pclosed : Bool) (c : Conn) : CLabel → Conn
  | .recv m => stepRecv c m
  | .readerDie => stepReaderDie c
  | .fwd ok => stepFwd c ok
  | .backendReply k q => stepBackendReply c k q
  | .sockExit k => stepSockExit c k
  | .send ok => stepSend c ok
  | .senderEnd => stepSenderEnd c
  | .tick => stepTick c
  | .hbClose => stepHbClose pclosed c

def crun (c : Conn) (ls : List (Bool × CLabel)) : Conn := ls.foldl (fun c p => cstep p.1 c p.2) c

/-! ## the proxy: all its work connections -/

structure St where
  bs : Nat := 1500
  cap : Nat := 1024
  pclosed : Bool := false          -- `pxy.closeCh` is closed
  conns : List Conn := []          -- one entry per InWorkConn call, in call order
  deriving Repr

inductive Label
  | open_                          -- InWorkConn: a further work connection (number `conns.length`)
  | at (i : Nat) (l : CLabel)      -- a goroutine of connection i
  | proxyClose                     -- SUDPProxy.Close
  deriving Repr

def step (s : St) : Label → St
  | .open_ => { s with conns := s.conns ++ [Conn.init s.bs s.cap] }
  | .at i l => { s with conns := s.conns.modify i (fun c => cstep s.pclosed c l) }
  | .proxyClose => { s with pclosed := true }

def init (bs cap : Nat) : St := { bs := bs, cap := cap }

def run (s : St) (ls : List Label) : St := ls.foldl step s

/-- connection `i` (if it exists) -/
def St.conn (s : St) (i : Nat) : Option Conn := s.conns[i]?

/-- the label is an action of a goroutine of connection `i` -/
def addressed (i : Nat) : Label → Bool
  | .at j _ => j == i
  | _ => false

/-- the actions of connection `i` in a run, each with the value `pxy.closeCh` had when it happened -/
def proj (i : Nat) : Bool → List Label → List (Bool × CLabel)
  | _, [] => []
  | pc, .at j l :: ls => if j = i then (pc, l) :: proj i pc ls else proj i pc ls
  | _, .proxyClose :: ls => proj i true ls
  | pc, .open_ :: ls => proj i pc ls

end SudpPx
end Frp
