import Frp.Model.Visitor
/-
  Whose user does a run id stand for?  server/control.go `ControlManager` as the Go code has it:

    Add(runID, ctl)     old, ok = ctlsByRunID[runID]; if ok { old.Replaced(ctl) }; ctlsByRunID[runID] = ctl
    Del(runID, ctl)     if c, ok := ctlsByRunID[runID]; ok && c == ctl { delete(ctlsByRunID, runID) }
    GetByID(runID)      ctlsByRunID[runID]

  and server/service.go

    RegisterControl     ctl := NewControl(..loginMsg..); old := Add(loginMsg.RunID, ctl); old.WaitClosed(); ctl.Start();
                        go { ctl.WaitClosed(); Del(loginMsg.RunID, ctl) }
    RegisterVisitorConn visitorUser = "" for the empty run id, else GetByID(runID).loginMsg.User ("no client control found")

  A `*Control` is an identity (`id`, the pointer that Del compares) and its `loginMsg.User`.  Run ids are chosen
  by the client: a login may present the run id of a control that is still registered (re-login, replacement);
  the replaced control's goroutine calls Del later, with a pointer that is no longer the registered one.

  `Visitor.State.ctls` is the projection `users` of this table (run id ↦ user of the registered control).
-/
namespace Frp
namespace CtlMgr
open NatHole (aget aput adel)

/-- a `*Control`: the pointer (what `c == ctl` compares) and `loginMsg.User` -/
structure Ctl where
  id : Nat
  user : Str
  deriving DecidableEq, Repr

/-- `ControlManager.ctlsByRunID` -/
abbrev Tbl := List (Str × Ctl)

/-- `ControlManager.Add`: stores `c` under the run id whatever is there; returns what was there (it is `Replaced`) -/
def add (t : Tbl) (rid : Str) (c : Ctl) : Tbl × Option Ctl := (aput t rid c, aget t rid)

/-- `ControlManager.Del`: only if the control stored under the run id is this very control -/
def del (t : Tbl) (rid : Str) (id : Nat) : Tbl :=
  match aget t rid with
  | some c => if c.id = id then adel t rid else t
  | none => t

/-- `ControlManager.GetByID` -/
def getByID (t : Tbl) (rid : Str) : Option Ctl := aget t rid

/-- service.go `RegisterVisitorConn`, the lines that compute `visitorUser` -/
def visitorUser (t : Tbl) (rid : Str) : Except Visitor.Err Str :=
  if rid = [] then .ok []
  else match getByID t rid with
    | none => .error .noRun
    | some c => .ok c.user

/-- the calls the manager sees -/
inductive Call
  | add (rid : Str) (c : Ctl)     -- RegisterControl: `ctlManager.Add(loginMsg.RunID, ctl)`
  | del (rid : Str) (id : Nat)    -- the goroutine of control `id` (logged in under `rid`): `ctlManager.Del(loginMsg.RunID, ctl)`
  deriving DecidableEq, Repr

def apply (t : Tbl) : Call → Tbl
  | .add rid c => (add t rid c).1
  | .del rid id => del t rid id

/-- the table after a history of calls, NEWEST FIRST -/
def after : List Call → Tbl
  | [] => []
  | e :: h => apply (after h) e

/-- run id ↦ login user of the registered control: what `Visitor.State.ctls` holds -/
def users (t : Tbl) : List (Str × Str) := t.map (fun p => (p.1, p.2.user))

/-- The ControlManager calls behind the service-level ops of the `Visitor` model, given the table they meet:
    `login` = Add of a new control (identity `fresh`); `logout` = the control registered under the run id ends and
    its goroutine's Del takes effect.  Every other op leaves the manager alone. -/
def cmStep (t : Tbl) (fresh : Nat) : Visitor.Op → Tbl
  | .login rid user => (add t rid { id := fresh, user := user }).1
  | .logout rid =>
    match aget t rid with
    | some c => del t rid c.id
    | none => t
  | _ => t

/-- a history of service-level ops, oldest first (as `Visitor.runS`); the k-th op's control gets identity n + k -/
def cmRun (t : Tbl) (n : Nat) : List Visitor.Op → Tbl
  | [] => t
  | op :: ops => cmRun (cmStep t n op) (n + 1) ops

end CtlMgr
end Frp
