import Frp.Model.Str
/-
  How a command-line flag reaches the configuration a `frpc <type>` sub-command runs with.

  Go sources mirrored here:
    pkg/config/flags.go   RegisterClientCommonConfigFlags(cmd, c):
        cmd.PersistentFlags().StringVarP(&c.ServerAddr, "server_addr", …)      -- and every other flag but one:
            the flag set of `cmd` keeps the ADDRESS of a field of `c`; parsing writes through it
        c.Transport.TLS.Enable = cmd.PersistentFlags().BoolP("tls_enable", "", true, …)
            the other way round: the flag set of `cmd` allocates a bool (default true) and `c` keeps ITS address;
            parsing writes the bool owned by `cmd`
    cmd/frpc/sub/proxy.go init(): one registration per sub-command; the Run closure of the command reads the
        object it was given (`clientCfg.Complete()` keeps a non-nil Enable pointer, a nil one becomes true)
    spf13/cobra: only the flag set of the command that runs (and of its parents: persistent flags) is parsed,
        the cells of all other commands keep their defaults.
-/
namespace Frp
namespace CmdWire

/-- one `RegisterClientCommonConfigFlags(cmd, cfg)` call: command and configuration object, by identity -/
structure Reg where
  cmd : Nat
  cfg : Nat
  deriving DecidableEq, Repr

/-- after the registrations `regs` (in order): the command whose flag set owns the bool that
    `cfg.Transport.TLS.Enable` points at — the LAST registration of that object wins; `none` = never
    registered, the pointer is nil -/
def enableCell (regs : List Reg) (cfg : Nat) : Option Nat :=
  (regs.reverse.find? (fun r => r.cfg = cfg)).map (·.cmd)

/-- the bool owned by command `cell` after `frpc <ran> --tls_enable=v`: cobra parsed the flag set of `ran` only -/
def cellValue (ran : Nat) (v : Bool) (cell : Nat) : Bool := if cell = ran then v else true

/-- what the Run closure of command `ran` sees in `clientCfg.Transport.TLS.Enable` after Complete, when it was
    started with `--tls_enable=v`; `runCfg` = the object each command's closure was given -/
def seenTLS (regs : List Reg) (runCfg : Nat → Nat) (ran : Nat) (v : Bool) : Bool :=
  match enableCell regs (runCfg ran) with
  | some cell => cellValue ran v cell
  | none => true

/-- a flag bound by address (`StringVarP(&c.X, …)`): `frpc <ran> --flag=v` writes `v` into every object registered
    on `ran`; the closure sees it when its own object is among them, the default otherwise -/
def seenAddr {α : Type} (regs : List Reg) (runCfg : Nat → Nat) (ran : Nat) (v dflt : α) : α :=
  if regs.any (fun r => r.cmd = ran && r.cfg = runCfg ran) then v else dflt

/-- every command registered exactly its own object: command `i` ↔ object `i` -/
def ownRegs (n : Nat) : List Reg := (List.range n).map fun i => ⟨i, i⟩

/-- all commands registered one shared object `0` -/
def sharedRegs (n : Nat) : List Reg := (List.range n).map fun i => ⟨i, 0⟩

end CmdWire
end Frp
